#!/usr/bin/env python3
"""Refresh the obligation counts in DESIGN.md section 13 from evidence/<id>.json (run after `./check Cxx` for every property)."""
import json, re, os
V = os.path.dirname(os.path.dirname(os.path.abspath(__file__)))
p = os.path.join(V, "DESIGN.md")
s = open(p).read()
a = s.index("## 13. Per property")
b = s.index("## 14.", a)
sec = s[a:b]
out = []
for line in sec.split("\n"):
    m = re.match(r"^\| (C\d\d) \| ", line)
    if m:
        ev = json.load(open(os.path.join(V, "evidence", m.group(1) + ".json")))
        n = ev["coverage"]["obligations"]
        k = ev["coverage"]["known_findings_printed"]
        cells = line.split(" | ")
        cells[1] = re.sub(r" \((?:N\d\d|\d+)(?:; \d+ findings?)?\)$", "", cells[1]) + f" ({n}" + (f"; {k} finding" + ("s" if k > 1 else "") if k else "") + ")"
        line = " | ".join(cells)
    out.append(line)
open(p, "w").write(s[:a] + "\n".join(out) + s[b:])
print("section 13 refreshed")
