#!/usr/bin/env python3
"""Systematic single-site mutation campaign against the checkers (an evaluation tool, not a registered check).

  tools/mutate.py gen   OUT.jsonl              enumerate mutants of the files the properties are anchored in
  tools/mutate.py gen2  OUT.jsonl              second operator family (sibling calls / names / attributes, dropped copies and keywords,
                                               swapped tuple elements, boolean connectives, shifted indices and ranges)
  tools/mutate.py check OUT.jsonl RES.jsonl    run, in-process, the checks of the properties anchored in the mutated file
  tools/mutate.py tests RES.jsonl TST.jsonl    for mutants no check reported: run the test files that exercise the mutated file
                                               (scratch copies under $MUT_SCRATCH, default /tmp/scratch/mut)
  tools/mutate.py report RES.jsonl [TST.jsonl]

Nothing here executes /repo code except the `tests` phase, which runs the repository's own test-suite on scratch copies to find out
which undetected mutants the tests would have caught anyway.  Mutants that survive both are the interesting ones (equivalent
mutants, code no property speaks about, or gaps in the checks) and are triaged by hand.
"""
from __future__ import annotations
import ast, json, os, sys, copy, subprocess, shutil, time, multiprocessing as mp

VERIF = os.path.dirname(os.path.dirname(os.path.abspath(__file__)))
REPO = os.environ.get("SA_REPO", "/repo")
sys.path.insert(0, VERIF)

SKIP_FUNCS = ("plot", "diagnostics", "__str__", "__repr__", "matrix_plot", "trace_plot", "print", "percent", "countdown", "iterations_",
              "write_completion", "swap_diagnostics")
TESTS = {
    "inference/mcmc/gibbs.py": ["tests/mcmc/test_gibbs.py", "tests/mcmc/test_pca.py", "tests/test_plotting.py"],
    "inference/mcmc/base.py": ["tests/mcmc/test_gibbs.py", "tests/mcmc/test_pca.py", "tests/mcmc/test_hamiltonian.py", "tests/mcmc/test_ensemble.py"],
    "inference/mcmc/utilities.py": ["tests/mcmc"],
    "inference/mcmc/hmc/__init__.py": ["tests/mcmc/test_hamiltonian.py"],
    "inference/mcmc/hmc/epsilon.py": ["tests/mcmc/test_hamiltonian.py"],
    "inference/mcmc/hmc/mass.py": ["tests/mcmc/test_hamiltonian.py"],
    "inference/mcmc/ensemble.py": ["tests/mcmc/test_ensemble.py"],
    "inference/mcmc/pca.py": ["tests/mcmc/test_pca.py"],
    "inference/mcmc/parallel.py": [],
    "inference/gp/covariance.py": ["tests/test_covariance.py", "tests/gp"],
    "inference/gp/mean.py": ["tests/test_covariance.py", "tests/gp"],
    "inference/gp/regression.py": ["tests/gp/test_GpRegressor.py", "tests/gp/test_GpOptimiser.py"],
    "inference/gp/inversion.py": ["tests/gp/test_GpLinearInverter.py"],
    "inference/gp/optimisation.py": ["tests/gp/test_GpOptimiser.py"],
    "inference/gp/acquisition.py": ["tests/gp/test_GpOptimiser.py"],
    "inference/likelihoods.py": ["tests/test_likelihoods.py"],
    "inference/priors.py": ["tests/test_priors.py", "tests/test_posterior.py"],
    "inference/posterior.py": ["tests/test_posterior.py"],
    "inference/pdf/base.py": ["tests/test_pdf.py", "tests/test_plotting.py"],
    "inference/pdf/hdi.py": ["tests/test_pdf.py"],
    "inference/pdf/kde.py": ["tests/test_pdf.py", "tests/test_plotting.py"],
    "inference/pdf/unimodal.py": ["tests/test_pdf.py"],
    "inference/approx/conditional.py": ["tests/approx/test_conditional.py"],
}


def file_props():
    m = {}
    for l in open(os.path.join(VERIF, "properties.jsonl")):
        d = json.loads(l)
        for f in d["anchors"]["files"]:
            m.setdefault(f, []).append(d["id"])
    return m


# ------------------------------------------------------------------------------------------------ generation
def _excluded_regions(tree):
    """Nodes no mutant is taken from: messages (raise / warn / f-strings), docstrings, asserts, annotations, decorators."""
    ex = set()
    for n in ast.walk(tree):
        if isinstance(n, (ast.Raise, ast.Assert, ast.JoinedStr)):
            for x in ast.walk(n):
                ex.add(id(x))
        if isinstance(n, ast.Call) and ast.unparse(n.func).split(".")[-1] in ("warn", "print", "write", "format"):
            for x in ast.walk(n):
                ex.add(id(x))
        if isinstance(n, (ast.FunctionDef, ast.AsyncFunctionDef)):
            for d in n.decorator_list:
                for x in ast.walk(d):
                    ex.add(id(x))
            for a in n.args.args + n.args.kwonlyargs:
                if a.annotation is not None:
                    for x in ast.walk(a.annotation):
                        ex.add(id(x))
            if n.returns is not None:
                for x in ast.walk(n.returns):
                    ex.add(id(x))
            for d in n.args.defaults + [k for k in n.args.kw_defaults if k is not None]:
                pass
        if isinstance(n, ast.AnnAssign):
            for x in ast.walk(n.annotation):
                ex.add(id(x))
        if isinstance(n, ast.Expr) and isinstance(n.value, ast.Constant) and isinstance(n.value.value, str):
            ex.add(id(n.value))
    return ex


def _segment(src_lines, node):
    if node.lineno == node.end_lineno:
        return src_lines[node.lineno - 1][node.col_offset:node.end_col_offset]
    parts = [src_lines[node.lineno - 1][node.col_offset:]] + src_lines[node.lineno:node.end_lineno - 1] + [src_lines[node.end_lineno - 1][:node.end_col_offset]]
    return "\n".join(parts)


def _splice(src, node, text):
    lines = src.split("\n")
    # byte offsets -> ast gives utf8 byte col offsets; sources are ascii apart from comments, convert carefully
    def off(line, col):
        return len(lines[line - 1].encode("utf8")[:col].decode("utf8"))
    a_l, a_c, b_l, b_c = node.lineno, off(node.lineno, node.col_offset), node.end_lineno, off(node.end_lineno, node.end_col_offset)
    head = lines[:a_l - 1] + [lines[a_l - 1][:a_c]]
    tail = [lines[b_l - 1][b_c:]] + lines[b_l:]
    return "\n".join(head)[:] + text + "\n".join(tail)


def mutants_of(rel, src):
    tree = ast.parse(src)
    ex = _excluded_regions(tree)
    out = []

    def add(node, new_node_or_text, op, func, stmt=False):
        text = new_node_or_text if isinstance(new_node_or_text, str) else ast.unparse(new_node_or_text)
        if not stmt and not isinstance(new_node_or_text, str):
            text = "(" + text + ")"
        try:
            new_src = _splice(src, node, text)
            ast.parse(new_src)
        except Exception:
            return
        if new_src == src:
            return
        out.append({"file": rel, "func": func, "line": node.lineno, "op": op,
                    "before": ast.unparse(node)[:120], "after": text[:120], "_src": new_src})

    def visit(fn, qual):
        if any(k in fn.name for k in SKIP_FUNCS):
            return
        for n in ast.walk(fn):
            if id(n) in ex or not hasattr(n, "lineno"):
                continue
            if isinstance(n, (ast.FunctionDef, ast.ClassDef)) and n is not fn:
                continue
            if isinstance(n, ast.BinOp):
                alt = {ast.Add: [ast.Sub], ast.Sub: [ast.Add], ast.Mult: [ast.Div], ast.Div: [ast.Mult], ast.FloorDiv: [ast.Div],
                       ast.Mod: [ast.FloorDiv], ast.Pow: [ast.Mult]}.get(type(n.op), [])
                for a in alt:
                    m = copy.deepcopy(n)
                    m.op = a()
                    add(n, m, f"AOR {type(n.op).__name__}->{a.__name__}", qual)
                if isinstance(n.op, (ast.Sub, ast.Div, ast.MatMult, ast.Pow, ast.FloorDiv, ast.Mod)) and ast.dump(n.left) != ast.dump(n.right):
                    m = copy.deepcopy(n)
                    m.left, m.right = m.right, m.left
                    add(n, m, f"SWAP {type(n.op).__name__}", qual)
            elif isinstance(n, ast.Compare) and len(n.ops) == 1:
                alts = {ast.Lt: [ast.LtE, ast.Gt], ast.LtE: [ast.Lt], ast.Gt: [ast.GtE, ast.Lt], ast.GtE: [ast.Gt],
                        ast.Eq: [ast.NotEq], ast.NotEq: [ast.Eq], ast.Is: [ast.IsNot], ast.IsNot: [ast.Is], ast.In: [ast.NotIn], ast.NotIn: [ast.In]}
                for a in alts.get(type(n.ops[0]), []):
                    m = copy.deepcopy(n)
                    m.ops = [a()]
                    add(n, m, f"ROR {type(n.ops[0]).__name__}->{a.__name__}", qual)
            elif isinstance(n, ast.Constant) and isinstance(n.value, (int, float)) and not isinstance(n.value, bool):
                vals = [n.value + 1] if isinstance(n.value, int) else [n.value * 2.0]
                if isinstance(n.value, int) and n.value not in (0,):
                    vals.append(n.value - 1)
                if isinstance(n.value, float) and n.value != 0:
                    vals.append(n.value * 0.5)
                for v in vals:
                    add(n, ast.Constant(value=v), "CONST", qual)
            elif isinstance(n, ast.UnaryOp) and isinstance(n.op, ast.USub) and not isinstance(n.operand, ast.Constant):
                add(n, copy.deepcopy(n.operand), "UOD -x->x", qual)
            elif isinstance(n, ast.UnaryOp) and isinstance(n.op, ast.Not):
                add(n, copy.deepcopy(n.operand), "UOD not", qual)
            elif isinstance(n, (ast.If, ast.While)):
                m = ast.UnaryOp(op=ast.Not(), operand=copy.deepcopy(n.test))
                if id(n.test) not in ex:
                    add(n.test, m, "COND negate", qual)
            elif isinstance(n, ast.IfExp):
                m = copy.deepcopy(n)
                m.body, m.orelse = m.orelse, m.body
                add(n, m, "COND ifexp arms", qual)
            elif isinstance(n, ast.Subscript) and isinstance(n.slice, ast.Slice):
                sl = n.slice
                if sl.lower is not None:
                    m = copy.deepcopy(n)
                    m.slice.lower = ast.BinOp(left=m.slice.lower, op=ast.Add(), right=ast.Constant(value=1))
                    add(n, m, "SLICE lower+1", qual)
                if sl.upper is not None:
                    m = copy.deepcopy(n)
                    m.slice.upper = ast.BinOp(left=m.slice.upper, op=ast.Sub(), right=ast.Constant(value=1))
                    add(n, m, "SLICE upper-1", qual)
                if sl.lower is None and sl.upper is None and sl.step is None:
                    pass
            elif isinstance(n, ast.Call):
                pos = [a for a in n.args if not isinstance(a, ast.Starred)]
                if len(n.args) >= 2 and len(pos) == len(n.args) and ast.dump(n.args[0]) != ast.dump(n.args[1]) \
                        and all(isinstance(a, (ast.Name, ast.Attribute, ast.Subscript)) for a in n.args[:2]):
                    m = copy.deepcopy(n)
                    m.args[0], m.args[1] = m.args[1], m.args[0]
                    add(n, m, "ARGSWAP", qual)
                for k in n.keywords:
                    if k.arg == "axis" and isinstance(k.value, ast.Constant) and k.value.value in (0, 1):
                        m = copy.deepcopy(n)
                        for k2 in m.keywords:
                            if k2.arg == "axis":
                                k2.value = ast.Constant(value=1 - k.value.value)
                        add(n, m, "AXIS", qual)
                    if k.arg == "lower" and isinstance(k.value, ast.Constant) and isinstance(k.value.value, bool):
                        m = copy.deepcopy(n)
                        for k2 in m.keywords:
                            if k2.arg == "lower":
                                k2.value = ast.Constant(value=not k.value.value)
                        add(n, m, "KW lower", qual)
            elif isinstance(n, ast.Attribute) and n.attr == "T" and isinstance(n.ctx, ast.Load):
                add(n, copy.deepcopy(n.value), "TRANSPOSE drop", qual)
        # statement deletion
        for n in ast.walk(fn):
            if id(n) in ex:
                continue
            for nm in ("body", "orelse"):
                b = getattr(n, nm, None)
                if not (isinstance(b, list) and b and isinstance(b[0], ast.stmt)):
                    continue
                for st in b:
                    if id(st) in ex:
                        continue
                    if (isinstance(st, ast.Expr) and isinstance(st.value, ast.Call)) or isinstance(st, ast.AugAssign) \
                            or (isinstance(st, ast.Assign) and isinstance(st.targets[0], (ast.Attribute, ast.Subscript))):
                        if isinstance(st, ast.Expr) and ast.unparse(st.value.func).split(".")[-1] in ("warn", "print", "write", "super"):
                            continue
                        add(st, "pass", "STMT-DEL", qual, stmt=True)
                    if isinstance(st, (ast.Break, ast.Continue)):
                        add(st, "pass", "STMT-DEL " + type(st).__name__, qual, stmt=True)

    for st in tree.body:
        if isinstance(st, ast.FunctionDef):
            visit(st, st.name)
        elif isinstance(st, ast.ClassDef):
            for m in st.body:
                if isinstance(m, ast.FunctionDef):
                    visit(m, f"{st.name}.{m.name}")
    return out


# second operator family: substitutions a reviewer would not spot at a glance (sibling functions, sibling names, dropped copies,
# swapped tuple elements, augmented-assignment operators, boolean connectives, dropped keywords, shifted indices)
CALL_SIBLINGS = {"exp": ["log", "expm1"], "log": ["exp", "log1p"], "sqrt": ["square"], "min": ["max"], "max": ["min"],
                 "argmin": ["argmax"], "argmax": ["argmin"], "floor": ["ceil"], "ceil": ["floor"], "zeros": ["ones"], "ones": ["zeros"],
                 "cumsum": ["cumprod"], "maximum": ["minimum"], "minimum": ["maximum"], "sum": ["prod", "mean"], "mean": ["sum", "median"],
                 "std": ["var"], "var": ["std"], "log1p": ["log"], "expm1": ["exp"], "append": ["extend"], "extend": ["append"],
                 "any": ["all"], "all": ["any"], "argsort": ["sort"], "sort": ["argsort"], "searchsorted": [], "abs": [], "dot": ["outer"],
                 "random": ["normal"], "normal": ["random"], "uniform": ["normal"], "cosh": ["sinh"], "sinh": ["cosh"], "erf": ["erfc"],
                 "erfc": ["erf"], "zeros_like": ["ones_like"], "full": [], "floor_divide": ["divide"], "isfinite": ["isnan"],
                 "less": ["greater"], "greater": ["less"], "where": [], "diag": [], "cho_solve": [], "solve_triangular": [],
                 "logaddexp": ["add"], "log2": ["log"], "trapz": ["sum"], "ptp": ["max"], "round": ["floor"], "sign": ["abs"]}
COPY_FUNCS = ("copy", "deepcopy", "array", "abs", "sqrt", "squeeze", "ravel", "flatten", "float", "int", "list", "tuple", "sorted", "atleast_1d")


def mutants2_of(rel, src):
    tree = ast.parse(src)
    ex = _excluded_regions(tree)
    out = []

    def add(node, new_node_or_text, op, func, stmt=False):
        text = new_node_or_text if isinstance(new_node_or_text, str) else ast.unparse(new_node_or_text)
        if not stmt and not isinstance(new_node_or_text, str):
            text = "(" + text + ")"
        try:
            new_src = _splice(src, node, text)
            ast.parse(new_src)
        except Exception:
            return
        if new_src == src:
            return
        out.append({"file": rel, "func": func, "line": node.lineno, "op": op,
                    "before": ast.unparse(node)[:120], "after": text[:120], "_src": new_src})

    def visit(fn, qual):
        if any(k in fn.name for k in SKIP_FUNCS):
            return
        # names by role: self attributes read, local names read
        self_attrs = sorted({n.attr for n in ast.walk(fn) if isinstance(n, ast.Attribute) and isinstance(n.value, ast.Name)
                             and n.value.id == "self" and isinstance(n.ctx, ast.Load)})
        for st in ast.walk(fn):
            if id(st) in ex or not isinstance(st, ast.stmt) or isinstance(st, (ast.FunctionDef, ast.ClassDef)):
                continue
            if isinstance(st, (ast.If, ast.While, ast.For, ast.With, ast.Try)):
                exprs = [getattr(st, "test", None) or getattr(st, "iter", None)]
            else:
                exprs = [st]
            for e in exprs:
                if e is None:
                    continue
                loads = [n for n in ast.walk(e) if isinstance(n, ast.Name) and isinstance(n.ctx, ast.Load) and id(n) not in ex]
                names = []
                for n in loads:
                    if n.id not in names:
                        names.append(n.id)
                callee = {id(n.func) for n in ast.walk(e) if isinstance(n, ast.Call)}
                # NAME-SWAP: a name read in a statement replaced by another name read in the same statement
                for n in loads:
                    if id(n) in callee or n.id == "self":
                        continue
                    for other in names:
                        if other != n.id and other != "self" and not any(id(c) in callee and c.id == other for c in loads):
                            add(n, ast.Name(id=other, ctx=ast.Load()), "NAME-SWAP", qual)
                            break
                # ATTR-SWAP: self.a read in a statement replaced by another self attribute read in the same statement
                attrs = [n for n in ast.walk(e) if isinstance(n, ast.Attribute) and isinstance(n.value, ast.Name) and n.value.id == "self"
                         and isinstance(n.ctx, ast.Load) and id(n) not in callee and id(n) not in ex]
                anames = []
                for n in attrs:
                    if n.attr not in anames:
                        anames.append(n.attr)
                for n in attrs:
                    for other in anames:
                        if other != n.attr:
                            m = copy.deepcopy(n)
                            m.attr = other
                            add(n, m, "ATTR-SWAP", qual)
                            break
        for n in ast.walk(fn):
            if id(n) in ex or not hasattr(n, "lineno"):
                continue
            if isinstance(n, (ast.FunctionDef, ast.ClassDef)) and n is not fn:
                continue
            if isinstance(n, ast.Call):
                f = n.func
                last = f.attr if isinstance(f, ast.Attribute) else (f.id if isinstance(f, ast.Name) else None)
                for alt in CALL_SIBLINGS.get(last, []):
                    m = copy.deepcopy(n)
                    if isinstance(m.func, ast.Attribute):
                        m.func.attr = alt
                    else:
                        m.func.id = alt
                    add(n, m, f"CALL {last}->{alt}", qual)
                if last in COPY_FUNCS and len(n.args) + (1 if isinstance(f, ast.Attribute) and not n.args else 0) == 1 and not n.keywords:
                    inner = n.args[0] if n.args else f.value
                    add(n, copy.deepcopy(inner), f"UNWRAP {last}", qual)
                for k in n.keywords:
                    if k.arg is not None and k.arg not in ("axis", "lower"):
                        m = copy.deepcopy(n)
                        m.keywords = [k2 for k2 in m.keywords if k2.arg != k.arg]
                        add(n, m, f"KW-DROP {k.arg}", qual)
                if last == "range" and len(n.args) in (1, 2):
                    m = copy.deepcopy(n)
                    m.args[-1] = ast.BinOp(left=m.args[-1], op=ast.Sub(), right=ast.Constant(value=1))
                    add(n, m, "RANGE stop-1", qual)
                    if len(n.args) == 2:
                        m = copy.deepcopy(n)
                        m.args = m.args[1:]
                        add(n, m, "RANGE start-drop", qual)
                    else:
                        m = copy.deepcopy(n)
                        m.args = [ast.Constant(value=1)] + m.args
                        add(n, m, "RANGE start=1", qual)
            elif isinstance(n, ast.BoolOp):
                m = copy.deepcopy(n)
                m.op = ast.Or() if isinstance(n.op, ast.And) else ast.And()
                add(n, m, "BOOL and<->or", qual)
                for k in range(len(n.values)):
                    rest = [copy.deepcopy(v) for j, v in enumerate(n.values) if j != k]
                    m = rest[0] if len(rest) == 1 else ast.BoolOp(op=copy.deepcopy(n.op), values=rest)
                    add(n, m, f"BOOL drop#{k}", qual)
            elif isinstance(n, ast.AugAssign):
                alt = {ast.Add: ast.Sub, ast.Sub: ast.Add, ast.Mult: ast.Div, ast.Div: ast.Mult}.get(type(n.op))
                if alt is not None:
                    m = copy.deepcopy(n)
                    m.op = alt()
                    add(n, m, f"AUG {type(n.op).__name__}->{alt.__name__}", qual, stmt=True)
                m = ast.Assign(targets=[copy.deepcopy(n.target)], value=copy.deepcopy(n.value), lineno=n.lineno)
                add(n, m, "AUG ->=", qual, stmt=True)
            elif isinstance(n, ast.Assign) and len(n.targets) == 1 and isinstance(n.targets[0], ast.Tuple) and len(n.targets[0].elts) >= 2 \
                    and all(isinstance(x, (ast.Name, ast.Attribute)) for x in n.targets[0].elts[:2]):
                m = copy.deepcopy(n)
                t = m.targets[0].elts
                t[0], t[1] = t[1], t[0]
                add(n, m, "UNPACK swap", qual, stmt=True)
            elif isinstance(n, ast.Return) and isinstance(n.value, ast.Tuple) and len(n.value.elts) >= 2 \
                    and ast.dump(n.value.elts[0]) != ast.dump(n.value.elts[1]):
                m = copy.deepcopy(n)
                t = m.value.elts
                t[0], t[1] = t[1], t[0]
                add(n, m, "RETURN swap", qual, stmt=True)
            elif isinstance(n, ast.Subscript) and not isinstance(n.slice, (ast.Slice, ast.Tuple)) and isinstance(n.ctx, ast.Load) \
                    and isinstance(n.slice, (ast.Name, ast.BinOp)):
                for d, tag in ((ast.Add, "+1"), (ast.Sub, "-1")):
                    m = copy.deepcopy(n)
                    m.slice = ast.BinOp(left=m.slice, op=d(), right=ast.Constant(value=1))
                    add(n, m, f"INDEX {tag}", qual)
            elif isinstance(n, ast.Subscript) and isinstance(n.slice, ast.Tuple) and len(n.slice.elts) == 2 and isinstance(n.ctx, ast.Load) \
                    and ast.dump(n.slice.elts[0]) != ast.dump(n.slice.elts[1]):
                m = copy.deepcopy(n)
                m.slice.elts[0], m.slice.elts[1] = m.slice.elts[1], m.slice.elts[0]
                add(n, m, "INDEX transpose", qual)
            elif isinstance(n, ast.Return) and n.value is not None and isinstance(n.value, ast.Name):
                pass

    for st in tree.body:
        if isinstance(st, ast.FunctionDef):
            visit(st, st.name)
        elif isinstance(st, ast.ClassDef):
            for m in st.body:
                if isinstance(m, ast.FunctionDef):
                    visit(m, f"{st.name}.{m.name}")
    return out


def cmd_gen(out_path, family=1):
    fp = file_props()
    n = 0
    with open(out_path, "w") as f:
        for rel in sorted(fp):
            src = open(os.path.join(REPO, rel)).read()
            seen = set()
            for m in (mutants_of if family == 1 else mutants2_of)(rel, src):
                key = (m["line"], m["op"], m["before"], m["after"])
                if key in seen:
                    continue
                seen.add(key)
                m["id"] = n
                m["props"] = fp[rel]
                f.write(json.dumps(m) + "\n")
                n += 1
    print(n, "mutants")


# ------------------------------------------------------------------------------------------------ checks (in-process)
_STATE = {}


def _init_worker():
    import importlib
    os.environ["SA_EVIDENCE_DIR"] = os.path.join(os.environ.get("MUT_SCRATCH", "/tmp/scratch/mut"), "ev")
    from sa.model import Program
    from sa import selftest
    prog = Program.load()
    _STATE["prog"], _STATE["selftest"] = prog, selftest
    _STATE["mods"], _STATE["base"] = {}, {}
    for l in open(os.path.join(VERIF, "properties.jsonl")):
        pid = json.loads(l)["id"]
        mod = importlib.import_module(f"sa.rules.{pid}")
        _STATE["mods"][pid] = mod
        obs, _, _ = mod.run(prog, "quick")
        _STATE["base"][pid] = selftest._failing(obs)


def _check_one(m):
    st = _STATE["selftest"]
    res = {"id": m["id"], "file": m["file"], "func": m["func"], "line": m["line"], "op": m["op"], "before": m["before"], "after": m["after"],
           "detected_by": None, "rules": [], "errors": {}}
    for pid in m["props"]:
        try:
            status, obs = st._run_variant(_STATE["mods"][pid], _STATE["prog"], m["file"], m["_src"])
        except Exception as e:      # noqa
            status, obs = f"crash: {e!r}"[:200], None
        if status == "ok":
            new = st._failing(obs) - _STATE["base"][pid]
            if new:
                res["detected_by"] = res["detected_by"] or pid
                res["rules"].append(f"{pid}.{sorted(new)[0][0]}")
        else:
            res["errors"][pid] = (str(status) + ": " + str(obs))[:200]
    return res


def cmd_check(inp, outp, jobs=14):
    items = [json.loads(l) for l in open(inp)]
    done = set()
    if os.path.exists(outp):
        done = {json.loads(l)["id"] for l in open(outp)}
    items = [m for m in items if m["id"] not in done]
    t0 = time.time()
    with mp.Pool(jobs, initializer=_init_worker) as pool, open(outp, "a") as f:
        for k, r in enumerate(pool.imap_unordered(_check_one, items, chunksize=4)):
            f.write(json.dumps(r) + "\n")
            if k % 200 == 0:
                f.flush()
                print(k, "/", len(items), f"{time.time() - t0:.0f}s", flush=True)


# ------------------------------------------------------------------------------------------------ tests on survivors
def _test_one(args):
    m, src = args
    scratch = os.environ.get("MUT_SCRATCH", "/tmp/scratch/mut")
    w = os.path.join(scratch, f"w{os.getpid()}")
    if not os.path.exists(w):
        os.makedirs(w)
        shutil.copytree(os.path.join(REPO, "inference"), os.path.join(w, "inference"))
        shutil.copytree(os.path.join(REPO, "tests"), os.path.join(w, "tests"))
        for extra in ("pyproject.toml", "setup.cfg", "pytest.ini", "conftest.py"):
            if os.path.exists(os.path.join(REPO, extra)):
                shutil.copy(os.path.join(REPO, extra), w)
    path = os.path.join(w, m["file"])
    orig = open(os.path.join(REPO, m["file"])).read()
    tests = TESTS.get(m["file"], [])
    out = {"id": m["id"], "tests": tests, "result": None}
    if not tests:
        out["result"] = "no-tests"
        return out
    open(path, "w").write(src)
    try:
        p = subprocess.run(["/venv/bin/python", "-m", "pytest", "-q", "-x", "-p", "no:cacheprovider", "-p", "no:randomly"] + tests,
                           cwd=w, env={**os.environ, "PYTHONPATH": w, "MPLBACKEND": "Agg", "OMP_NUM_THREADS": "1", "OPENBLAS_NUM_THREADS": "1",
                                "MKL_NUM_THREADS": "1", "NUMEXPR_NUM_THREADS": "1"}, capture_output=True, text=True, timeout=300)
        out["result"] = "killed" if p.returncode != 0 else "survived"
        out["tail"] = (p.stdout or "")[-200:]
    except subprocess.TimeoutExpired:
        out["result"] = "killed-timeout"
    finally:
        open(path, "w").write(orig)
    return out


def cmd_tests(mut_path, res_path, outp, jobs=8):
    srcs = {json.loads(l)["id"]: json.loads(l) for l in open(mut_path)}
    res = [json.loads(l) for l in open(res_path)]
    done = set()
    if os.path.exists(outp):
        done = {json.loads(l)["id"] for l in open(outp)}
    todo = [(r, srcs[r["id"]]["_src"]) for r in res if not r["detected_by"] and r["id"] not in done]
    print(len(todo), "undetected mutants to run the tests on", flush=True)
    t0 = time.time()
    with mp.Pool(jobs) as pool, open(outp, "a") as f:
        for k, r in enumerate(pool.imap_unordered(_test_one, todo, chunksize=1)):
            f.write(json.dumps(r) + "\n")
            f.flush()
            if k % 50 == 0:
                print(k, "/", len(todo), f"{time.time() - t0:.0f}s", flush=True)


def cmd_report(res_path, tst_path=None):
    res = [json.loads(l) for l in open(res_path)]
    tst = {json.loads(l)["id"]: json.loads(l) for l in open(tst_path)} if tst_path and os.path.exists(tst_path) else {}
    import collections
    by_file = collections.defaultdict(lambda: collections.Counter())
    for r in res:
        k = "detected" if r["detected_by"] else ("error-only" if r["errors"] else "silent")
        by_file[r["file"]][k] += 1
        if not r["detected_by"] and r["id"] in tst:
            by_file[r["file"]]["tests:" + tst[r["id"]]["result"]] += 1
    tot = collections.Counter()
    for f, c in sorted(by_file.items()):
        print(f"{f:38s} " + " ".join(f"{k}={v}" for k, v in sorted(c.items())))
        tot.update(c)
    print("TOTAL", dict(tot))


def cmd_recheck(mut_path, surv_path, pattern=""):
    """Re-run the checks on the mutants listed in a survivors file (optionally only those whose function / file matches `pattern`)."""
    srcs = {}
    for l in open(mut_path):
        m = json.loads(l)
        srcs[m["id"]] = m
    surv = json.load(open(surv_path))
    todo = [srcs[r["id"]] for r in surv if pattern in r["func"] or pattern in r["file"]]
    with mp.Pool(int(os.environ.get("MUT_JOBS", "12")), initializer=_init_worker) as pool:
        out = pool.map(_check_one, todo, chunksize=2)
    still = [r for r in out if not r["detected_by"]]
    print(len(todo), "re-checked;", len(todo) - len(still), "now detected;", len(still), "still silent")
    for r in sorted(still, key=lambda r: (r["file"], r["line"])):
        print(f"  {r['file'].split('inference/')[-1]}:{r['line']} {r['func']} {r['op']:18s} {r['before'][:50]!r} -> {r['after'][:50]!r} {list(r['errors'].values())[:1]}")
    return out


if __name__ == "__main__":
    cmd = sys.argv[1]
    if cmd == "recheck":
        cmd_recheck(sys.argv[2], sys.argv[3], sys.argv[4] if len(sys.argv) > 4 else "")
        sys.exit(0)
    if cmd == "gen":
        cmd_gen(sys.argv[2])
    elif cmd == "gen2":
        cmd_gen(sys.argv[2], family=2)
    elif cmd == "check":
        cmd_check(sys.argv[2], sys.argv[3], int(os.environ.get("MUT_JOBS", "14")))
    elif cmd == "tests":
        cmd_tests(sys.argv[2], sys.argv[3], sys.argv[4], int(os.environ.get("MUT_JOBS", "8")))
    elif cmd == "report":
        cmd_report(*sys.argv[2:])
