#!/usr/bin/env python3
"""Regenerate MANIFEST.json from the claims table below (keeps the file valid at all times)."""
import json, os
HERE = os.path.dirname(os.path.dirname(os.path.abspath(__file__)))
BASE_CMD = "cd /repo && /venv/bin/python -m pytest -ra -q -p no:cacheprovider --timeout=900 --continue-on-collection-errors"

ALL = [f"C{i:02d}" for i in range(1, 21)]

# property -> dict(technique, text, note, design_ref)
CLAIMS = json.load(open(os.path.join(HERE, "tools", "claims.json")))
NA = json.load(open(os.path.join(HERE, "tools", "not_applicable.json")))

checks = []
for pid in ALL:
    if pid not in CLAIMS:
        continue
    c = CLAIMS[pid]
    checks.append({
        "property_id": pid,
        "quick_cmd": f"./check {pid} --tier quick",
        "thorough_cmd": f"./check {pid} --tier thorough",
        "evidence_file": f"/verif/evidence/{pid}.json",
        "replay_cmd_template": f"./check {pid} --replay {{path}}",
        "engine": "sa",
        "level_claimed": {"category": "other", "text": c["text"], "design_ref": c.get("design_ref", f"DESIGN.md section 4 ({pid})")},
        "level_note": c["note"],
        "technique": c["technique"],
    })
na = [{"property_id": pid, "reason": NA.get(pid, "check not built yet in this session; no claim is made")}
      for pid in ALL if pid not in CLAIMS]
manifest = {
    "version": 1,
    "setup_cmd": "python3 -c \"import ast,glob,sys; [ast.parse(open(f).read(),f) for f in glob.glob('/verif/sa/**/*.py', recursive=True)+['/verif/check']]; print('sa framework: syntax ok')\"",
    "hooks": {
        "guard": "INFERENCE_TOOLS_VERIF",
        "enable": "no hooks: the checks are static analyses of /repo's source (ast only); nothing in /repo is instrumented",
        "baseline_off_cmd": BASE_CMD,
        "source_commits": [],
        "add_only": True,
    },
    "engines": [
        {"name": "sa", "path": "/verif/sa", "serves_properties": [c["property_id"] for c in checks],
         "kind_free_text": "repository-specific static analysis over Python ASTs: program model (imports, MRO, attribute facts), "
                           "def-use expansion into an algebraic normal form (equality of canonical forms, symbolic differentiation), "
                           "structured path/event enumeration, attribute typestate, ownership (may-alias x in-place mutation), "
                           "pipe-protocol extraction, finite-state extraction; stdlib only; never imports or runs /repo"},
    ],
    "checks": checks,
    "not_applicable": na,
    "notes": "Family: static analysis only. Every check re-parses /repo/inference on each run; exit 0/1/2 contract and "
             "KNOWN-FINDING / VIOLATION line formats are described in DESIGN.md section 2. Each check decides the named "
             "structural / formula clauses of its property, not the numerical behaviour (see level_note).",
}
json.dump(manifest, open(os.path.join(HERE, "MANIFEST.json"), "w"), indent=1)
print("MANIFEST.json:", len(checks), "claimed,", len(na), "not applicable")
