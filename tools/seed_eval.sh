#!/bin/bash
# usage: tools/seed_eval.sh <pid> [tag]   - harvest a sub-agent's change from /tmp/wt/<pid>, confirm it, run the checks against it
set -u
PID=$1; TAG=${2:-$1}; WT=/tmp/wt/$PID; OUT=/verif/seeded/$TAG
mkdir -p $OUT
git -C $WT diff -- inference > $OUT/patch.diff
BASE=$(echo $PID | sed "s/[a-z]$//"); cp $WT/demo_$BASE.py $OUT/demo.py 2>/dev/null || { echo "no demo"; exit 1; }
echo "== patch: $(grep -c '^[+-][^+-]' $OUT/patch.diff) changed lines"
# 1. tests pass with the change
( cd $WT && PYTHONPATH=$WT /venv/bin/python -m pytest -q -p no:cacheprovider -n 8 tests 2>&1 | tail -1 ) > $OUT/.tests.txt
cat $OUT/.tests.txt
# 2. demo fails with the change
( cd $WT && PYTHONPATH=$WT timeout 300 /venv/bin/python $OUT/demo.py > $OUT/.demo_mut.txt 2>&1 ); RC_MUT=$?
# 3. demo passes on the clean tree
( cd /repo && PYTHONPATH=/repo timeout 300 /venv/bin/python $OUT/demo.py > $OUT/.demo_clean.txt 2>&1 ); RC_CLEAN=$?
echo "demo rc: mutated=$RC_MUT clean=$RC_CLEAN"
# 4. run every claimed check against the change
git -C /repo apply $OUT/patch.diff || { echo "patch does not apply to /repo"; exit 1; }
DET=""
for c in $(python3 -c "import json;print(' '.join(x['property_id'] for x in json.load(open('/verif/MANIFEST.json'))['checks']))"); do
  ( cd /verif && ./check $c > /tmp/scratch/seed_$c.txt 2>&1 ); rc=$?
  if [ $rc -ne 0 ]; then DET="$DET $c(rc=$rc)"; grep -A1 "  $c\." /tmp/scratch/seed_$c.txt | head -4 | cut -c1-300; fi
done
git -C /repo checkout -- .
( cd /verif && git checkout -- evidence 2>/dev/null )
echo "detected by:${DET:- NONE}"
echo "$RC_MUT $RC_CLEAN|$(cat $OUT/.tests.txt)|${DET}" > $OUT/.result.txt
