#!/bin/bash
# usage: tools/run_seeded.sh [tag ...]  - apply every seeded change to a scratch COPY of /repo (never /repo itself), run the claimed
# check(s) expected to catch it (meta.json "detected_by", default: the property it breaks) and print the rules that fire.
# Exit 1 if any seeded change goes undetected.
set -u
cd /verif
TAGS=${@:-$(ls seeded)}
SCR=$(mktemp -d /tmp/seedrun.XXXX)
trap "rm -rf $SCR" EXIT
miss=0
for t in $TAGS; do
  [ -f seeded/$t/patch.diff ] || continue
  pids=$(python3 -c "import json,sys;m=json.load(open('seeded/$t/meta.json'));print(' '.join(m.get('detected_by',[m['breaks_property']])))" 2>/dev/null || echo ${t%%-*})
  rm -rf $SCR/repo; mkdir -p $SCR/repo; cp -r /repo/inference $SCR/repo/inference
  ( cd $SCR/repo && patch -p1 -s < /verif/seeded/$t/patch.diff ) || { echo "$t: patch does not apply"; miss=1; continue; }
  for pid in $pids; do
    out=$(SA_REPO=$SCR/repo SA_EVIDENCE_DIR=$SCR/ev ./check $pid 2>&1); rc=$?
    rule=$(echo "$out" | grep -oE "  C[0-9]+\.[a-z-]+" | sort | uniq -c | awk '{print $2"x"$1}' | tr '\n' ' ')
    exp=$(python3 -c "import json;print(json.load(open('seeded/$t/meta.json')).get('expected',''))" 2>/dev/null)
    if [ $rc -eq 1 ]; then echo "$t: DETECTED by $pid: $rule";
    elif [ $rc -eq 2 ] && [ "$exp" = "analysis-error" ]; then echo "$t: FAILS-CLOSED in $pid (ANALYSIS-ERROR, exit 2 - no verdict; recorded as such)";
    else echo "$t: MISSED by $pid (rc=$rc)"; miss=1; fi
  done
done
exit $miss
