#!/usr/bin/env python3
"""Regenerate the 'which check catches which seeded change' table of DESIGN.md from seeded/*/meta.json and a live run of
tools/run_seeded.sh (rule names are whatever fires today)."""
import json, glob, os, re, subprocess, sys
root = os.path.dirname(os.path.dirname(os.path.abspath(__file__)))
out = subprocess.run(f"ls {root}/seeded | xargs -P 8 -I{{}} bash {root}/tools/run_seeded.sh {{}}", shell=True, capture_output=True, text=True).stdout
live = {}
for line in out.splitlines():
    m = re.match(r"(\S+): (DETECTED|MISSED|FAILS-CLOSED) (?:by|in) (C\d+):? ?(.*)", line)
    if m:
        live.setdefault(m.group(1), []).append((m.group(2), m.group(3), m.group(4).strip()))
rows = ["| id | change | needs to manifest | caught by (rules firing today) | history |", "|---|---|---|---|---|"]
n = miss0 = 0
for meta in sorted(glob.glob(os.path.join(root, "seeded", "*", "meta.json"))):
    m = json.load(open(meta))
    if "change" not in m:
        continue
    n += 1
    tag = m["id"]
    det = "; ".join((f"**MISSED by {c}**" if s == "MISSED" else f"none - {c} ends in ANALYSIS-ERROR (fails closed)" if s == "FAILS-CLOSED" else r)
                    for s, c, r in live.get(tag, [])) or "?"
    hist = m.get("detection", "")
    first = ("not decided" if m.get("expected") == "analysis-error" else
             "missed at first" if re.search(r"initially (MISSED|exit 2)|[Mm]issed at first|missed by C\d\d at first|first ended in an analysis error|"
                                            r"first fired only because|first fired as|missed when found|failed closed when found", hist) else "caught as built")
    if first == "missed at first":
        miss0 += 1
    if first == "not decided":
        undecided = globals().get("undecided", 0) + 1
    esc = lambda t: t.replace("|", "\\|").replace("\n", " ")
    rows.append(f"| {tag} | {esc(m['change'])[:230]} | {esc(m.get('needs_to_manifest', ''))[:170]} | {esc(det)} | {first} |")
rows.append("")
und = globals().get("undecided", 0)
rows.append(f"{n} seeded changes; {n - miss0 - und} caught by the rules as they stood when the change arrived, {miss0} missed at first and "
            f"caught after a rule was added or corrected, {und} not decided (the check fails closed with ANALYSIS-ERROR) "
            f"(details in each `seeded/<id>/meta.json`, field `detection`).")
p = os.path.join(root, "DESIGN.md")
s = open(p).read()
a, b = s.index("<!-- SEEDED-TABLE-BEGIN -->"), s.index("<!-- SEEDED-TABLE-END -->")
s = s[:a] + "<!-- SEEDED-TABLE-BEGIN -->\n" + "\n".join(rows) + "\n" + s[b:]
open(p, "w").write(s)
print(n, "rows;", miss0, "missed at first;", sum(1 for v in live.values() for x in v if x[0] == "MISSED"), "missed today")
