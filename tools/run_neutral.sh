#!/bin/bash
# usage: tools/run_neutral.sh [tag ...] - apply every behaviour-preserving refactoring in neutral/<tag>/patch.diff to a scratch copy of
# /repo and run ALL claimed checks: every one must stay at exit 0 (any VIOLATION / ANALYSIS-ERROR here is a false alarm of ours).
set -u
cd /verif
TAGS=${@:-$(ls neutral)}
SCR=$(mktemp -d /tmp/neutralrun.XXXX)
trap "rm -rf $SCR" EXIT
bad=0
for t in $TAGS; do
  [ -f neutral/$t/patch.diff ] || continue
  rm -rf $SCR/repo; mkdir -p $SCR/repo; cp -r /repo/inference $SCR/repo/inference
  ( cd $SCR/repo && patch -p1 -s < /verif/neutral/$t/patch.diff ) || { echo "$t: patch does not apply"; bad=1; continue; }
  for pid in $(python3 -c "import json;print(' '.join(x['property_id'] for x in json.load(open('/verif/MANIFEST.json'))['checks']))"); do
    out=$(SA_REPO=$SCR/repo SA_EVIDENCE_DIR=$SCR/ev ./check $pid 2>&1); rc=$?
    if [ $rc -ne 0 ]; then bad=1; echo "$t: $pid rc=$rc"; echo "$out" | grep -E "^ANALYSIS-ERROR|  C[0-9]+\." -A1 | grep -v "^--" | head -8 | cut -c1-420; fi
  done
  echo "$t: done"
done
exit $bad
