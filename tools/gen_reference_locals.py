#!/usr/bin/env python3
"""Record, for every function of /repo/inference, its local names in order of first binding
(used only to undo pure renamings of locals before the structural rules run; see sa/model.py)."""
import ast, json, os, sys
sys.path.insert(0, os.path.dirname(os.path.dirname(os.path.abspath(__file__))))
from sa.model import function_locals, iter_functions
root = sys.argv[1] if len(sys.argv) > 1 else "/repo"
out = {}
for dp, dn, fn in os.walk(os.path.join(root, "inference")):
    for f in sorted(fn):
        if f.endswith(".py"):
            p = os.path.join(dp, f)
            rel = os.path.relpath(p, root)
            tree = ast.parse(open(p).read())
            d = {qn: function_locals(node) for qn, node in iter_functions(tree)}
            names = sorted(d)
            d = {k: v for k, v in d.items() if v}
            d["__all__"] = names          # every function of the file (a function that is not listed is new)
            d["__params__"] = {qn: [a.arg for a in node.args.args] for qn, node in iter_functions(tree)}
            out[rel] = d
json.dump(out, open(os.path.join(os.path.dirname(os.path.abspath(__file__)), "..", "sa", "reference_locals.json"), "w"), indent=0, sort_keys=True)
print(sum(len(v["__all__"]) for v in out.values()), "functions recorded")
