#!/bin/bash
# usage: tools/seed_harvest.sh <worktree-name> [tag]  - copy a sub-agent's change out of /tmp/wt/<name> into seeded/<tag>/ and confirm it:
# full suite passes with the change, demo fails with it, demo passes on /repo.  Detection is measured separately (tools/run_seeded.sh).
set -u
PID=$1; TAG=${2:-$1}; WT=/tmp/wt/$PID; OUT=/verif/seeded/$TAG
mkdir -p $OUT
git -C $WT diff -- inference > $OUT/patch.diff
BASE=$(echo $PID | sed "s/[a-z]$//"); cp $WT/demo_$BASE.py $OUT/demo.py 2>/dev/null || { echo "$TAG: no demo"; exit 1; }
( cd $WT && PYTHONPATH=$WT /venv/bin/python -m pytest -q -p no:cacheprovider -n 4 tests 2>&1 | tail -1 ) > $OUT/.tests.txt
( cd $WT && PYTHONPATH=$WT timeout 300 /venv/bin/python $OUT/demo.py > $OUT/.demo_mut.txt 2>&1 ); RC_MUT=$?
( cd /repo && PYTHONPATH=/repo timeout 300 /venv/bin/python $OUT/demo.py > $OUT/.demo_clean.txt 2>&1 ); RC_CLEAN=$?
echo "$RC_MUT $RC_CLEAN|$(cat $OUT/.tests.txt)|" > $OUT/.result.txt
echo "$TAG: demo mutated=$RC_MUT clean=$RC_CLEAN tests: $(cat $OUT/.tests.txt)"
