# the cumulative function must be the integral of the estimated density (here: from far below the sample up to the mode)
import sys
from numpy.random import default_rng
from scipy.integrate import quad
from inference.pdf import UnimodalPdf
s = default_rng(3).normal(5.0, 2.0, size=3000)
p = UnimodalPdf(s)
x = p.mode
ref = quad(p, x - 60.0, x, points=[x - 10, x - 5], limit=200)[0]
got = p.cdf(x)
total = p.cdf(x + 60.0)
print("cdf(mode)", got, "integral of density up to mode", ref, "cdf(+inf)", total)
lo, hi = p.interval(0.9)
mass = quad(p, lo, hi)[0]
print("interval(0.9) holds", mass)
sys.exit(1 if (abs(got - ref) > 5e-3 or abs(mass - 0.9) > 1e-2) else 0)
