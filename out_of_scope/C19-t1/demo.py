"""C19 miss: UnimodalPdf's integration limits are pulled in from mode -/+ s0 (4 exp(-/+f) + 1) to mode -/+ s0 (exp(-/+f) + 1).
They are still mirror images under f -> -f (the only thing C19.mirror-symmetric-limits looks at), but the cdf, which integrates
the density upwards from lwr_limit, now starts about two scale lengths below the mode: the probability below that point is
dropped, so the cumulative function is no longer the integral of the estimated density (cdf(+far) is well short of 1, and
cdf(x) differs from the integral of the pdf over (-inf, x]).   Exit 1 when that happens, 0 otherwise."""
import sys
import warnings
import numpy as np
from scipy.integrate import quad
warnings.filterwarnings("ignore")
from inference.pdf.unimodal import UnimodalPdf

rng = np.random.default_rng(3)
sample = rng.normal(loc=2.0, scale=1.5, size=1500)
pdf = UnimodalPdf(sample)
far = sample.mean() + 12 * sample.std()
top = pdf.cdf(far)
x = sample.mean()
true_F = quad(pdf, -np.inf, x)[0]
print(f"cdf(far above the data) = {top:.4f};  cdf(mean) = {pdf.cdf(x):.4f},  integral of the pdf up to the mean = {true_F:.4f}")
sys.exit(1 if (abs(top - 1.0) > 0.01 or abs(pdf.cdf(x) - true_F) > 0.01) else 0)
