"""Load-time canonicalisation of the parsed program.

Every pass below is behaviour-preserving; together they map the many spellings a maintainer may choose for the same
computation onto one, so that the rules - written against that one spelling - give the same verdict for all of them.

  P1  branch polarity      `if not c: A else: B` -> `if c: B else: A`;  `if x is not None: A else: B` -> `if x is None: B else: A`;  `if a != b: A else: B` -> `if a == b: B else: A`
                           (statements with two non-empty arms, and conditional expressions)
  P2b returned choice      `return a if c else b` -> `if c: return a` `return b`
  P2  no else after exit   `if c: ...; return/raise/break/continue  else: REST`  ->  `if c: ...exit`  followed by REST
  P3  effect loops         an expression statement that is a comprehension evaluated for its side effects becomes a for loop
  P3b accumulation loops  `L = []; for x in xs: L.append(e)` becomes `L = [e for x in xs]`
  P3d literal loops        a loop over a short literal table is unrolled; setattr / getattr with a constant name become attribute access
  P3c local functions     a nested `def f(x): return e` becomes `f = lambda x: e`
  P4  new helpers          a function / method that the reference snapshot does not know (a freshly extracted private helper) is
                           inlined at its call sites (arguments bound once, locals renamed) and removed
  P4b renamed helpers      a private function unknown to the reference opposite a vanished private reference name is renamed back
  P5  new temporaries      a local the reference does not know, bound once and read once in the next statement, is written
                           back in place (single use: no alias is lost; adjacent: no call crosses another statement)
  P6  renamed locals       the remaining locals are mapped back to the reference names by order of first binding

P4-P6 use sa/reference_locals.json (names only: which functions exist, which locals each has, in order).  Nothing here looks at
what the code computes; a change of behaviour survives every pass unchanged.
"""
from __future__ import annotations
import ast
import copy
import itertools

TERMINATORS = (ast.Return, ast.Raise, ast.Break, ast.Continue)


# ------------------------------------------------------------------------------------------------ P1
def _flip(test):
    """(flipped?, canonical test): tests are put in positive polarity."""
    if isinstance(test, ast.UnaryOp) and isinstance(test.op, ast.Not):
        return True, test.operand
    if isinstance(test, ast.Compare) and len(test.ops) == 1 and isinstance(test.ops[0], ast.IsNot) \
            and isinstance(test.comparators[0], ast.Constant) and test.comparators[0].value is None:
        return True, ast.copy_location(ast.Compare(left=test.left, ops=[ast.Is()], comparators=test.comparators), test)
    if isinstance(test, ast.Compare) and len(test.ops) == 1 and isinstance(test.ops[0], ast.NotEq):
        return True, ast.copy_location(ast.Compare(left=test.left, ops=[ast.Eq()], comparators=test.comparators), test)
    return False, test


def _negate(test):
    if isinstance(test, ast.UnaryOp) and isinstance(test.op, ast.Not):
        return test.operand
    if isinstance(test, ast.Compare) and len(test.ops) == 1:
        inv = {ast.Is: ast.IsNot, ast.IsNot: ast.Is, ast.Eq: ast.NotEq, ast.NotEq: ast.Eq, ast.In: ast.NotIn, ast.NotIn: ast.In}
        k = type(test.ops[0])
        if k in inv:
            return ast.copy_location(ast.Compare(left=test.left, ops=[inv[k]()], comparators=test.comparators), test)
    return ast.copy_location(ast.UnaryOp(op=ast.Not(), operand=test), test)


class _Polarity(ast.NodeTransformer):
    def visit_If(self, node):
        self.generic_visit(node)
        # an arm that does nothing is no arm: `if c: pass else: B` is `if not c: B`
        if node.orelse and all(isinstance(s_, ast.Pass) for s_ in node.orelse):
            node.orelse = []
        if node.body and all(isinstance(s_, ast.Pass) for s_ in node.body) and node.orelse:
            node.test = _negate(node.test)
            node.body, node.orelse = node.orelse, []
        if node.body and node.orelse:
            flipped, t = _flip(node.test)
            if flipped:
                node.test = t
                node.body, node.orelse = node.orelse, node.body
        return node

    def visit_IfExp(self, node):
        self.generic_visit(node)
        flipped, t = _flip(node.test)
        if flipped:
            node.test = t
            node.body, node.orelse = node.orelse, node.body
        return node


# ------------------------------------------------------------------------------------------------ P2 / P3
def _blocks(node):
    for name in ("body", "orelse", "finalbody"):
        b = getattr(node, name, None)
        if isinstance(b, list) and b and isinstance(b[0], ast.stmt):
            yield name, b
    for h in getattr(node, "handlers", []) or []:
        yield "handler", h.body


def _extend_comp_to_loop(st):
    """`L.extend([e for x in xs])` -> `for x in xs: L.append(e)`."""
    if not (isinstance(st, ast.Expr) and isinstance(st.value, ast.Call) and isinstance(st.value.func, ast.Attribute)
            and st.value.func.attr == "extend" and len(st.value.args) == 1 and not st.value.keywords
            and isinstance(st.value.args[0], (ast.ListComp, ast.GeneratorExp))):
        return None
    comp = st.value.args[0]
    if len(comp.generators) != 1 or comp.generators[0].ifs or comp.generators[0].is_async:
        return None
    g = comp.generators[0]
    tgt = copy.deepcopy(g.target)
    for x in ast.walk(tgt):
        if isinstance(x, ast.Name):
            x.ctx = ast.Store()
    app = ast.Expr(value=ast.Call(func=ast.Attribute(value=st.value.func.value, attr="append", ctx=ast.Load()), args=[comp.elt], keywords=[]))
    ast.copy_location(app, st)
    return ast.copy_location(ast.For(target=tgt, iter=g.iter, body=[app], orelse=[], type_comment=None), st)


def _effect_comp_to_loop(st):
    """`[f(x) for x in xs if c]` as a statement -> nested for / if statements (None when st is not of that form)."""
    if not (isinstance(st, ast.Expr) and isinstance(st.value, (ast.ListComp, ast.GeneratorExp, ast.SetComp))):
        return None
    comp = st.value
    if not isinstance(comp.elt, ast.Call):
        return None
    inner = [ast.copy_location(ast.Expr(value=comp.elt), st)]
    for g in reversed(comp.generators):
        if g.is_async:
            return None
        for cond in reversed(g.ifs):
            inner = [ast.copy_location(ast.If(test=cond, body=inner, orelse=[]), st)]
        tgt = copy.deepcopy(g.target)
        for x in ast.walk(tgt):
            if isinstance(x, ast.Name):
                x.ctx = ast.Store()
        inner = [ast.copy_location(ast.For(target=tgt, iter=g.iter, body=inner, orelse=[], type_comment=None), st)]
    return inner[0]


def _local_def_to_lambda(st):
    """A nested `def f(x): return e` (no decorators, defaults or annotations that matter) is the binding `f = lambda x: e`."""
    if not isinstance(st, ast.FunctionDef) or st.decorator_list or st.args.defaults or st.args.kw_defaults or st.args.vararg \
            or st.args.kwarg or st.args.kwonlyargs or st.args.posonlyargs:
        return None
    body = [s for s in st.body if not (isinstance(s, ast.Expr) and isinstance(s.value, ast.Constant) and isinstance(s.value.value, str))]
    if len(body) != 1 or not isinstance(body[0], ast.Return) or body[0].value is None:
        return None
    args = ast.arguments(posonlyargs=[], args=[ast.arg(arg=a.arg) for a in st.args.args], vararg=None, kwonlyargs=[], kw_defaults=[],
                         kwarg=None, defaults=[])
    lam = ast.Lambda(args=args, body=body[0].value)
    return ast.copy_location(ast.Assign(targets=[ast.Name(id=st.name, ctx=ast.Store())], value=lam), st)


def _literal(e):
    if isinstance(e, ast.Constant):
        return True
    if isinstance(e, (ast.Tuple, ast.List)):
        return all(_literal(x) or isinstance(x, ast.Name) for x in e.elts)
    return False


def _unroll_literal_loop(st):
    """`for k, f in (("a", float), ("b", int)): body`  ->  body[k:="a", f:=float]; body[k:="b", f:=int]
    (a loop over a short literal table of constants / names, without break / continue / else, whose targets are not re-bound)."""
    if not (isinstance(st, ast.For) and not st.orelse and isinstance(st.iter, (ast.Tuple, ast.List)) and 0 < len(st.iter.elts) <= 40):
        return None
    if not all(_literal(e) or isinstance(e, ast.Name) for e in st.iter.elts):
        return None
    # a table of data (it carries at least one constant per row); a plain list of names (classes to visit ...) stays a loop
    if not all(any(isinstance(x, ast.Constant) for x in ast.walk(e)) for e in st.iter.elts):
        return None
    tnames = [x.id for x in ast.walk(st.target) if isinstance(x, ast.Name)]
    for n in ast.walk(ast.Module(body=st.body, type_ignores=[])):
        if isinstance(n, (ast.Break, ast.Continue)):
            return None
        if isinstance(n, ast.Name) and n.id in tnames and isinstance(n.ctx, (ast.Store, ast.Del)):
            return None
    out = []
    for e in st.iter.elts:
        if isinstance(st.target, ast.Name):
            sub = {st.target.id: e}
        elif isinstance(st.target, (ast.Tuple, ast.List)) and isinstance(e, (ast.Tuple, ast.List)) and len(e.elts) == len(st.target.elts) \
                and all(isinstance(t, ast.Name) for t in st.target.elts):
            sub = {t.id: v for t, v in zip(st.target.elts, e.elts)}
        else:
            return None

        class Sub(ast.NodeTransformer):
            def visit_Name(self, x):
                return copy.deepcopy(sub[x.id]) if x.id in sub and isinstance(x.ctx, ast.Load) else x
        for b in st.body:
            out.append(Sub().visit(copy.deepcopy(b)))
    return out


class _DictCalls(ast.NodeTransformer):
    """`dict(a=1, b=x)` is the literal `{"a": 1, "b": x}` (keyword form only; `dict` not re-bound)."""
    def visit_Call(self, n):
        self.generic_visit(n)
        if isinstance(n.func, ast.Name) and n.func.id == "dict" and not n.args and n.keywords and all(k.arg is not None for k in n.keywords):
            return ast.copy_location(ast.Dict(keys=[ast.Constant(value=k.arg) for k in n.keywords], values=[k.value for k in n.keywords]), n)
        return n


class _AttrCalls(ast.NodeTransformer):
    """setattr(o, "name", v) as a statement -> o.name = v ;  getattr(o, "name") -> o.name   (constant, identifier-like names)."""
    def visit_Expr(self, st):
        self.generic_visit(st)
        v = st.value
        if isinstance(v, ast.Call) and isinstance(v.func, ast.Name) and v.func.id == "setattr" and len(v.args) == 3 and not v.keywords \
                and isinstance(v.args[1], ast.Constant) and isinstance(v.args[1].value, str) and v.args[1].value.isidentifier():
            return ast.copy_location(ast.Assign(targets=[ast.Attribute(value=v.args[0], attr=v.args[1].value, ctx=ast.Store())],
                                                value=v.args[2]), st)
        return st

    def visit_Call(self, n):
        self.generic_visit(n)
        if isinstance(n.func, ast.Name) and n.func.id == "getattr" and len(n.args) == 2 and not n.keywords \
                and isinstance(n.args[1], ast.Constant) and isinstance(n.args[1].value, str) and n.args[1].value.isidentifier():
            return ast.copy_location(ast.Attribute(value=n.args[0], attr=n.args[1].value, ctx=ast.Load()), n)
        return n


def _restructure(body, nested=False):
    out = []
    for k_, st in enumerate(body):
        # a loop over a name bound, in the statement just before, to a literal table: iterate the table itself
        if isinstance(st, ast.For) and isinstance(st.iter, ast.Name) and out and isinstance(out[-1], ast.Assign) \
                and len(out[-1].targets) == 1 and isinstance(out[-1].targets[0], ast.Name) and out[-1].targets[0].id == st.iter.id \
                and isinstance(out[-1].value, (ast.Tuple, ast.List)) \
                and not any(isinstance(x, ast.Name) and x.id == st.iter.id for later in body[k_ + 1:] for x in ast.walk(later)) \
                and not any(isinstance(x, ast.Name) and x.id == st.iter.id for b_ in st.body for x in ast.walk(b_)):
            trial = copy.copy(st)
            trial.iter = out[-1].value
            if _unroll_literal_loop(trial) is not None:
                out.pop()
                st = trial
        unrolled = _unroll_literal_loop(st)
        if unrolled is not None:
            out.extend(_restructure(unrolled, nested))
            continue
        loop = _effect_comp_to_loop(st) or _extend_comp_to_loop(st)
        if loop is not None:
            st = loop
        if isinstance(st, ast.Return) and isinstance(st.value, ast.IfExp):
            # `return a if c else b`  ->  `if c: return a` `return b`   (then handled like any two-way return)
            first = ast.copy_location(ast.If(test=st.value.test, body=[ast.copy_location(ast.Return(value=st.value.body), st)], orelse=[]), st)
            second = ast.copy_location(ast.Return(value=st.value.orelse), st)
            out.extend(_restructure([first, second], nested))
            continue
        if nested:
            lam = _local_def_to_lambda(st)
            if lam is not None:
                st = lam
        if not isinstance(st, (ast.FunctionDef, ast.AsyncFunctionDef, ast.ClassDef)):
            for name, b in list(_blocks(st)):
                nb = _restructure(b, nested)
                if name == "handler":
                    for h in st.handlers:
                        if h.body is b:
                            h.body = nb
                else:
                    setattr(st, name, nb)
        else:
            st.body = _restructure(st.body, isinstance(st, (ast.FunctionDef, ast.AsyncFunctionDef)))
        if isinstance(st, ast.If) and st.orelse and st.body and isinstance(st.body[-1], TERMINATORS):
            rest = st.orelse
            st.orelse = []
            out.append(st)
            out.extend(rest)                 # already restructured
            continue
        out.append(st)
    # a two-way choice of returned value in negative polarity:  `if not c: return A` `return B`  ->  `if c: return B` `return A`
    if len(out) >= 2 and isinstance(out[-1], ast.Return) and isinstance(out[-2], ast.If) and not out[-2].orelse \
            and len(out[-2].body) == 1 and isinstance(out[-2].body[0], ast.Return):
        flipped, t = _flip(out[-2].test)
        if flipped:
            out[-2].test = t
            out[-2].body[0], out[-1] = out[-1], out[-2].body[0]
    return out


# ------------------------------------------------------------------------------------------------ P4
def _simple_arg(e):
    while isinstance(e, (ast.Attribute, ast.Subscript)):
        if isinstance(e, ast.Subscript) and not isinstance(e.slice, (ast.Constant, ast.Name)):
            return False
        e = e.value
    return isinstance(e, (ast.Name, ast.Constant))


def _guard_form(fn):
    """Helper bodies of the shape  [plain statements]  [if c: return A]*  return B  (guards after the last plain statement)
    are an expression  A if c else (...)  preceded by the plain statements.  Returns (statements, return expression) or None."""
    body = [s for s in fn.body if not (isinstance(s, ast.Expr) and isinstance(s.value, ast.Constant) and isinstance(s.value.value, str))]
    if not body or not isinstance(body[-1], ast.Return) or body[-1].value is None:
        return None
    k = len(body) - 1
    guards = []
    while k - 1 >= 0 and isinstance(body[k - 1], ast.If) and not body[k - 1].orelse and len(body[k - 1].body) == 1 \
            and isinstance(body[k - 1].body[0], ast.Return) and body[k - 1].body[0].value is not None:
        guards.insert(0, body[k - 1])
        k -= 1
    plain = body[:k]
    if any(isinstance(n, ast.Return) for s_ in plain for n in ast.walk(s_)):
        return None
    expr = body[-1].value
    for g in reversed(guards):
        expr = ast.IfExp(test=g.test, body=g.body[0].value, orelse=expr)
    return plain, expr


def _inlinable(fn):
    if fn.args.vararg or fn.args.kwarg or fn.args.posonlyargs:
        return False
    for n in ast.walk(fn):
        if isinstance(n, (ast.Yield, ast.YieldFrom, ast.Await, ast.Global, ast.Nonlocal)) or \
                (isinstance(n, (ast.FunctionDef, ast.AsyncFunctionDef, ast.ClassDef)) and n is not fn):
            return False
    rets = [n for n in ast.walk(fn) if isinstance(n, ast.Return)]
    body = [s for s in fn.body if not (isinstance(s, ast.Expr) and isinstance(s.value, ast.Constant) and isinstance(s.value.value, str))]
    if not body:
        return False
    if not rets:
        return True
    if len(rets) == 1 and rets[0] is body[-1]:
        return True
    if _guard_form(fn) is not None:
        return True
    return _single_exit(body, lambda e, st: [ast.Expr(value=e)]) is not None


def _has_return(node):
    return any(isinstance(n, ast.Return) for n in ast.walk(node))


def _single_exit(stmts, assign):
    """Statements with every `return e` replaced by assign(e) and the code after a returning `if` moved into the other arm.
    Only tail returns are supported (none inside loops / try / with).  Returns (statements, always_exits) or None."""
    out = []
    for i, st in enumerate(stmts):
        if isinstance(st, ast.Return):
            out.extend(assign(st.value if st.value is not None else ast.Constant(value=None), st))
            return out, True
        if isinstance(st, ast.If) and _has_return(st):
            b = _single_exit(st.body, assign)
            o = _single_exit(st.orelse, assign)
            if b is None or o is None:
                return None
            (body, bt), (orelse, ot) = b, o
            rest = _single_exit(stmts[i + 1:], assign)
            if rest is None:
                return None
            rest_s, rt = rest
            if bt and ot:
                new = ast.copy_location(ast.If(test=st.test, body=body, orelse=orelse), st)
                return out + [new], True
            if bt:
                # a guard that only leaves (`if c: return`) has nothing to do on its own arm
                noop = all(isinstance(x, ast.Expr) and isinstance(x.value, ast.Constant) for x in body)
                if noop and (orelse + rest_s):
                    body = [ast.copy_location(ast.Pass(), st)]
                new = ast.copy_location(ast.If(test=st.test, body=body, orelse=orelse + rest_s), st)
                return out + [new], rt
            if ot:
                new = ast.copy_location(ast.If(test=st.test, body=body + rest_s, orelse=orelse), st)
                return out + [new], rt
            return None
        if isinstance(st, (ast.While, ast.For)) and not st.orelse and _has_return(st):
            # a search loop:  loop { ... if c: return e ... }  return <constant>   ->   x = <constant>; loop { ... x = e; break ... }
            rest = stmts[i + 1:]
            final = None
            if not rest:
                final = ast.Constant(value=None)
            elif len(rest) == 1 and isinstance(rest[0], ast.Return) and (rest[0].value is None or isinstance(rest[0].value, ast.Constant)):
                final = rest[0].value if rest[0].value is not None else ast.Constant(value=None)
            if final is None:
                return None

            def in_loop(body):
                res = []
                for s_ in body:
                    if isinstance(s_, ast.Return):
                        res.extend(assign(s_.value if s_.value is not None else ast.Constant(value=None), s_))
                        res.append(ast.copy_location(ast.Break(), s_))
                        return res
                    if isinstance(s_, ast.If) and _has_return(s_):
                        b_, o_ = in_loop(s_.body), in_loop(s_.orelse)
                        if b_ is None or o_ is None:
                            return None
                        res.append(ast.copy_location(ast.If(test=s_.test, body=b_ or [ast.Pass()], orelse=o_), s_))
                    elif _has_return(s_):
                        return None
                    else:
                        res.append(s_)
                return res
            lb = in_loop(st.body)
            if lb is None:
                return None
            loop = copy.copy(st)
            loop.body = lb
            return out + list(assign(final, st)) + [loop], True
        if _has_return(st):
            return None          # a return inside try / with / a nested loop: not a tail return
        out.append(st)
    return out, False


def _thread_tests(seq):
    """[... , S, `if t: X else: Y`] where every path through S ends by assigning the temporary t: the test is pushed back into
    S - an arm that set t to a constant continues with X (or Y) directly, an arm that set t = E continues with `if E: X else: Y`.
    (Jump threading; X and Y are duplicated, which is exact.)"""
    if len(seq) < 2 or not isinstance(seq[-1], ast.If) or not isinstance(seq[-1].test, ast.Name):
        return seq
    t, tail = seq[-1].test.id, seq[-1]

    def cont(value, at):
        if isinstance(value, ast.Constant):
            return copy.deepcopy(tail.body if value.value else tail.orelse)
        return [ast.copy_location(ast.If(test=value, body=copy.deepcopy(tail.body), orelse=copy.deepcopy(tail.orelse)), at)]

    def push(stmts):
        """stmts with a trailing `t = V` replaced by the continuation; None if some path does not end that way."""
        if not stmts:
            return None
        last = stmts[-1]
        if isinstance(last, ast.Assign) and len(last.targets) == 1 and isinstance(last.targets[0], ast.Name) and last.targets[0].id == t:
            return stmts[:-1] + cont(last.value, last)
        if isinstance(last, ast.If):
            b, o = push(last.body), push(last.orelse)
            if b is None or o is None:
                return None
            return stmts[:-1] + [ast.copy_location(ast.If(test=last.test, body=b or [ast.Pass()], orelse=o), last)]
        return None
    uses = sum(1 for s_ in seq for n in ast.walk(s_) if isinstance(n, ast.Name) and n.id == t and isinstance(n.ctx, ast.Load))
    if uses != 1:
        return seq
    # the statements that compute t: the maximal suffix before the test whose last statement assigns t on every path
    new = push(seq[:-1])
    if new is None:
        return seq
    if any(isinstance(n, ast.Name) and n.id == t for s_ in new for n in ast.walk(s_)):
        return seq
    return new


class _Inliner:
    def __init__(self, helpers, counter):
        self.helpers = helpers          # key (kind, name) -> (FunctionDef, is_method, is_static)
        self.counter = counter
        self.n = 0

    bases = {}       # class name -> [base class names] for the whole program (set by canonicalise_program)

    def mro(self, clsname):
        out, todo = [], [clsname]
        while todo:
            c = todo.pop(0)
            if c in out or c is None:
                continue
            out.append(c)
            todo.extend(b.split(".")[-1] for b in self.bases.get(c, []))
        return out

    def descendants(self, clsname):
        out, todo = [], [clsname]
        while todo:
            c = todo.pop()
            for k, bs in self.bases.items():
                if c in [b.split(".")[-1] for b in bs] and k not in out and k != clsname:
                    out.append(k)
                    todo.append(k)
        return out

    def match(self, call, selfname, clsname):
        h = self._match(call, selfname, clsname)
        if h is not None and getattr(h[0], "_is_classmethod", False):
            f = call.func
            if not (getattr(self, "caller_is_classmethod", False) and isinstance(f, ast.Attribute) and isinstance(f.value, ast.Name)
                    and f.value.id == selfname):
                return None
        return h

    def _match(self, call, selfname, clsname):
        f = call.func
        # a method called on a local that holds a fresh instance of the class (`chain = cls(...)` in a classmethod)
        if isinstance(f, ast.Attribute) and isinstance(f.value, ast.Name) and f.value.id in getattr(self, "instances", ()) \
                and clsname is not None:
            for k in self.mro(clsname):
                if ("m", k, f.attr) in self.helpers and not self.helpers[("m", k, f.attr)][2]:
                    self.receiver = f.value.id
                    return self.helpers[("m", k, f.attr)]
        self.receiver = None
        if isinstance(f, ast.Attribute) and isinstance(f.value, ast.Name) and f.value.id == selfname and clsname is not None:
            # Python's own dispatch order: the class itself first, then its bases (possibly defined in another file).  A helper that
            # a subclass of this class overrides is not inlined at all: which body runs depends on the object, not on this text.
            names = [f.attr] + ([f"_{clsname}{f.attr}"] if f.attr.startswith("__") and not f.attr.endswith("__") else [])
            for sub in self.descendants(clsname):
                if any(("m", sub, nm) in self.helpers for nm in names[:1]):
                    return None
            for k in self.mro(clsname):
                for nm in names:
                    if ("m", k, nm) in self.helpers:
                        return self.helpers[("m", k, nm)]
        if isinstance(f, ast.Attribute) and isinstance(f.value, ast.Name) and f.value.id in (selfname, clsname):
            for cand in (f.attr, f"_{clsname}{f.attr}" if f.attr.startswith("__") else None):
                if cand and ("m", clsname, cand) in self.helpers:
                    return self.helpers[("m", clsname, cand)]
            if ("m", clsname, f.attr) in self.helpers:
                return self.helpers[("m", clsname, f.attr)]
        if isinstance(f, ast.Name) and ("f", None, f.id) in self.helpers:
            return self.helpers[("f", None, f.id)]
        return None

    def expand(self, call, helper, selfname):
        fn, is_method, is_static = helper
        k = next(self.counter)
        params = [a.arg for a in fn.args.args]
        defaults = dict(zip(params[len(params) - len(fn.args.defaults):], fn.args.defaults)) if fn.args.defaults else {}
        for a, d in zip(fn.args.kwonlyargs, fn.args.kw_defaults):
            params.append(a.arg)
            if d is not None:
                defaults[a.arg] = d
        sub = {}
        pro = []
        if is_method and not is_static and params:
            sub[params[0]] = ast.Name(id=getattr(self, "receiver", None) or selfname, ctx=ast.Load())
            params = params[1:]
        given = {}
        if len(call.args) > len(params) or any(isinstance(a, ast.Starred) for a in call.args) or any(kw.arg is None for kw in call.keywords):
            return None
        for p, a in zip(params, call.args):
            given[p] = a
        for kw in call.keywords:
            if kw.arg not in params or kw.arg in given:
                return None
            given[kw.arg] = kw.value
        stored = {n.id for n in ast.walk(fn) if isinstance(n, ast.Name) and isinstance(n.ctx, (ast.Store, ast.Del))}
        for p in params:
            if p in given:
                a = given[p]
            elif p in defaults:
                a = defaults[p]
            else:
                return None
            if _simple_arg(a) and p not in stored:
                sub[p] = a
            else:
                nm = f"{p}__h{k}"
                pro.append(ast.Assign(targets=[ast.Name(id=nm, ctx=ast.Store())], value=a, lineno=call.lineno, col_offset=0))
                sub[p] = ast.Name(id=nm, ctx=ast.Load())
        local = stored - set(sub)

        class Sub(ast.NodeTransformer):
            def visit_Name(self, x):
                if x.id in sub and isinstance(x.ctx, ast.Load):
                    return copy.deepcopy(sub[x.id])
                if x.id in sub and not isinstance(sub[x.id], ast.Name):
                    return x
                if x.id in sub:
                    return ast.Name(id=sub[x.id].id, ctx=x.ctx)
                if x.id in local:
                    return ast.Name(id=f"{x.id}__h{k}", ctx=x.ctx)
                return x
        rets_ = [n_ for n_ in ast.walk(fn) if isinstance(n_, ast.Return)]
        top_ = [s_ for s_ in fn.body if not (isinstance(s_, ast.Expr) and isinstance(s_.value, ast.Constant) and isinstance(s_.value.value, str))]
        simple = not rets_ or (len(rets_) == 1 and top_ and rets_[0] is top_[-1])
        gf = _guard_form(fn) if not simple else None
        if not simple and gf is None:
            # general tail-return shape: handed back as statements to be spliced with an assignment per return
            body = [Sub().visit(copy.deepcopy(s_)) for s_ in fn.body
                    if not (isinstance(s_, ast.Expr) and isinstance(s_.value, ast.Constant) and isinstance(s_.value.value, str))]
            for s_ in pro + body:
                for x in ast.walk(s_):
                    if hasattr(x, "lineno"):
                        x.lineno = call.lineno
            self.n += 1
            return pro, ("single-exit", body)
        if gf is not None:
            body = [Sub().visit(copy.deepcopy(s)) for s in gf[0]]
            ret = Sub().visit(copy.deepcopy(gf[1]))
        else:
            body = [copy.deepcopy(s) for s in fn.body
                    if not (isinstance(s, ast.Expr) and isinstance(s.value, ast.Constant) and isinstance(s.value.value, str))]
            body = [Sub().visit(s) for s in body]
            ret = ast.Constant(value=None)
            if body and isinstance(body[-1], ast.Return):
                r = body.pop()
                ret = r.value if r.value is not None else ret
        for s in pro + body:
            for x in ast.walk(s):
                if hasattr(x, "lineno"):
                    x.lineno = call.lineno
        self.n += 1
        return pro + body, ret

    def process(self, body, selfname, clsname, top=True):
        if top:
            # locals bound to a fresh instance of the class being defined
            self.instances = set()
            for n in ast.walk(ast.Module(body=body, type_ignores=[])):
                if isinstance(n, ast.Assign) and len(n.targets) == 1 and isinstance(n.targets[0], ast.Name) \
                        and isinstance(n.value, ast.Call) and isinstance(n.value.func, ast.Name) \
                        and n.value.func.id in ("cls", clsname):
                    self.instances.add(n.targets[0].id)
        out = []
        for st in body:
            if isinstance(st, (ast.FunctionDef, ast.AsyncFunctionDef, ast.ClassDef)):
                out.append(st)
                continue
            for name, b in list(_blocks(st)):
                nb = self.process(b, selfname, clsname, False)
                if name == "handler":
                    for h in st.handlers:
                        if h.body is b:
                            h.body = nb
                else:
                    setattr(st, name, nb)
            # the once-evaluated expression roots of the statement
            from .model import _once_positions, _find_once   # late import (model imports this module)
            roots = _once_positions(st)
            done = False
            for root in roots:
                for call in [n for n in ast.walk(root) if isinstance(n, ast.Call)]:
                    h = self.match(call, selfname, clsname)
                    if h is None:
                        continue
                    if not self._once(root, call):
                        continue
                    res = self.expand(call, h, selfname)
                    if res is None:
                        continue
                    stmts, ret = res
                    if isinstance(ret, tuple) and ret[0] == "single-exit":
                        # only where the call is the whole value of the statement
                        if isinstance(st, ast.Assign) and st.value is call:
                            mk = lambda e, at_, st=st: [ast.copy_location(ast.Assign(targets=copy.deepcopy(st.targets), value=e), st)]
                        elif isinstance(st, ast.Return) and st.value is call:
                            mk = lambda e, at_, st=st: [ast.copy_location(ast.Return(value=e), st)]
                        elif isinstance(st, ast.Expr) and st.value is call:
                            mk = lambda e, at_, st=st: [ast.copy_location(ast.Expr(value=e), st)]
                        elif isinstance(st, (ast.If, ast.While)) and st.test is call and isinstance(st, ast.If):
                            # `if helper(..): X else: Y` - the helper's verdict goes through a temporary which the threading
                            # pass below (_thread_tests) pushes back into the arms that computed it
                            tname = f"ret__h{next(self.counter)}"
                            mk = lambda e, at_, st=st, tname=tname: [ast.copy_location(
                                ast.Assign(targets=[ast.Name(id=tname, ctx=ast.Store())], value=e), st)]
                            conv = _single_exit(ret[1], mk)
                            if conv is None:
                                self.n -= 1
                                continue
                            st.test = ast.copy_location(ast.Name(id=tname, ctx=ast.Load()), st)
                            seq = self.process(stmts + conv[0], selfname, clsname, False) + [st]
                            out.extend(_thread_tests(seq))
                            done = True
                            break
                        else:
                            self.n -= 1
                            continue
                        conv = _single_exit(ret[1], mk)
                        if conv is None:
                            self.n -= 1
                            continue
                        out.extend(self.process(stmts + conv[0], selfname, clsname, False))
                        done = True
                        break
                    if isinstance(st, ast.Expr) and st.value is call:
                        out.extend(self.process(stmts, selfname, clsname, False))
                        if not (isinstance(ret, ast.Constant) and ret.value is None):
                            out.append(ast.copy_location(ast.Expr(value=ret), st))
                        done = True
                    else:
                        self._replace(st, call, ret)
                        out.extend(self.process(stmts, selfname, clsname, False))
                    break
                if done:
                    break
            if not done:
                out.append(st)
        return out

    @staticmethod
    def _once(root, call):
        """call sits at a position of root evaluated exactly once (not under lambda / comprehension element / short-circuit)."""
        ok = []

        def visit(n, good):
            if n is call:
                ok.append(good)
                return
            if isinstance(n, ast.Lambda):
                for c in ast.iter_child_nodes(n):
                    visit(c, False)
                return
            if isinstance(n, (ast.ListComp, ast.SetComp, ast.GeneratorExp, ast.DictComp)):
                for i, g in enumerate(n.generators):
                    visit(g.iter, good and i == 0)
                    for c in g.ifs:
                        visit(c, False)
                for f in ("elt", "key", "value"):
                    if hasattr(n, f):
                        visit(getattr(n, f), False)
                return
            if isinstance(n, ast.IfExp):
                visit(n.test, good)
                visit(n.body, False)
                visit(n.orelse, False)
                return
            if isinstance(n, ast.BoolOp):
                for i, v in enumerate(n.values):
                    visit(v, good and i == 0)
                return
            for c in ast.iter_child_nodes(n):
                visit(c, good)
        visit(root, True)
        return ok == [True]

    @staticmethod
    def _replace(st, call, ret):
        class Rp(ast.NodeTransformer):
            def visit_Call(self, n):
                if n is call:
                    return ret
                return self.generic_visit(n)
        for f, v in list(ast.iter_fields(st)):
            if isinstance(v, ast.expr):
                setattr(st, f, Rp().visit(v))
            elif isinstance(v, list) and v and isinstance(v[0], ast.expr):
                setattr(st, f, [Rp().visit(x) for x in v])
            elif isinstance(v, list) and v and isinstance(v[0], ast.withitem):
                for wi in v:
                    wi.context_expr = Rp().visit(wi.context_expr)


def inline_new_helpers(tree, known):
    """known: set of qualified function names of the reference for this file.  Returns the number of call sites inlined."""
    if known is None:
        return 0
    counter = itertools.count()
    total = 0
    for _ in range(3):
        helpers = {}
        for st in tree.body:
            if isinstance(st, ast.FunctionDef) and st.name not in known and _inlinable(st):
                helpers[("f", None, st.name)] = (st, False, False)
            elif isinstance(st, ast.ClassDef):
                for m in st.body:
                    if isinstance(m, ast.FunctionDef) and f"{st.name}.{m.name}" not in known and _inlinable(m) \
                            and not any(ast.unparse(d) in ("property", "classmethod") or ast.unparse(d).endswith(".setter") for d in m.decorator_list):
                        static = any(ast.unparse(d) == "staticmethod" for d in m.decorator_list)
                        helpers[("m", st.name, m.name)] = (m, True, static)
        if not helpers:
            break
        inl = _Inliner(helpers, counter)
        for st in tree.body:
            if isinstance(st, ast.FunctionDef):
                st.body = inl.process(st.body, None, None)
            elif isinstance(st, ast.ClassDef):
                for m in st.body:
                    if isinstance(m, ast.FunctionDef) and m.args.args:
                        static = any(ast.unparse(d) == "staticmethod" for d in m.decorator_list)
                        m.body = inl.process(m.body, None if static else m.args.args[0].arg, st.name)
        total += inl.n
        # helpers that are no longer referenced disappear
        used = {n.attr for n in ast.walk(tree) if isinstance(n, ast.Attribute)} | {n.id for n in ast.walk(tree) if isinstance(n, ast.Name)}
        for st in list(tree.body):
            if isinstance(st, ast.FunctionDef) and ("f", None, st.name) in helpers and st.name not in used:
                tree.body.remove(st)
            elif isinstance(st, ast.ClassDef):
                for m in list(st.body):
                    if isinstance(m, ast.FunctionDef) and ("m", st.name, m.name) in helpers:
                        mangled = m.name
                        if m.name not in used and mangled not in used:
                            st.body.remove(m)
        if inl.n == 0:
            break
    return total


def inline_new_helpers_program(trees, known_by_rel):
    """Program-wide P4: like inline_new_helpers, but a new method is also inlined where a subclass (in any file) calls it."""
    counter = itertools.count()
    total = 0
    _Inliner.bases = {}
    for tree in trees.values():
        for st in tree.body:
            if isinstance(st, ast.ClassDef):
                _Inliner.bases[st.name] = [ast.unparse(b) for b in st.bases]
    for _ in range(3):
        helpers = {}
        owner = {}
        for rel, tree in trees.items():
            known = known_by_rel.get(rel)
            if known is None:
                continue
            for st in tree.body:
                if isinstance(st, ast.FunctionDef) and st.name not in known and _inlinable(st):
                    helpers[("f", rel, st.name)] = (st, False, False)
                elif isinstance(st, ast.ClassDef):
                    # a new method that overrides one of a base class is not a helper: Python dispatches to it wherever the inherited
                    # name is called (from outside the package too) - it stays in the class for the rules to read
                    all_known = set().union(*[k_ for k_ in known_by_rel.values() if k_])
                    base_names = _Inliner({}, None).mro(st.name)[1:]
                    for m in st.body:
                        if isinstance(m, ast.FunctionDef) and any(f"{b_}.{m.name}" in all_known for b_ in base_names):
                            continue
                        if isinstance(m, ast.FunctionDef) and f"{st.name}.{m.name}" not in known and _inlinable(m) \
                                and not any(ast.unparse(d) == "property" or ast.unparse(d).endswith(".setter") for d in m.decorator_list):
                            static = any(ast.unparse(d) == "staticmethod" for d in m.decorator_list)
                            # a classmethod helper is inlined only into classmethods that call it on their own `cls` (same binding)
                            m._is_classmethod = any(ast.unparse(d) == "classmethod" for d in m.decorator_list)
                            helpers[("m", st.name, m.name)] = (m, True, static)
                            owner[("m", st.name, m.name)] = (tree, st)
        if not helpers:
            break
        n_round = 0
        for rel, tree in trees.items():
            # module-level helpers are visible in their own file only
            local = {("f", None, k[2]): v for k, v in helpers.items() if k[0] == "f" and k[1] == rel}
            local.update({k: v for k, v in helpers.items() if k[0] == "m"})
            inl = _Inliner(local, counter)
            for st in tree.body:
                if isinstance(st, ast.FunctionDef):
                    n0 = inl.n
                    st.body = inl.process(st.body, None, None)
                    if inl.n != n0:
                        st._inlined = True
                elif isinstance(st, ast.ClassDef):
                    for m in st.body:
                        if isinstance(m, ast.FunctionDef) and m.args.args:
                            static = any(ast.unparse(d) == "staticmethod" for d in m.decorator_list)
                            n0 = inl.n
                            inl.caller_is_classmethod = any(ast.unparse(d) == "classmethod" for d in m.decorator_list)
                            m.body = inl.process(m.body, None if static else m.args.args[0].arg, st.name)
                            inl.caller_is_classmethod = False
                            if inl.n != n0:
                                m._inlined = True
            n_round += inl.n
        total += n_round
        used = set()
        for tree in trees.values():
            used |= {n.attr for n in ast.walk(tree) if isinstance(n, ast.Attribute)} | {n.id for n in ast.walk(tree) if isinstance(n, ast.Name)}
        for rel, tree in trees.items():
            for st in list(tree.body):
                if isinstance(st, ast.FunctionDef) and ("f", rel, st.name) in helpers and st.name not in used:
                    tree.body.remove(st)
                elif isinstance(st, ast.ClassDef):
                    for m in list(st.body):
                        # (a new PUBLIC method is part of the class's interface whether or not the package calls it: it stays, for the
                        # rules to read - only private helpers that are no longer referenced disappear)
                        if isinstance(m, ast.FunctionDef) and ("m", st.name, m.name) in helpers and m.name not in used \
                                and f"_{st.name}{m.name}" not in used and m.name.startswith("_"):
                            st.body.remove(m)
        if n_round == 0:
            break
    return total


# ------------------------------------------------------------------------------------------------ P0 module constants
_PURE_CONST_FUNCS = {"log", "sqrt", "exp", "log2", "log10", "float", "int", "abs", "pow", "sin", "cos", "tan", "arctan", "log1p", "expm1"}
_PURE_CONST_NAMES = {"pi", "e", "inf", "nan", "euler_gamma"}


def _const_expr(e, consts):
    """An expression whose value is an immutable object fixed at import: literals, tuples of such, arithmetic on them, the
    mathematical constants, elementary functions of them, and earlier constants."""
    if isinstance(e, ast.Constant):
        return not isinstance(e.value, bytes)
    if isinstance(e, ast.Name):
        return e.id in _PURE_CONST_NAMES or e.id in consts
    if isinstance(e, ast.Attribute):
        return isinstance(e.value, ast.Name) and e.value.id in ("np", "numpy", "math") and e.attr in _PURE_CONST_NAMES
    if isinstance(e, ast.UnaryOp):
        return isinstance(e.op, (ast.USub, ast.UAdd)) and _const_expr(e.operand, consts)
    if isinstance(e, ast.BinOp):
        return _const_expr(e.left, consts) and _const_expr(e.right, consts)
    if isinstance(e, ast.Tuple):
        return all(_const_expr(x, consts) for x in e.elts)
    if isinstance(e, ast.Call) and not e.keywords:
        f = e.func
        nm = f.id if isinstance(f, ast.Name) else f.attr if isinstance(f, ast.Attribute) and isinstance(f.value, ast.Name) \
            and f.value.id in ("np", "numpy", "math") else None
        return nm in _PURE_CONST_FUNCS and all(_const_expr(a, consts) for a in e.args)
    return False


def inline_module_constants(tree, known_names=None):
    """P0: a private module-level name bound once to an immutable constant expression (`_STEP = 1e-5`, `_LOG_2PI = log(2 * pi)`,
    `_MODES = ("a", "b")`) is replaced by that expression wherever the module reads it (not where a function re-binds the name
    locally).  Reading a constant through a name or writing it in place is the same program."""
    consts = {}
    stores = {}
    for n in ast.walk(tree):
        if isinstance(n, ast.Name) and isinstance(n.ctx, (ast.Store, ast.Del)):
            stores[n.id] = stores.get(n.id, 0) + 1
        elif isinstance(n, (ast.Global, ast.Nonlocal)):
            for nm in n.names:
                stores[nm] = stores.get(nm, 0) + 2
    for st in tree.body:
        if isinstance(st, ast.Assign) and len(st.targets) == 1 and isinstance(st.targets[0], ast.Name):
            nm = st.targets[0].id
            if nm.startswith("_") and not nm.startswith("__") and stores.get(nm, 0) == 1 and _const_expr(st.value, consts):
                consts[nm] = st.value
    if not consts:
        return 0
    # expand constants defined through earlier constants
    for nm in list(consts):
        consts[nm] = _Subst({k: v for k, v in consts.items() if k != nm}).visit(copy.deepcopy(consts[nm]))
    count = [0]

    class V(ast.NodeTransformer):
        def visit_FunctionDef(self, fn):
            params = {a.arg for a in fn.args.args + fn.args.kwonlyargs + fn.args.posonlyargs}
            if fn.args.vararg:
                params.add(fn.args.vararg.arg)
            if fn.args.kwarg:
                params.add(fn.args.kwarg.arg)
            self.shadow.append(params)
            self.generic_visit(fn)
            self.shadow.pop()
            return fn

        def visit_Lambda(self, fn):
            self.shadow.append({a.arg for a in fn.args.args})
            self.generic_visit(fn)
            self.shadow.pop()
            return fn

        def visit_Name(self, n):
            if isinstance(n.ctx, ast.Load) and n.id in consts and not any(n.id in sh for sh in self.shadow):
                count[0] += 1
                return ast.copy_location(copy.deepcopy(consts[n.id]), n)
            return n
    v = V()
    v.shadow = []
    for st in tree.body:
        if isinstance(st, ast.Assign) and len(st.targets) == 1 and isinstance(st.targets[0], ast.Name) and st.targets[0].id in consts:
            continue
        v.visit(st)
    if count[0]:
        tree.body = [st for st in tree.body if not (isinstance(st, ast.Assign) and len(st.targets) == 1
                                                   and isinstance(st.targets[0], ast.Name) and st.targets[0].id in consts)]
        ast.fix_missing_locations(tree)
    return count[0]


# ------------------------------------------------------------------------------------------------ P0b numpy spellings
_METHOD_FORM = {"sum", "any", "all", "cumsum", "prod", "squeeze", "ravel", "argsort"}


def numpy_spellings(tree):
    """P0b: `import numpy as np; np.f(x)` is read as `from numpy import f; f(x)` (when no other binding of `f` exists in the
    module), and the function form of a reduction - `np.sum(x, axis=1)`, `sum(x)` with numpy's sum imported, `np.any(c)` - as
    the method form `x.sum(axis=1)`, `c.any()`; `transpose(x)` as `x.T`.  (For ndarrays these are the same operations; the
    repository itself only uses the method forms, so the rules are written against those.)"""
    aliases = set()
    from_numpy = {}         # local name -> numpy function name
    for st in tree.body:
        if isinstance(st, ast.Import):
            for a in st.names:
                if a.name == "numpy":
                    aliases.add(a.asname or "numpy")
        elif isinstance(st, ast.ImportFrom) and st.module == "numpy" and st.level == 0:
            for a in st.names:
                from_numpy[a.asname or a.name] = a.name
    bound = set()
    for n in ast.walk(tree):
        if isinstance(n, ast.Name) and isinstance(n.ctx, (ast.Store, ast.Del)):
            bound.add(n.id)
        elif isinstance(n, ast.arg):
            bound.add(n.arg)
        elif isinstance(n, (ast.FunctionDef, ast.ClassDef)):
            bound.add(n.name)
        elif isinstance(n, (ast.Import, ast.ImportFrom)):
            for a in n.names:
                if not (isinstance(n, ast.ImportFrom) and n.module == "numpy"):
                    bound.add((a.asname or a.name).split(".")[0])
    BUILTIN_CLASH = {"sum", "any", "all", "max", "min", "abs", "round", "pow", "divmod", "bool", "int", "float", "complex", "object", "str"}
    added = set()
    count = [0]

    class V(ast.NodeTransformer):
        def visit_Call(self, n):
            self.generic_visit(n)
            f = n.func
            nm = None
            if isinstance(f, ast.Attribute) and isinstance(f.value, ast.Name) and f.value.id in aliases:
                nm = f.attr
            elif isinstance(f, ast.Name) and f.id in from_numpy and f.id not in bound:
                nm = from_numpy[f.id]
            if nm in _METHOD_FORM and n.args and not isinstance(n.args[0], ast.Starred):
                count[0] += 1
                recv = n.args[0]
                kws = list(n.keywords)
                rest = list(n.args[1:])
                if rest and nm in ("sum", "any", "all", "cumsum", "prod") and not any(k.arg == "axis" for k in kws):
                    kws = [ast.keyword(arg="axis", value=rest[0])] + kws
                    rest = rest[1:]
                return ast.copy_location(ast.Call(func=ast.Attribute(value=recv, attr=nm, ctx=ast.Load()), args=rest, keywords=kws), n)
            if nm == "transpose" and len(n.args) == 1 and not n.keywords:
                count[0] += 1
                return ast.copy_location(ast.Attribute(value=n.args[0], attr="T", ctx=ast.Load()), n)
            if nm == "square" and len(n.args) == 1 and not n.keywords:
                # square(x) is x * x element-wise, the value of x ** 2 (the repository writes the power)
                count[0] += 1
                return ast.copy_location(ast.BinOp(left=n.args[0], op=ast.Pow(), right=ast.Constant(value=2)), n)
            if nm == "full" and len(n.args) == 2 and not n.keywords:
                # full(n, v) holds v in every cell: zeros(n) + v (the repository's spelling); the name `zeros` is numpy's either way
                count[0] += 1
                if "zeros" not in from_numpy.values():
                    added.add("zeros")
                return ast.copy_location(ast.BinOp(left=ast.Call(func=ast.Name(id="zeros", ctx=ast.Load()), args=[n.args[0]], keywords=[]),
                                                   op=ast.Add(), right=n.args[1]), n)
            if nm in ("matmul", "dot") and len(n.args) == 2 and not n.keywords and nm == "matmul":
                count[0] += 1
                return ast.copy_location(ast.BinOp(left=n.args[0], op=ast.MatMult(), right=n.args[1]), n)
            return n

        def visit_Name(self, n):
            # numpy.newaxis is None
            if isinstance(n.ctx, ast.Load) and from_numpy.get(n.id) == "newaxis" and n.id not in bound:
                count[0] += 1
                return ast.copy_location(ast.Constant(value=None), n)
            return n

        def visit_Attribute(self, n):
            self.generic_visit(n)
            if isinstance(n.value, ast.Name) and n.value.id in aliases and n.attr == "newaxis":
                count[0] += 1
                return ast.copy_location(ast.Constant(value=None), n)
            if isinstance(n.value, ast.Name) and n.value.id in aliases and isinstance(n.ctx, ast.Load) \
                    and n.attr not in bound and n.attr not in BUILTIN_CLASH and not n.attr.startswith("_") \
                    and n.attr not in ("random", "linalg", "fft", "ma", "testing", "polynomial"):
                if n.attr not in from_numpy:
                    added.add(n.attr)
                count[0] += 1
                return ast.copy_location(ast.Name(id=n.attr, ctx=ast.Load()), n)
            return n
    if not aliases and not (set(from_numpy.values()) & (_METHOD_FORM | {"transpose", "newaxis", "square", "matmul", "full"})):
        return 0
    V().visit(tree)
    if added:
        imp = ast.ImportFrom(module="numpy", names=[ast.alias(name=a, asname=None) for a in sorted(added)], level=0)
        k = 0
        while k < len(tree.body) and (isinstance(tree.body[k], (ast.Import, ast.ImportFrom)) or (
                isinstance(tree.body[k], ast.Expr) and isinstance(tree.body[k].value, ast.Constant))):
            k += 1
        imp.lineno = tree.body[k - 1].lineno if k else 1
        imp.col_offset = 0
        tree.body.insert(k, imp)
    if count[0]:
        ast.fix_missing_locations(tree)
    return count[0]


# ------------------------------------------------------------------------------------------------ P4d new read-only properties
def inline_new_properties(trees, known_by_rel):
    """A property the reference does not know, without a setter, whose body is `return <expression of self>`, is an abbreviation:
    `self.name` is replaced by the expression in the methods of the class (and of its subclasses in the program)."""
    n = 0
    bases = {}
    for tree in trees.values():
        for st in tree.body:
            if isinstance(st, ast.ClassDef):
                bases[st.name] = [ast.unparse(b).split(".")[-1] for b in st.bases]

    def derives(c, base):
        seen, todo = set(), [c]
        while todo:
            k = todo.pop()
            if k == base:
                return True
            if k in seen:
                continue
            seen.add(k)
            todo.extend(bases.get(k, []))
        return False
    props = []
    for rel, tree in trees.items():
        known = known_by_rel.get(rel)
        if known is None:
            continue
        for cls in [st for st in tree.body if isinstance(st, ast.ClassDef)]:
            setters = {ast.unparse(d).split(".")[0] for m in cls.body if isinstance(m, ast.FunctionDef) for d in m.decorator_list
                       if ast.unparse(d).endswith(".setter")}
            for m in list(cls.body):
                if isinstance(m, ast.FunctionDef) and [ast.unparse(d) for d in m.decorator_list] == ["property"] \
                        and f"{cls.name}.{m.name}" not in known and m.name not in setters and len(m.args.args) == 1:
                    body = [s_ for s_ in m.body if not (isinstance(s_, ast.Expr) and isinstance(s_.value, ast.Constant))]
                    if len(body) == 1 and isinstance(body[0], ast.Return) and body[0].value is not None \
                            and not any(isinstance(x, (ast.Call, ast.Yield, ast.Await, ast.Lambda)) and not (
                                isinstance(x, ast.Call) and ast.unparse(x.func) in ("len", "int", "float", "abs", "min", "max"))
                                for x in ast.walk(body[0].value)):
                        props.append((cls, m, m.args.args[0].arg, body[0].value))
    for cls, m, sn, expr in props:
        for tree in trees.values():
            for c2 in [st for st in tree.body if isinstance(st, ast.ClassDef) and derives(st.name, cls.name)]:
                for meth in [x for x in c2.body if isinstance(x, ast.FunctionDef) and x is not m and x.args.args]:
                    sn2 = meth.args.args[0].arg

                    class V(ast.NodeTransformer):
                        def visit_Attribute(self, node):
                            self.generic_visit(node)
                            if node.attr == m.name and isinstance(node.value, ast.Name) and node.value.id == sn2 and isinstance(node.ctx, ast.Load):
                                return ast.copy_location(_Subst({sn: ast.Name(id=sn2, ctx=ast.Load())}).visit(copy.deepcopy(expr)), node)
                            return node
                    before = ast.dump(meth)
                    V().visit(meth)
                    if ast.dump(meth) != before:
                        n += 1
        if m in cls.body:
            cls.body.remove(m)
    for tree in trees.values():
        ast.fix_missing_locations(tree)
    return n


# ------------------------------------------------------------------------------------------------ P4c iterator helpers
def _iterator_form(fn):
    """A helper that only produces a sequence:  `for T in IT: [if C:] yield E`,  `return [E for T in IT if C]`,
    `return (E for ...)`, `yield from (E for ...)`.  Returns (T, IT, E, [conditions]) or None."""
    if fn.args.vararg or fn.args.kwarg or fn.args.posonlyargs or fn.args.kwonlyargs or fn.args.defaults:
        return None
    body = [s_ for s_ in fn.body if not (isinstance(s_, ast.Expr) and isinstance(s_.value, ast.Constant) and isinstance(s_.value.value, str))]

    def plain_assign(s_):
        return isinstance(s_, ast.Assign) and len(s_.targets) == 1 and all(
            isinstance(x, ast.Name) for x in (s_.targets[0].elts if isinstance(s_.targets[0], ast.Tuple) else [s_.targets[0]]))
    # a generator may set up locals before its loop and name intermediates before each yield: those statements move to the caller
    # (before its loop / at the head of its loop body) - `for` callers only
    pre, inner_pre = [], []
    while len(body) > 1 and plain_assign(body[0]) and isinstance(body[-1], ast.For):
        pre.append(body.pop(0))
    fn._iter_pre, fn._iter_inner = [], []
    if len(body) != 1:
        return None
    st = body[0]
    if isinstance(st, ast.For) and not st.orelse and len(st.body) >= 1:
        b_ = list(st.body)
        while len(b_) > 1 and plain_assign(b_[0]):
            inner_pre.append(b_.pop(0))
        if len(b_) != 1 or any(isinstance(n, (ast.Yield, ast.YieldFrom)) for s_ in pre + inner_pre for n in ast.walk(s_)):
            return None
        fn._iter_pre, fn._iter_inner = pre, inner_pre
        inner, conds = b_[0], []
        while isinstance(inner, ast.If) and not inner.orelse and len(inner.body) == 1:
            conds.append(inner.test)
            inner = inner.body[0]
        if isinstance(inner, ast.Expr) and isinstance(inner.value, ast.Yield) and inner.value.value is not None:
            return st.target, st.iter, inner.value.value, conds
        return None
    if pre:
        return None
    comp = None
    if isinstance(st, ast.Return) and isinstance(st.value, (ast.ListComp, ast.GeneratorExp)):
        comp = st.value
    elif isinstance(st, ast.Expr) and isinstance(st.value, ast.YieldFrom) and isinstance(st.value.value, (ast.ListComp, ast.GeneratorExp)):
        comp = st.value.value
    if comp is not None and len(comp.generators) == 1 and not comp.generators[0].is_async:
        g = comp.generators[0]
        return g.target, g.iter, comp.elt, list(g.ifs)
    return None


class _Subst(ast.NodeTransformer):
    def __init__(self, mapping):
        self.mapping = mapping

    def visit_Name(self, node):
        if node.id in self.mapping and isinstance(node.ctx, ast.Load):
            return copy.deepcopy(self.mapping[node.id])
        return node


def _target_names(t):
    return [n.id for n in ast.walk(t) if isinstance(n, ast.Name)]


def inline_iterator_helpers_program(trees, known_by_rel):
    """P4c: a new helper that only pairs / filters / maps a sequence for its callers' loops is written back into the loops:
    `for X in self.h(a)` becomes `for T in IT` with X replaced by the element expression (comprehensions) or bound to it in
    the first statement of the body (for statements)."""
    helpers = {}
    for rel, tree in trees.items():
        known = known_by_rel.get(rel)
        if known is None:
            continue
        for st in tree.body:
            if isinstance(st, ast.FunctionDef) and st.name not in known:
                f = _iterator_form(st)
                if f is not None:
                    helpers[("f", rel, st.name)] = (st, f, None)
            elif isinstance(st, ast.ClassDef):
                for m in st.body:
                    if isinstance(m, ast.FunctionDef) and f"{st.name}.{m.name}" not in known and not m.decorator_list and m.args.args:
                        f = _iterator_form(m)
                        if f is not None:
                            helpers[("m", st.name, m.name)] = (m, f, m.args.args[0].arg)
    if not helpers:
        return 0
    bases = {}
    for tree in trees.values():
        for st in tree.body:
            if isinstance(st, ast.ClassDef):
                bases[st.name] = [ast.unparse(b).split(".")[-1] for b in st.bases]

    def mro(c):
        out, todo = [], [c]
        while todo:
            k = todo.pop(0)
            if k in out or k is None:
                continue
            out.append(k)
            todo.extend(bases.get(k, []))
        return out
    count = [0]

    def resolve(call, rel, selfname, clsname):
        if not isinstance(call, ast.Call) or call.keywords:
            return None
        f = call.func
        if isinstance(f, ast.Name) and ("f", rel, f.id) in helpers:
            return helpers[("f", rel, f.id)]
        if isinstance(f, ast.Attribute) and isinstance(f.value, ast.Name) and selfname and f.value.id == selfname and clsname:
            for k in mro(clsname):
                if ("m", k, f.attr) in helpers:
                    return helpers[("m", k, f.attr)]
        return None

    extras = {}

    def instantiate(call, helper, selfname, avoid):
        fn, (T, IT, E, conds), hself = helper
        params = [a.arg for a in fn.args.args][(1 if hself else 0):]
        if len(params) != len(call.args) or not all(_simple_arg(a) for a in call.args):
            return None
        mapping = {p_: a for p_, a in zip(params, call.args)}
        if hself and selfname:
            mapping[hself] = ast.Name(id=selfname, ctx=ast.Load())
        # loop variables of the helper that clash with names of the caller get fresh names
        ren = {}
        moved = list(getattr(fn, "_iter_pre", [])) + list(getattr(fn, "_iter_inner", []))
        for nm in _target_names(T) + [x for s_ in moved for x in _target_names(s_.targets[0])]:
            if nm in ren:
                continue
            if nm in avoid or nm in mapping:
                k = 0
                while f"{nm}_{k}" in avoid:
                    k += 1
                ren[nm] = f"{nm}_{k}"
        T2 = copy.deepcopy(T)
        for n in ast.walk(T2):
            if isinstance(n, ast.Name) and n.id in ren:
                n.id = ren[n.id]
        mapping.update({a: ast.Name(id=b, ctx=ast.Load()) for a, b in ren.items()})
        sub = lambda e: _Subst(mapping).visit(copy.deepcopy(e))

        def sub_stmt(s_):
            s2 = sub(s_)
            for n in ast.walk(s2.targets[0]):
                if isinstance(n, ast.Name) and n.id in ren:
                    n.id = ren[n.id]
            return s2
        extras[id(call)] = ([sub_stmt(s_) for s_ in getattr(fn, "_iter_pre", [])], [sub_stmt(s_) for s_ in getattr(fn, "_iter_inner", [])])
        return T2, sub(IT), sub(E), [sub(c) for c in conds]

    def names_in(fn):
        return {n.id for n in ast.walk(fn) if isinstance(n, ast.Name)}

    class V(ast.NodeTransformer):
        def __init__(self, rel, selfname, clsname, fn):
            self.rel, self.selfname, self.clsname, self.fn = rel, selfname, clsname, fn

        def _comp(self, node):
            self.generic_visit(node)
            for gi, g in enumerate(node.generators):
                h = resolve(g.iter, self.rel, self.selfname, self.clsname)
                if h is None or getattr(h[0], "_iter_pre", None) or getattr(h[0], "_iter_inner", None):
                    continue
                xs = _target_names(g.target)
                inst = instantiate(g.iter, h, self.selfname, names_in(self.fn) - set(xs))
                if inst is None:
                    continue
                T, IT, E, conds = inst
                if isinstance(g.target, ast.Name):
                    mapping = {g.target.id: E}
                elif isinstance(g.target, ast.Tuple) and isinstance(E, ast.Tuple) and len(E.elts) == len(g.target.elts) \
                        and all(isinstance(e, ast.Name) for e in g.target.elts):
                    mapping = {t.id: e for t, e in zip(g.target.elts, E.elts)}
                else:
                    continue
                # names of X that survive as loop variables of the helper are not substituted away
                sub = _Subst({k: v for k, v in mapping.items() if not (isinstance(v, ast.Name) and v.id == k)})
                g.target, g.iter = T, IT
                g.ifs = conds + [sub.visit(i) for i in g.ifs]
                for later in node.generators[gi + 1:]:
                    later.iter = sub.visit(later.iter)
                    later.ifs = [sub.visit(i) for i in later.ifs]
                if isinstance(node, ast.DictComp):
                    node.key, node.value = sub.visit(node.key), sub.visit(node.value)
                else:
                    node.elt = sub.visit(node.elt)
                count[0] += 1
            return node
        visit_ListComp = visit_GeneratorExp = visit_SetComp = visit_DictComp = _comp

        def visit_For(self, node):
            self.generic_visit(node)
            h = resolve(node.iter, self.rel, self.selfname, self.clsname)
            if h is None:
                return node
            # without conditions every iteration binds the caller's targets, so a loop variable of the helper may share a name with
            # them (`for region, group, z in self.h(x)` over a helper that loops `for region, group in ..`)
            own_ = set(_target_names(node.target)) if not h[1][3] else set()
            inst = instantiate(node.iter, h, self.selfname, names_in(self.fn) - own_)
            if inst is None:
                return node
            T, IT, E, conds = inst
            pre_, inner_ = extras.pop(id(node.iter), ([], []))
            if (pre_ or inner_) and node.orelse:
                return node
            bind = ast.Assign(targets=[node.target], value=E, lineno=node.lineno)
            for n in ast.walk(bind.targets[0]):
                if hasattr(n, "ctx"):
                    n.ctx = ast.Store()
            body = [bind] + node.body
            for c in reversed(conds):
                body = [ast.If(test=c, body=body, orelse=[])]
            node.target, node.iter, node.body = T, IT, inner_ + body
            count[0] += 1
            for s_ in pre_ + inner_:
                ast.copy_location(s_, node)
            return (pre_ + [node]) if pre_ else node

    for rel, tree in trees.items():
        for st in tree.body:
            if isinstance(st, ast.FunctionDef):
                V(rel, None, None, st).visit(st)
            elif isinstance(st, ast.ClassDef):
                for m in st.body:
                    if isinstance(m, ast.FunctionDef) and m.args.args and ("m", st.name, m.name) not in helpers:
                        static = any(ast.unparse(d) == "staticmethod" for d in m.decorator_list)
                        V(rel, None if static else m.args.args[0].arg, st.name, m).visit(m)
    used = set()
    for tree in trees.values():
        for n in ast.walk(tree):
            if isinstance(n, ast.Attribute):
                used.add(n.attr)
            elif isinstance(n, ast.Name):
                used.add(n.id)
    for rel, tree in trees.items():
        for st in list(tree.body):
            if isinstance(st, ast.FunctionDef) and ("f", rel, st.name) in helpers and st.name not in used:
                tree.body.remove(st)
            elif isinstance(st, ast.ClassDef):
                for m in list(st.body):
                    if isinstance(m, ast.FunctionDef) and ("m", st.name, m.name) in helpers and m.name not in used:
                        st.body.remove(m)
        ast.fix_missing_locations(tree)
    return count[0]


# ------------------------------------------------------------------------------------------------ P3b
def _mentions(node, name):
    return any(isinstance(x, ast.Name) and x.id == name for x in ast.walk(node))


def accumulate_to_comprehension(tree):
    """`L = []` ... `for T in IT: L.append(E)`  ->  `L = [E for T in IT]` when nothing in between (nor E, IT) mentions L."""
    n = [0]

    def process(body):
        i = 0
        while i < len(body):
            st = body[i]
            if not isinstance(st, (ast.FunctionDef, ast.AsyncFunctionDef, ast.ClassDef)):
                for name, b in list(_blocks(st)):
                    process(b)
            else:
                process(st.body)
            if isinstance(st, ast.For) and not st.orelse and len(st.body) == 1 and isinstance(st.body[0], ast.Expr) \
                    and isinstance(st.body[0].value, ast.Call) and isinstance(st.body[0].value.func, ast.Attribute) \
                    and st.body[0].value.func.attr == "append" and isinstance(st.body[0].value.func.value, ast.Name) \
                    and len(st.body[0].value.args) == 1 and not st.body[0].value.keywords:
                L = st.body[0].value.func.value.id
                E = st.body[0].value.args[0]
                if not _mentions(E, L) and not _mentions(st.iter, L) and not _mentions(st.target, L):
                    j = i - 1
                    while j >= 0 and not _mentions(body[j], L):
                        j -= 1
                    init = body[j] if j >= 0 else None
                    if isinstance(init, ast.Assign) and len(init.targets) == 1 and isinstance(init.targets[0], ast.Name) \
                            and init.targets[0].id == L and isinstance(init.value, ast.List) and not init.value.elts:
                        tgt = copy.deepcopy(st.target)
                        for x in ast.walk(tgt):
                            if isinstance(x, ast.Name):
                                x.ctx = ast.Store()
                        comp = ast.ListComp(elt=E, generators=[ast.comprehension(target=tgt, iter=st.iter, ifs=[], is_async=0)])
                        new = ast.copy_location(ast.Assign(targets=[ast.Name(id=L, ctx=ast.Store())], value=comp), st)
                        body[i] = new
                        del body[j]
                        n[0] += 1
                        continue          # index i now points at the statement after the new assignment
            i += 1
    process(tree.body)
    ast.fix_missing_locations(tree)
    return n[0]


def accumulate_to_sum(tree):
    """`T = 0` ... `for X in IT: T += E`  ->  `T = sum(E for X in IT)` when nothing in between (nor E, IT) mentions T: the
    left-to-right sum the builtin computes."""
    n = [0]

    def process(body):
        i = 0
        while i < len(body):
            st = body[i]
            if not isinstance(st, (ast.FunctionDef, ast.AsyncFunctionDef, ast.ClassDef)):
                for name, b in list(_blocks(st)):
                    process(b)
            else:
                process(st.body)
            if isinstance(st, ast.For) and not st.orelse and len(st.body) == 1 and isinstance(st.body[0], ast.AugAssign) \
                    and isinstance(st.body[0].op, ast.Add) and isinstance(st.body[0].target, ast.Name):
                T = st.body[0].target.id
                E = st.body[0].value
                if not _mentions(E, T) and not _mentions(st.iter, T) and not _mentions(st.target, T):
                    j = i - 1
                    while j >= 0 and not _mentions(body[j], T):
                        j -= 1
                    init = body[j] if j >= 0 else None
                    if isinstance(init, ast.Assign) and len(init.targets) == 1 and isinstance(init.targets[0], ast.Name) \
                            and init.targets[0].id == T and isinstance(init.value, ast.Constant) and init.value.value in (0, 0.0) \
                            and not isinstance(init.value.value, bool):
                        tgt = copy.deepcopy(st.target)
                        for x in ast.walk(tgt):
                            if isinstance(x, ast.Name):
                                x.ctx = ast.Store()
                        gen = ast.GeneratorExp(elt=E, generators=[ast.comprehension(target=tgt, iter=st.iter, ifs=[], is_async=0)])
                        call = ast.Call(func=ast.Name(id="sum", ctx=ast.Load()), args=[gen], keywords=[])
                        body[i] = ast.copy_location(ast.Assign(targets=[ast.Name(id=T, ctx=ast.Store())], value=call), st)
                        del body[j]
                        n[0] += 1
                        continue
            i += 1
    process(tree.body)
    ast.fix_missing_locations(tree)
    return n[0]


def _after(fn, st, node):
    """node occurs textually after statement st (inlined code shares line numbers, so positions in a pre-order walk are used)."""
    order = {id(x): i for i, x in enumerate(ast.walk(fn))}
    # ast.walk is breadth-first; use a depth-first order instead
    seq = []

    def dfs(n):
        seq.append(n)
        for c in ast.iter_child_nodes(n):
            dfs(c)
    dfs(fn)
    pos = {id(x): i for i, x in enumerate(seq)}
    last_of_st = max(pos[id(x)] for x in ast.walk(st))
    return pos.get(id(node), -1) > last_of_st


def _propagate_inlined_aliases(tree):
    """After P4 an argument that the helper updated in place appears as  `p__hK = a` ... `p__hK += d` ... `a = p__hK`.
    `p__hK` names the same object as `a` throughout (it is never re-bound, and `a` is only re-bound from it), so it is
    replaced by `a` and the resulting `a = a` statements are dropped."""
    n = 0
    for fn in [x for x in ast.walk(tree) if isinstance(x, ast.FunctionDef)]:
        # `a, b = (a, b__hK)` (the inlined helper handed both back): independent element-wise bindings
        def split(body):
            out = []
            for st in body:
                for nm in ("body", "orelse", "finalbody"):
                    b = getattr(st, nm, None)
                    if isinstance(b, list) and b and isinstance(b[0], ast.stmt) and not isinstance(st, (ast.FunctionDef, ast.ClassDef)):
                        setattr(st, nm, split(b))
                if isinstance(st, ast.Assign) and len(st.targets) == 1 and isinstance(st.targets[0], ast.Tuple) \
                        and isinstance(st.value, ast.Tuple) and len(st.value.elts) == len(st.targets[0].elts) \
                        and all(isinstance(e, ast.Name) for e in st.targets[0].elts + st.value.elts) \
                        and any("__h" in e.id for e in st.value.elts):
                    tg = [e.id for e in st.targets[0].elts]
                    if all(v.id == t_ or v.id not in tg for t_, v in zip(tg, st.value.elts)):
                        for t_, v in zip(st.targets[0].elts, st.value.elts):
                            out.append(ast.copy_location(ast.Assign(targets=[t_], value=v), st))
                        continue
                out.append(st)
            return out
        fn.body = split(fn.body)
        changed = True
        while changed:
            changed = False
            plain = {}          # name -> list of plain-binding statements
            for st in ast.walk(fn):
                if isinstance(st, ast.Assign):
                    for t in st.targets:
                        for x in ([t] if not isinstance(t, (ast.Tuple, ast.List)) else t.elts):
                            if isinstance(x, ast.Name):
                                plain.setdefault(x.id, []).append(st)
                elif isinstance(st, (ast.For, ast.comprehension)):
                    for x in ast.walk(st.target):
                        if isinstance(x, ast.Name):
                            plain.setdefault(x.id, []).append(st)
            for name, sts in plain.items():
                if "__h" not in name:
                    continue
                if len(sts) != 1:
                    # the alias is re-bound later (a parameter the helper converts in place of the original): still the same
                    # variable as its source when the source is dead from the alias point on
                    first = min(sts, key=lambda s_: (getattr(s_, "lineno", 0), getattr(s_, "col_offset", 0)))
                    if not (isinstance(first, ast.Assign) and len(first.targets) == 1 and isinstance(first.targets[0], ast.Name)
                            and first.targets[0].id == name and isinstance(first.value, ast.Name)):
                        continue
                    src0 = first.value.id
                    body_flat = list(ast.walk(fn))
                    later_src = [x for x in body_flat if isinstance(x, ast.Name) and x.id == src0 and x is not first.value
                                 and _after(fn, first, x)]
                    if later_src:
                        continue
                    for x in ast.walk(fn):
                        if isinstance(x, ast.Name) and x.id == name:
                            x.id = src0
                    n += 1
                    changed = True
                    break
                st = sts[0]
                if not (isinstance(st, ast.Assign) and len(st.targets) == 1 and isinstance(st.targets[0], ast.Name)
                        and isinstance(st.value, ast.Name)):
                    continue
                src = st.value.id
                # the source may only be re-bound from the alias itself
                # (re-bindings `src = src` left by an earlier round, and from another in-place alias of the same source, are the
                # same object too)
                def same_object(o):
                    if not (isinstance(o, ast.Assign) and isinstance(o.value, ast.Name) and len(o.targets) == 1):
                        return False
                    v = o.value.id
                    if v in (name, src):
                        return True
                    b = plain.get(v, [])
                    return "__h" in v and len(b) == 1 and isinstance(b[0], ast.Assign) and isinstance(b[0].value, ast.Name) \
                        and b[0].value.id == src
                others = [o for o in plain.get(src, []) if not same_object(o) and getattr(o, "lineno", 0) >= st.lineno and o is not st]
                if any(o for o in others if o is not st):
                    continue
                for x in ast.walk(fn):
                    if isinstance(x, ast.Name) and x.id == name:
                        x.id = src
                n += 1
                changed = True
                break
        # drop `a = a`
        def strip(body):
            out = []
            for st in body:
                for nm in ("body", "orelse", "finalbody"):
                    b = getattr(st, nm, None)
                    if isinstance(b, list) and b and isinstance(b[0], ast.stmt) and not isinstance(st, (ast.FunctionDef, ast.ClassDef)):
                        nb = strip(b)
                        setattr(st, nm, nb if nb or nm != "body" else [ast.copy_location(ast.Pass(), st)])
                if isinstance(st, ast.Assign) and len(st.targets) == 1 and isinstance(st.targets[0], ast.Name) \
                        and isinstance(st.value, ast.Name) and st.value.id == st.targets[0].id:
                    continue
                out.append(st)
            return out
        fn.body = strip(fn.body) or fn.body
    return n


def _definitely_assigns(stmts, name):
    for st in stmts:
        if isinstance(st, ast.Assign) and any(isinstance(t, ast.Name) and t.id == name for t in st.targets):
            return True
        if isinstance(st, ast.If) and st.orelse and _definitely_assigns(st.body, name) and _definitely_assigns(st.orelse, name):
            return True
    return False


def _coalesce_result_locals(tree):
    """After P4 a helper's working variable survives as `y__hK` next to the caller's variable x it is finally copied into:
    `y__hK = A` ... `x = y__hK` / `x = -y__hK` on every path.  When x is not read anywhere in that stretch and y__hK is not used
    after it, the two never hold different values anybody looks at, so y__hK is renamed to x (and `x = x` dropped): the helper's
    variable and the caller's are one variable again, as they were before the helper was extracted."""
    n = 0
    for fn in [x for x in ast.walk(tree) if isinstance(x, ast.FunctionDef)]:
        names = sorted({x.id for x in ast.walk(fn) if isinstance(x, ast.Name) and "__h" in x.id})
        for y in names:
            # the innermost statement list that contains every occurrence of y
            def find(body):
                idx = [k for k, st in enumerate(body) if any(isinstance(x, ast.Name) and x.id == y for x in ast.walk(st))]
                if not idx:
                    return None
                if len(idx) == 1:
                    st = body[idx[0]]
                    for nm in ("body", "orelse", "finalbody"):
                        b = getattr(st, nm, None)
                        if isinstance(b, list) and b and isinstance(b[0], ast.stmt):
                            others = [getattr(st, m2, None) for m2 in ("body", "orelse", "finalbody") if m2 != nm]
                            inside_only = not any(isinstance(x, ast.Name) and x.id == y for o in others if isinstance(o, list)
                                                  for s_ in o for x in ast.walk(s_)) and not any(
                                isinstance(x, ast.Name) and x.id == y for f_ in ("test", "iter", "target") if hasattr(st, f_)
                                for x in ast.walk(getattr(st, f_)))
                            if inside_only:
                                r = find(b)
                                if r is not None:
                                    return r
                return body, idx[0], idx[-1]
            r = find(fn.body)
            if r is None:
                continue
            body, i, j = r
            region = body[i:j + 1]
            first = region[0]
            if not (isinstance(first, ast.Assign) and any(isinstance(x, ast.Name) and x.id == y and isinstance(x.ctx, ast.Store)
                                                          for t in first.targets for x in ast.walk(t))):
                continue
            xs = set()
            for st in ast.walk(ast.Module(body=region, type_ignores=[])):
                if isinstance(st, ast.Assign) and len(st.targets) == 1 and isinstance(st.targets[0], ast.Name) and st.targets[0].id != y:
                    v = st.value
                    if isinstance(v, ast.UnaryOp) and isinstance(v.op, ast.USub):
                        v = v.operand
                    if isinstance(v, ast.Name) and v.id == y:
                        xs.add(st.targets[0].id)
            if len(xs) != 1:
                continue
            x = next(iter(xs))
            if "__h" in x:
                continue
            mod = ast.Module(body=region, type_ignores=[])
            if any(isinstance(n_, ast.Name) and n_.id == x and isinstance(n_.ctx, ast.Load) for n_ in ast.walk(mod)):
                continue
            # every other store to x in the stretch must be one of the copies
            bad = False
            for st in ast.walk(mod):
                if isinstance(st, (ast.AugAssign, ast.For, ast.With, ast.comprehension)) and any(
                        isinstance(n_, ast.Name) and n_.id == x and isinstance(n_.ctx, ast.Store) for n_ in ast.walk(st)
                        if not isinstance(st, ast.For) or n_ in ast.walk(st.target)):
                    bad = True
            if bad or not _definitely_assigns(region, x):
                continue
            for n_ in ast.walk(mod):
                if isinstance(n_, ast.Name) and n_.id == y:
                    n_.id = x
            n += 1
    if n:
        _strip_self_assignments(tree)
    return n


def _strip_self_assignments(tree):
    def strip(body):
        out = []
        for st in body:
            for nm in ("body", "orelse", "finalbody"):
                b = getattr(st, nm, None)
                if isinstance(b, list) and b and isinstance(b[0], ast.stmt) and not isinstance(st, (ast.FunctionDef, ast.ClassDef)):
                    nb = strip(b)
                    if nm == "body" and not nb:
                        nb = [ast.copy_location(ast.Pass(), st)]
                    setattr(st, nm, nb)
            if isinstance(st, ast.Assign) and len(st.targets) == 1 and isinstance(st.targets[0], ast.Name) \
                    and isinstance(st.value, ast.Name) and st.value.id == st.targets[0].id:
                continue
            out.append(st)
        return out
    for fn in [x for x in ast.walk(tree) if isinstance(x, ast.FunctionDef)]:
        fn.body = strip(fn.body) or fn.body


def _monotone_lines(tree):
    """Statements spliced in by P4 all carry the line of the call they replaced.  Rules order statements by line, so in every
    function that received inlined code the statements are re-numbered to be strictly increasing in textual order (later
    statements of that function shift down by the number of lines inserted).  Functions without inlined code keep their exact
    lines; for the others a reported line is approximate, which it was anyway."""
    for fn in [x for x in ast.walk(tree) if isinstance(x, ast.FunctionDef) and getattr(x, "_inlined", False)]:
        prev = [fn.lineno]

        def shift(node, d):
            for x in ast.walk(node):
                if hasattr(x, "lineno") and x.lineno is not None:
                    x.lineno += d
                if getattr(x, "end_lineno", None) is not None:
                    x.end_lineno += d

        def visit(body):
            for st in body:
                if getattr(st, "lineno", None) is None:
                    continue
                if st.lineno <= prev[0]:
                    shift(st, prev[0] + 1 - st.lineno)
                prev[0] = st.lineno
                for nm in ("body", "orelse", "finalbody"):
                    b = getattr(st, nm, None)
                    if isinstance(b, list) and b and isinstance(b[0], ast.stmt):
                        visit(b)
                for h in getattr(st, "handlers", []) or []:
                    visit(h.body)
                end = max([getattr(x, "lineno", 0) or 0 for x in ast.walk(st)] + [st.lineno])
                st.end_lineno = max(end, prev[0])
                prev[0] = max(prev[0], end)
        visit(fn.body)


# ------------------------------------------------------------------------------------------------ P4b
def rename_private_functions(tree, known, params=None):
    """A private function / method the reference does not know, opposite a private reference name that has disappeared from the
    same scope, with the same number of parameters, is that function renamed: the reference name is restored (definition and
    every `self.name(...)` / `name(...)` reference).  Only unambiguous one-to-one cases are mapped."""
    if known is None:
        return 0
    known_params.clear()
    known_params.update(params or {})
    n = 0
    scopes = [(None, tree.body)] + [(st.name, st.body) for st in tree.body if isinstance(st, ast.ClassDef)]
    for cname, body in scopes:
        prefix = f"{cname}." if cname else ""
        have = {st.name: st for st in body if isinstance(st, ast.FunctionDef)}
        ref = {k[len(prefix):] for k in known if k.startswith(prefix) and "." not in k[len(prefix):]} if cname else \
            {k for k in known if "." not in k}
        ref = {k.replace("#setter", "") for k in ref}
        extra = [nm for nm in have if nm not in ref and nm.startswith("_") and not (nm.startswith("__") and nm.endswith("__"))]
        missing = [nm for nm in ref if nm not in have and nm.startswith("_") and not (nm.startswith("__") and nm.endswith("__"))]
        if not extra or not missing:
            continue
        import difflib
        pairs = []
        taken = set()
        for m in missing:
            scored = []
            for e in extra:
                if e in taken:
                    continue
                sc = difflib.SequenceMatcher(None, e.strip("_"), m.strip("_")).ratio()
                pn = known_params.get(prefix + m)
                if pn is not None and pn == [a.arg for a in have[e].args.args]:
                    sc += 0.5
                elif pn is not None and len(pn) == len(have[e].args.args):
                    sc += 0.25
                elif pn is not None:
                    sc -= 0.5
                scored.append((sc, e))
            scored.sort(reverse=True)
            if not scored:
                continue
            best = scored[0]
            margin = best[0] - (scored[1][0] if len(scored) > 1 else -1.0)
            if (len(extra) == 1 and len(missing) == 1) or (best[0] >= 0.6 and margin >= 0.15):
                pairs.append((best[1], m))
                taken.add(best[1])
        for old_, new_ in pairs:
            have[old_].name = new_
            for x in ast.walk(tree):
                if isinstance(x, ast.Attribute) and x.attr in (old_, f"_{cname}{old_}" if cname else old_):
                    x.attr = new_ if x.attr == old_ else f"_{cname}{new_}"
                elif isinstance(x, ast.Name) and x.id == old_ and cname is None:
                    x.id = new_
            n += 1
    return n


known_params = {}      # optional: qualified reference name -> parameter names (not recorded yet: similarity decides)


# ------------------------------------------------------------------------------------------------ driver
def canonicalise(tree, known_functions=None):
    """Single-module form (P1-P4) - used by unit experiments; the program model uses canonicalise_program."""
    canonicalise_program({"<module>": tree}, {"<module>": known_functions})
    return tree


def _dedupe_inlined_runs(tree):
    """After helper inlining the same pure helper may have been expanded twice in one block (once where its value is used, once
    inside another inlined helper that calls it): two runs of statements that define one local each and are identical up to that
    local's name, with nothing the run reads written in between.  The second run is dropped and its local renamed to the first's -
    the value is the same object of the same computation.  Only locals created by inlining (`name__hK`) are merged."""
    n = 0

    def defined_name(run):
        names = set()
        for st in run:
            for x in ast.walk(st):
                if isinstance(x, ast.Name) and isinstance(x.ctx, ast.Store):
                    names.add(x.id)
                if isinstance(x, (ast.Call,)) and isinstance(x.func, ast.Attribute) and x.func.attr in (
                        "append", "extend", "sort", "pop", "insert", "remove", "clear", "update", "fill", "resize"):
                    return None
                if isinstance(x, (ast.Subscript, ast.Attribute)) and isinstance(x.ctx, ast.Store):
                    return None
        return next(iter(names)) if len(names) == 1 else None

    def reads(run, own):
        return {x.id for st in run for x in ast.walk(st) if isinstance(x, ast.Name) and x.id != own} | \
               {ast.unparse(x) for st in run for x in ast.walk(st) if isinstance(x, ast.Attribute)}

    def norm(run, own):
        class Rn(ast.NodeTransformer):
            def visit_Name(self, x):
                return ast.Name(id="X__", ctx=x.ctx) if x.id == own else x
        return [ast.dump(Rn().visit(copy.deepcopy(st))) for st in run]

    def runs_of(block):
        """maximal runs [start, end) of consecutive statements that all define the same single inlined local"""
        out, i = [], 0
        while i < len(block):
            nm = defined_name([block[i]]) if isinstance(block[i], (ast.Assign, ast.If)) else None
            if nm is None or "__h" not in nm:
                i += 1
                continue
            j = i + 1
            while j < len(block) and isinstance(block[j], (ast.Assign, ast.If)) and defined_name([block[j]]) == nm:
                j += 1
            out.append((i, j, nm))
            i = j
        return out

    def stores_of(nm, scope):
        return sum(1 for x in ast.walk(scope) if isinstance(x, ast.Name) and x.id == nm and isinstance(x.ctx, ast.Store))

    for node in ast.walk(tree):
        for fld in ("body", "orelse"):
            block = getattr(node, fld, None)
            if not (isinstance(block, list) and block and isinstance(block[0], ast.stmt)):
                continue
            changed = True
            while changed:
                changed = False
                # a run is the WHOLE definition of its local: the name is bound nowhere else in the module
                rs = [r for r in runs_of(block)
                      if stores_of(r[2], tree) == sum(stores_of(r[2], st) for st in block[r[0]:r[1]])]
                for a in range(len(rs)):
                    for b in range(a + 1, len(rs)):
                        (i1, j1, n1), (i2, j2, n2) = rs[a], rs[b]
                        if n1 == n2 or norm(block[i1:j1], n1) != norm(block[i2:j2], n2):
                            continue
                        rd = reads(block[i1:j1], n1)
                        between = block[j1:i2]
                        written = set()
                        for st in between:
                            for x in ast.walk(st):
                                if isinstance(x, ast.Name) and isinstance(x.ctx, ast.Store):
                                    written.add(x.id)
                                if isinstance(x, (ast.Attribute, ast.Subscript)) and isinstance(x.ctx, ast.Store):
                                    bb = x
                                    while isinstance(bb, (ast.Attribute, ast.Subscript)):
                                        bb = bb.value
                                    if isinstance(bb, ast.Name):
                                        written.add(bb.id)
                                    written.add(ast.unparse(x))
                                if isinstance(x, ast.Call) and isinstance(x.func, ast.Attribute):
                                    rb = x.func.value
                                    while isinstance(rb, (ast.Attribute, ast.Subscript)):
                                        rb = rb.value
                                    if isinstance(rb, ast.Name) and rb.id in ("self", "cls") and x.func.attr not in ("copy", "posterior"):
                                        written.add("<self-call>")       # a method of the receiver may change the state the run reads
                        if written & (rd | {n1}) or ("<self-call>" in written and any(r.startswith("self.") for r in rd)):
                            continue

                        class Rn2(ast.NodeTransformer):
                            def visit_Name(self, x):
                                return ast.copy_location(ast.Name(id=n1, ctx=x.ctx), x) if x.id == n2 else x
                        del block[i2:j2]
                        for k in range(i2, len(block)):
                            block[k] = Rn2().visit(block[k])
                        n += 1
                        changed = True
                        break
                    if changed:
                        break
    return n


def lift_nested_functions(tree, known=None):
    """A function defined inside another and only ever CALLED there (never stored, returned or passed on) is lifted to module
    level with the enclosing function's variables it reads as extra keyword parameters - the value each has at the call, which is
    what the closure would have read.  The lifted function is then a new helper like any other (inlined by P4).  Not lifted (left
    as it is): generators, decorated / defaulted / recursive functions, closures that assign an outer variable (nonlocal), and
    functions that are handed on as a value (a completion callback)."""
    n_lifted = 0
    module_names = {n.id for st in tree.body for n in ast.walk(st) if isinstance(n, ast.Name) and isinstance(n.ctx, ast.Store) and st in tree.body
                    and isinstance(st, (ast.Assign, ast.AnnAssign))}
    module_names |= {st.name for st in tree.body if isinstance(st, (ast.FunctionDef, ast.ClassDef))}
    for st in tree.body:
        if isinstance(st, (ast.Import, ast.ImportFrom)):
            module_names |= {(a.asname or a.name).split(".")[0] for a in st.names}

    def outer_functions(body, top):
        for st in body:
            if isinstance(st, ast.FunctionDef):
                yield st, top if top is not None else st
            elif isinstance(st, ast.ClassDef):
                yield from outer_functions(st.body, top if top is not None else st)
    for f, top in list(outer_functions(tree.body, None)):
        if "plot" in f.name:
            continue                                           # plotting is outside every property
        for g in [x for x in f.body if isinstance(x, ast.FunctionDef)]:
            a = g.args
            if g.decorator_list or a.defaults or a.kw_defaults or a.vararg or a.kwarg or a.kwonlyargs or a.posonlyargs:
                continue
            if any(isinstance(n, (ast.Yield, ast.YieldFrom, ast.Nonlocal, ast.Global, ast.Lambda, ast.FunctionDef)) and n is not g for n in ast.walk(g)):
                continue
            uses = [n for n in ast.walk(f) if isinstance(n, ast.Name) and n.id == g.name and isinstance(n.ctx, ast.Load)]
            calls = [n for n in ast.walk(f) if isinstance(n, ast.Call) and isinstance(n.func, ast.Name) and n.func.id == g.name]
            if not calls or len(uses) != len(calls) or any(n in ast.walk(g) for n in uses):
                continue                                       # stored / passed on / recursive
            if any(isinstance(k.value, ast.Starred) for c in calls for k in c.args if isinstance(k, ast.Starred)) or any(k.arg is None for c in calls for k in c.keywords):
                continue
            params = {x.arg for x in a.args}
            stores = {n.id for n in ast.walk(g) if isinstance(n, ast.Name) and isinstance(n.ctx, ast.Store)}
            f_locals = {x.arg for x in f.args.args + f.args.kwonlyargs} | {n.id for n in ast.walk(f) if isinstance(n, ast.Name) and isinstance(n.ctx, ast.Store)}
            free = []
            for n in ast.walk(g):
                if isinstance(n, ast.Name) and isinstance(n.ctx, ast.Load) and n.id not in params and n.id not in stores \
                        and n.id in f_locals and n.id not in free:
                    free.append(n.id)
            if any(n in stores for n in free):
                continue
            new_name = g.name
            k_ = 0
            while new_name in module_names:
                k_ += 1
                new_name = f"{g.name}_{k_}"
            module_names.add(new_name)
            lifted = ast.FunctionDef(name=new_name, args=ast.arguments(posonlyargs=[], args=[ast.arg(arg=x.arg) for x in a.args] + [ast.arg(arg=v) for v in free],
                                                                   vararg=None, kwonlyargs=[], kw_defaults=[], kwarg=None, defaults=[]),
                                     body=g.body, decorator_list=[], returns=None, type_comment=None)
            ast.copy_location(lifted, g)
            for c in calls:
                c.func = ast.copy_location(ast.Name(id=new_name, ctx=ast.Load()), c.func)
                c.keywords = list(c.keywords) + [ast.keyword(arg=v, value=ast.copy_location(ast.Name(id=v, ctx=ast.Load()), c)) for v in free]
            f.body.remove(g)
            tree.body.insert(tree.body.index(top), lifted)
            n_lifted += 1
    if n_lifted:
        ast.fix_missing_locations(tree)
    return n_lifted


def canonicalise_program(trees, known_by_rel, params_by_rel=None):
    """P1-P4 over every parsed module; P4 sees the whole program (helpers inherited across files)."""
    for rel, tree in trees.items():
        if known_by_rel.get(rel) is not None:
            lift_nested_functions(tree, known_by_rel.get(rel))
        inline_module_constants(tree)
        numpy_spellings(tree)
        from .canon2 import respell
        respell(tree)
        _Polarity().visit(tree)
        tree.body = _restructure(tree.body)
        _AttrCalls().visit(tree)
        if not any(isinstance(x, ast.Name) and x.id == "dict" and isinstance(x.ctx, ast.Store) for x in ast.walk(tree)):
            _DictCalls().visit(tree)
            ast.fix_missing_locations(tree)
        rename_private_functions(tree, known_by_rel.get(rel), (params_by_rel or {}).get(rel))
    inline_new_properties(trees, known_by_rel)
    n_inl = inline_iterator_helpers_program(trees, known_by_rel)
    n_inl += inline_new_helpers_program(trees, known_by_rel)
    for rel, tree in trees.items():
        if n_inl:
            _propagate_inlined_aliases(tree)
            _coalesce_result_locals(tree)
            _dedupe_inlined_runs(tree)
        _Polarity().visit(tree)
        tree.body = _restructure(tree.body)
        ast.fix_missing_locations(tree)
        if n_inl:
            _monotone_lines(tree)
    return trees
