"""Engine E3 - attribute-path effects: which parts of the receiver's state an expression READS and a block of statements WRITES,
closed over the receiver's own methods and over the methods of helper objects whose class the constructor fixes
(`self.ES = EpsilonSelector(..)`  =>  `self.ES.add_probability(..)` has the effects of EpsilonSelector.add_probability, prefixed with ES).

Paths are tuples of attribute names rooted at the receiver: ("ES", "epsilon"), ("theta",).  Two paths conflict when one is a prefix of
the other.  Calls through attributes that hold user callbacks (posterior, grad, ...) and calls of library functions have no effect on
the receiver.  Used by the stale-state rule: a value computed before a loop from state the loop body changes.
"""
from __future__ import annotations
import ast

MUTATING = {"append", "extend", "insert", "pop", "remove", "clear", "reverse", "sort", "update", "setdefault", "popitem", "resize", "fill",
            "put", "add", "discard"}


def _chain(e):
    """(root name, (attr, ...)) of an attribute chain, looking through subscripts; None when not rooted at a name."""
    path = []
    while True:
        if isinstance(e, ast.Attribute):
            path.append(e.attr)
            e = e.value
        elif isinstance(e, ast.Subscript):
            e = e.value
        else:
            break
    if isinstance(e, ast.Name):
        return e.id, tuple(reversed(path))
    return None


def conflict(p, q):
    n = min(len(p), len(q))
    return p[:n] == q[:n]


class Effects:
    def __init__(self, prog):
        self.prog = prog
        self._memo = {}
        self._helper = {}

    # ------------------------------------------------------------------ class of a helper object stored on the receiver
    def helper_class(self, ci, attr):
        key = (ci.name, attr)
        if key in self._helper:
            return self._helper[key]
        found = set()
        for c in self.prog.mro(ci):
            for fn in c.methods.values():
                if not fn.args.args:
                    continue
                sn = fn.args.args[0].arg
                for st in ast.walk(fn):
                    if isinstance(st, ast.Assign) and len(st.targets) == 1 and isinstance(st.targets[0], ast.Attribute) \
                            and isinstance(st.targets[0].value, ast.Name) and st.targets[0].value.id == sn and st.targets[0].attr == attr:
                        v = st.value
                        if isinstance(v, ast.Call):
                            nm = v.func.id if isinstance(v.func, ast.Name) else v.func.attr if isinstance(v.func, ast.Attribute) else None
                            if nm in self.prog.classes:
                                found.add(nm)
        res = self.prog.classes[next(iter(found))] if len(found) == 1 else None
        self._helper[key] = res
        return res

    # ------------------------------------------------------------------ summaries
    def method(self, ci, name, depth=0):
        """(reads, writes) of ci.name(...) as sets of paths rooted at the receiver."""
        key = (ci.name, name)
        if key in self._memo:
            return self._memo[key]
        self._memo[key] = (set(), set())           # recursion guard
        c, fn = self.prog.find_method(ci, name)
        if fn is None or not fn.args.args or depth > 6:
            return self._memo[key]
        sn = fn.args.args[0].arg
        r, w = self.block(fn.body, ci, sn, depth + 1)
        self._memo[key] = (r, w)
        return r, w

    def expr_reads(self, e, ci, sn, depth=0):
        return self._scan([e], ci, sn, depth)[0]

    def block(self, stmts, ci, sn, depth=0):
        return self._scan(stmts, ci, sn, depth)

    def _scan(self, nodes, ci, sn, depth):
        reads, writes = set(), set()
        callee_nodes = set()
        for top in nodes:
            for n in ast.walk(top):
                if isinstance(n, (ast.FunctionDef, ast.Lambda)) and n is not top:
                    continue
                if isinstance(n, ast.Call):
                    f = n.func
                    ch = _chain(f) if isinstance(f, ast.Attribute) else None
                    if ch is not None and ch[0] == sn and ch[1]:
                        callee_nodes.add(id(f))
                        *objs, m = ch[1]
                        if not objs:
                            c, fn = self.prog.find_method(ci, m)
                            if fn is not None:
                                r2, w2 = self.method(ci, m, depth)
                                reads |= r2
                                writes |= w2
                            else:
                                reads.add((m,))            # a callable held in an attribute (user callback / bound-method slot)
                                for cc, mm in (self.prog.slot_targets(ci, m)[0] if hasattr(self.prog, "slot_targets") else []):
                                    r2, w2 = self.method(ci, mm.name, depth)
                                    reads |= r2
                                    writes |= w2
                        else:
                            reads.add(tuple(objs))
                            hc = self.helper_class(ci, objs[0]) if len(objs) == 1 else None
                            if hc is not None:
                                r2, w2 = self.method(hc, m, depth)
                                reads |= {(objs[0],) + p for p in r2}
                                writes |= {(objs[0],) + p for p in w2}
                            elif m in MUTATING:
                                writes.add(tuple(objs))
        for top in nodes:
            for n in ast.walk(top):
                if isinstance(n, ast.Attribute) and id(n) not in callee_nodes:
                    ch = _chain(n)
                    if ch is None or ch[0] != sn or not ch[1]:
                        continue
                    if isinstance(n.ctx, ast.Load):
                        reads.add(ch[1])
                    else:
                        writes.add(ch[1])
                elif isinstance(n, ast.Subscript) and isinstance(n.ctx, (ast.Store, ast.Del)):
                    ch = _chain(n)
                    if ch is not None and ch[0] == sn and ch[1]:
                        writes.add(ch[1])
                elif isinstance(n, ast.AugAssign):
                    ch = _chain(n.target)
                    if ch is not None and ch[0] == sn and ch[1]:
                        writes.add(ch[1])
                        reads.add(ch[1])
        # keep only maximal read paths' prefixes out: a read of ("ES","epsilon") also walks ("ES",) - harmless, conflicts are prefix-based
        return reads, writes


def stale_in_loops(prog, ci, fn, eff=None):
    """([(variable, loop lineno, definition lineno, path, definition text, sink text)], number of loops): a local assigned before a
    loop from state the loop body changes, not re-assigned in the loop, and handed there to one of the receiver's own methods."""
    eff = eff or Effects(prog)
    if not fn.args.args:
        return [], 0
    sn = fn.args.args[0].arg
    out = []
    n_loops = 0

    def visit(stmts, defs):
        nonlocal n_loops
        defs = dict(defs)
        for st in stmts:
            if isinstance(st, (ast.For, ast.While)):
                n_loops += 1
                body = st.body
                assigned = {t.id for b in body for n in ast.walk(b) for t in _targets(n)}
                if isinstance(st, ast.For):
                    assigned |= {n.id for n in ast.walk(st.target) if isinstance(n, ast.Name)}
                used = {n.id for b in body for n in ast.walk(b) if isinstance(n, ast.Name) and isinstance(n.ctx, ast.Load)}
                _, w = eff.block(body, ci, sn)
                for v, (dst, reads) in defs.items():
                    if v in assigned or v not in used:
                        continue
                    # uses that matter: the stale value is handed to one of the receiver's own methods / slots inside the loop
                    sinks = [c for b in body for c in ast.walk(b) if isinstance(c, ast.Call) and isinstance(c.func, ast.Attribute)
                             and (_chain(c.func) or ("", ()))[0] == sn
                             and any(isinstance(x, ast.Name) and x.id == v for a in list(c.args) + [k.value for k in c.keywords] for x in ast.walk(a))]
                    if not sinks:
                        continue
                    for p in sorted(reads):
                        # the loop replaces what was read (the same path or an object above it); fields changing BELOW an object the
                        # definition merely referenced do not make the reference stale
                        hit = [q for q in w if len(q) <= len(p) and p[:len(q)] == q]
                        if hit:
                            out.append((v, st.lineno, dst.lineno, p, ast.unparse(dst)[:120], ast.unparse(sinks[0])[:120]))
                            break
                visit(body, defs)
                visit(st.orelse, defs)
                continue
            if isinstance(st, (ast.If,)):
                visit(st.body, defs)
                visit(st.orelse, defs)
            elif isinstance(st, (ast.With, ast.Try)):
                visit(getattr(st, "body", []), defs)
            if isinstance(st, ast.Assign) and len(st.targets) == 1 and isinstance(st.targets[0], ast.Name):
                reads = eff.expr_reads(st.value, ci, sn)
                # through locals: the value may be built from earlier locals that were themselves built from state
                for n in ast.walk(st.value):
                    if isinstance(n, ast.Name) and n.id in defs:
                        reads = reads | defs[n.id][1]
                defs[st.targets[0].id] = (st, reads)
            else:
                for n in ast.walk(st):
                    for t in _targets(n):
                        defs.pop(t.id, None)
    visit(fn.body, {})
    return out, n_loops


def _targets(n):
    ts = []
    if isinstance(n, ast.Assign):
        for t in n.targets:
            ts.extend(x for x in ast.walk(t) if isinstance(x, ast.Name))
    elif isinstance(n, (ast.AugAssign, ast.AnnAssign)) and isinstance(n.target, ast.Name):
        ts.append(n.target)
    elif isinstance(n, (ast.For, ast.comprehension)):
        ts.extend(x for x in ast.walk(n.target) if isinstance(x, ast.Name))
    elif isinstance(n, ast.NamedExpr):
        ts.append(n.target)
    return ts


class _MiniProg:
    """Just enough of sa.model.Program for the built-in positive example."""
    def __init__(self, tree):
        from .model import ClassInfo
        self.classes = {c.name: ClassInfo(c.name, None, c) for c in tree.body if isinstance(c, ast.ClassDef)}

    def mro(self, ci):
        return [ci]

    def find_method(self, ci, name):
        return (ci, ci.methods[name]) if name in ci.methods else (None, None)

    def slot_targets(self, ci, name):
        return [], []


def self_test():
    """A loop that hands a value computed from `self.h.e` before the loop to a method while `self.h.bump()` changes it: must be found;
    the twin that recomputes the value inside the loop must not."""
    src = ("class K:\n    def __init__(self):\n        self.h = H()\n"
           "    def bad(self):\n        a = self.h.e * 2\n        for i in range(3):\n            self.use(a)\n            self.h.bump()\n"
           "    def good(self):\n        for i in range(3):\n            a = self.h.e * 2\n            self.use(a)\n            self.h.bump()\n"
           "    def use(self, a):\n        pass\n"
           "class H:\n    def bump(self):\n        self.e += 1\n")
    mp = _MiniProg(ast.parse(src))
    k = mp.classes["K"]
    bad, _ = stale_in_loops(mp, k, k.methods["bad"])
    good, _ = stale_in_loops(mp, k, k.methods["good"])
    return len(bad) == 1 and not good
