"""Engine J - small lints tied to properties.

J1  value of a call to a None-returning in-place method used as a value
J2  exception constructed as an expression statement (not raised)   [INFO only]
J3  axis-less .squeeze() wrapping a read-out's return value
"""
from __future__ import annotations
import ast

NONE_RETURNING = {"sort", "resize", "fill", "shuffle", "append", "extend", "insert", "reverse", "put"}


def none_valued_uses(fn):
    """Calls x.<m>() with m None-returning whose value is consumed.  Expression statements and the
    element of a comprehension that is itself an expression statement (`[l.extend(..) for ..]`) are
    exempt because the value is discarded."""
    parents = {}
    for n in ast.walk(fn):
        for c in ast.iter_child_nodes(n):
            parents[id(c)] = n
    out = []
    for n in ast.walk(fn):
        if isinstance(n, ast.Call) and isinstance(n.func, ast.Attribute) and n.func.attr in NONE_RETURNING:
            # skip module-style calls numpy.sort(x) / sort(x): those have a Name func or a module base
            if n.func.attr == "sort" and n.args and not n.keywords and not isinstance(n.func.value, ast.Name):
                pass
            p = parents.get(id(n))
            if isinstance(p, ast.Expr):
                continue
            if isinstance(p, (ast.ListComp, ast.GeneratorExp)) and p.elt is n and isinstance(parents.get(id(p)), ast.Expr):
                continue
            # calls with positional args to .sort on a module alias (np.sort(a)) return values
            base = n.func.value
            if isinstance(base, ast.Name) and base.id in ("np", "numpy", "random"):
                continue
            out.append(n)
    return out


def unraised_exceptions(tree):
    out = []
    for n in ast.walk(tree):
        if isinstance(n, ast.Expr) and isinstance(n.value, ast.Call) and isinstance(n.value.func, ast.Name) \
                and (n.value.func.id.endswith("Error") or n.value.func.id.endswith("Exception")):
            out.append(n)
    return out


def axisless_squeeze_on_return(fn):
    out = []
    for r in ast.walk(fn):
        if isinstance(r, ast.Return) and r.value is not None:
            for n in ast.walk(r.value):
                if isinstance(n, ast.Call) and isinstance(n.func, ast.Attribute) and n.func.attr == "squeeze" \
                        and not n.args and not any(k.arg == "axis" for k in n.keywords):
                    out.append(n)
                elif isinstance(n, ast.Call) and isinstance(n.func, ast.Name) and n.func.id == "squeeze" \
                        and len(n.args) == 1 and not any(k.arg == "axis" for k in n.keywords):
                    out.append(n)
    return out


# J4  a stateful repository object created in a parameter default is shared by every call that relies on the default
def stateful_class(prog, ci, ctor=("__init__",)):
    """True if some non-constructor method of the class (or a base) assigns or updates an attribute of self."""
    for c in prog.mro(ci):
        for mname, fn in c.methods.items():
            if mname in ctor or not fn.args.args:
                continue
            sn = fn.args.args[0].arg
            for n in ast.walk(fn):
                tgts = n.targets if isinstance(n, ast.Assign) else [n.target] if isinstance(n, (ast.AugAssign, ast.AnnAssign)) else []
                for t in tgts:
                    for x in ast.walk(t):
                        if isinstance(x, ast.Attribute) and isinstance(x.value, ast.Name) and x.value.id == sn and isinstance(x.ctx, ast.Store):
                            return mname
                        if isinstance(x, ast.Subscript) and isinstance(x.ctx, ast.Store):
                            b = x
                            while isinstance(b, ast.Subscript):
                                b = b.value
                            if isinstance(b, ast.Attribute) and isinstance(b.value, ast.Name) and b.value.id == sn:
                                return mname
    return None


def shared_default_instances(prog, mi, fn):
    """[(parameter, class name, mutating method)] for defaults that construct a stateful repository object."""
    out = []
    args = fn.args.args
    defaults = [None] * (len(args) - len(fn.args.defaults)) + list(fn.args.defaults)
    pairs = list(zip(args, defaults)) + list(zip(fn.args.kwonlyargs, fn.args.kw_defaults))
    for a, d in pairs:
        if not isinstance(d, ast.Call):
            continue
        f = d.func
        name = f.id if isinstance(f, ast.Name) else f.attr if isinstance(f, ast.Attribute) else None
        if name and prog.has_cls(name):
            m = stateful_class(prog, prog.cls(name))
            if m:
                out.append((a.arg, name, m))
    return out


# J5  exp() of a quantity that can be large and positive must only be used where it saturates
def _nonneg(e, res=None):
    """Syntactic proof that e >= 0 (res: optional map  self-attribute name -> defining expression)."""
    if isinstance(e, ast.Constant):
        return isinstance(e.value, (int, float)) and e.value >= 0
    if isinstance(e, ast.UnaryOp) and isinstance(e.op, ast.USub):
        return _nonpos(e.operand, res)
    if isinstance(e, ast.BinOp):
        if isinstance(e.op, ast.Pow):
            return (isinstance(e.right, ast.Constant) and isinstance(e.right.value, int) and e.right.value % 2 == 0) or _nonneg(e.left, res)
        if isinstance(e.op, (ast.Mult, ast.Div)):
            return (_nonneg(e.left, res) and _nonneg(e.right, res)) or (_nonpos(e.left, res) and _nonpos(e.right, res))
        if isinstance(e.op, ast.Add):
            return _nonneg(e.left, res) and _nonneg(e.right, res)
    if isinstance(e, ast.Call):
        f = ast.unparse(e.func)
        if f in ("abs", "fabs", "absolute", "square", "exp", "sqrt"):
            return True
        if f in ("log", "log1p") and e.args:
            a = e.args[0]
            if f == "log1p":
                return _nonneg(a, res)
            # log(1 + nonneg) >= 0
            if isinstance(a, ast.BinOp) and isinstance(a.op, ast.Add):
                ops = [a.left, a.right]
                ones = [o for o in ops if isinstance(o, ast.Constant) and isinstance(o.value, (int, float)) and o.value >= 1]
                rest = [o for o in ops if o not in ones]
                return len(ones) >= 1 and all(_nonneg(o, res) for o in rest)
            return False
        if isinstance(e.func, ast.Attribute) and e.func.attr in ("sum", "mean", "max", "min"):
            return _nonneg(e.func.value, res)
        if f == "sum" and e.args:
            return _nonneg(e.args[0], res)
    if isinstance(e, ast.Subscript):
        return _nonneg(e.value, res)
    if isinstance(e, ast.Attribute) and res is not None and ast.unparse(e.value) == "self" and e.attr in res:
        return all(_nonneg(v, res) for v in res[e.attr])
    return False


def _nonpos(e, res=None):
    if isinstance(e, ast.UnaryOp) and isinstance(e.op, ast.USub):
        return _nonneg(e.operand, res)
    if isinstance(e, ast.Constant):
        return isinstance(e.value, (int, float)) and e.value <= 0
    if isinstance(e, ast.BinOp) and isinstance(e.op, (ast.Mult, ast.Div)):
        return (_nonpos(e.left, res) and _nonneg(e.right, res)) or (_nonneg(e.left, res) and _nonpos(e.right, res))
    if isinstance(e, ast.BinOp) and isinstance(e.op, ast.Add):
        return _nonpos(e.left, res) and _nonpos(e.right, res)
    if isinstance(e, ast.Call) and isinstance(e.func, ast.Attribute) and e.func.attr in ("sum", "mean", "max", "min"):
        return _nonpos(e.func.value, res)
    if isinstance(e, ast.Subscript):
        return _nonpos(e.value, res)
    if isinstance(e, ast.Attribute) and res is not None and ast.unparse(e.value) == "self" and e.attr in res:
        return all(_nonpos(v, res) for v in res[e.attr])
    return False


def unsaturated_exp(term, bounded_names=(), res=None):
    """exp(arg) nodes of a resolved term whose argument depends on something other than `bounded_names`, is not provably
    non-positive, and whose value does not pass through a denominator (or logaddexp / tanh) on the way out: such a factor
    overflows to inf for admissible inputs and turns `inf * 0` into nan."""
    parents = {}
    for n in ast.walk(term):
        for c in ast.iter_child_nodes(n):
            parents[id(c)] = n
    out = []
    for n in ast.walk(term):
        if isinstance(n, ast.Call) and ast.unparse(n.func).split(".")[-1] in ("exp", "expm1", "exp2", "sinh", "cosh") and len(n.args) == 1:
            arg = n.args[0]
            free = {x.id for x in ast.walk(arg) if isinstance(x, ast.Name)} - set(bounded_names)
            attrs = [x for x in ast.walk(arg) if isinstance(x, ast.Attribute)]
            if not free and not attrs:
                continue                      # a function of (bounded) hyper-parameters only
            if _nonpos(arg, res):
                continue
            cur, sat = n, False
            while id(cur) in parents:
                p = parents[id(cur)]
                if isinstance(p, ast.BinOp) and isinstance(p.op, ast.Div) and p.right is cur:
                    sat = True
                    break
                # (log / log1p do NOT saturate: exp overflows to inf first and log(inf) is inf - log(1 + exp(x)) must be logaddexp(0, x))
                if isinstance(p, ast.Call) and ast.unparse(p.func) in ("logaddexp", "tanh", "arctan"):
                    sat = True
                    break
                if isinstance(p, ast.Call) and p.func is not cur and ast.unparse(p.func) not in ("array", "float"):
                    break                     # passed to another function: unknown
                cur = p
            if not sat:
                out.append(n)
    return out


def log_of_vanishing_product(term, bounded_names=(), exp_like=("exp", "exp2")):
    """log(X) nodes where X is a product / quotient with an exp(arg) factor in the numerator, arg depending on something other than
    `bounded_names` and not provably non-negative: the factor underflows to 0 for admissible inputs (beyond ~39 standard
    deviations for a Gaussian) and the log is -inf where the log-density is finite.  (The algebra cancels log(exp(x)) = x; floating
    point does not.)"""
    out = []

    def numer_factors(e):
        if isinstance(e, ast.BinOp) and isinstance(e.op, ast.Mult):
            return numer_factors(e.left) + numer_factors(e.right)
        if isinstance(e, ast.BinOp) and isinstance(e.op, ast.Div):
            return numer_factors(e.left)
        if isinstance(e, ast.UnaryOp):
            return numer_factors(e.operand)
        return [e]
    for n in ast.walk(term):
        if isinstance(n, ast.Call) and ast.unparse(n.func).split(".")[-1] in ("log", "log2", "log10") and len(n.args) == 1:
            for f in numer_factors(n.args[0]):
                if isinstance(f, ast.BinOp) and isinstance(f.op, ast.Pow):
                    f = f.left
                if isinstance(f, ast.Call) and ast.unparse(f.func).split(".")[-1] in exp_like and len(f.args) == 1:
                    arg = f.args[0]
                    free = {x.id for x in ast.walk(arg) if isinstance(x, ast.Name)} - set(bounded_names)
                    attrs = [x for x in ast.walk(arg) if isinstance(x, ast.Attribute)]
                    if free or attrs:
                        out.append(n)
                        break
    return out


# J6  integer-dtype hazards: places where a legal integer-typed input silently turns float arithmetic into integer arithmetic
FLOAT_DTYPES = {"float", "float64", "float32", "double", "complex", "complex128", "'float'", "'float64'", "'f8'", "longdouble"}
LIKE_FUNCS = {"zeros_like", "empty_like", "ones_like", "full_like"}


FLOAT_MAKERS = {"exp", "log", "sqrt", "solve_triangular", "solve", "inv", "cholesky", "cho_solve", "erf", "erfc", "log1p", "expm1", "tanh",
                "mean", "std", "var", "linspace", "float", "astype_float", "slogdet", "det", "pinv", "lstsq"}


def _float_valued(e, fn, depth=4, assume=()):
    """The expression is certainly floating point: it contains a true division, a float literal or the result of a function that
    always returns floats; locals bound exactly once in `fn` are looked through."""
    if depth <= 0:
        return False
    for x in ast.walk(e):
        if isinstance(x, ast.BinOp) and isinstance(x.op, ast.Div):
            return True
        if isinstance(x, ast.Constant) and isinstance(x.value, float):
            return True
        if isinstance(x, ast.Call):
            nm = x.func.id if isinstance(x.func, ast.Name) else x.func.attr if isinstance(x.func, ast.Attribute) else None
            if nm in FLOAT_MAKERS:
                return True
        if isinstance(x, ast.Name) and isinstance(x.ctx, ast.Load):
            if x.id in assume:
                return True
            sites = [st for st in ast.walk(fn) if isinstance(st, ast.Assign) and len(st.targets) == 1 and isinstance(st.targets[0], ast.Name)
                     and st.targets[0].id == x.id]
            # every binding is float arithmetic (a re-binding from the name itself, `iK = iK.T @ iK`, keeps the type)
            plain = [st for st in sites if not any(isinstance(y, ast.Name) and y.id == x.id for y in ast.walk(st.value))]
            if sites and plain and all(_float_valued(st.value, fn, depth - 1, assume) for st in plain) \
                    and all(_float_valued(st.value, fn, depth - 1, tuple(assume) + (x.id,)) for st in sites if st not in plain):
                return True
    return False


def integer_dtype_hazards(fn):
    """[(lineno, text, why)]:
       * numpy.reciprocal(x): keeps x's dtype, so an integer array gives integer division (1/2 -> 0);
       * a conversion whose dtype is copied from another array (`asarray(q, dtype=self.x.dtype)`, `q.astype(x.dtype)`): a float
         value is truncated when that array happens to be integer-typed;
       * zeros_like / empty_like / ones_like / full_like(x) without an explicit floating dtype: the result inherits an integer
         dtype and later float stores are truncated."""
    out = []
    for n in ast.walk(fn):
        if not isinstance(n, ast.Call):
            continue
        f = n.func
        name = f.id if isinstance(f, ast.Name) else f.attr if isinstance(f, ast.Attribute) else None
        if name == "reciprocal":
            if n.args and _float_valued(n.args[0], fn):
                continue                   # the argument is the result of float arithmetic (a solve, a division, exp ..): never integer
            out.append((n.lineno, ast.unparse(n)[:120], "numpy.reciprocal keeps an integer dtype: reciprocal([2, 3]) is [0, 0]"))
            continue
        dt = None
        for k in n.keywords:
            if k.arg == "dtype":
                dt = k.value
        if name == "astype" and n.args:
            dt = n.args[0]
        if name in ("array", "asarray", "asanyarray", "zeros", "ones", "empty", "full") and len(n.args) >= 2 and dt is None and name in ("array", "asarray", "asanyarray"):
            dt = n.args[1]
        NARROW = ("int8", "int16", "uint8", "uint16", "float16", "float32", "half", "single", "short", "ushort", "byte", "ubyte")
        if dt is not None and ast.unparse(dt).strip("'\"").split(".")[-1] in NARROW:
            out.append((n.lineno, ast.unparse(n)[:120], f"the array is given the narrow type {ast.unparse(dt)}: counts / positions beyond its range "
                                                        f"wrap around (32767 for int16) and values lose their digits"))
            continue
        if dt is not None and any(isinstance(x, ast.Attribute) and x.attr == "dtype" for x in ast.walk(dt)):
            out.append((n.lineno, ast.unparse(n)[:120], "the target dtype is copied from another array: a float value is truncated "
                                                        "whenever that array is integer-typed"))
            continue
        if name in LIKE_FUNCS and (dt is None or ast.unparse(dt) not in FLOAT_DTYPES):
            out.append((n.lineno, ast.unparse(n)[:120], f"{name} inherits the dtype of its argument; with an integer-typed argument "
                                                        f"later float stores are truncated"))
    return out


# ------------------------------------------------------------------ cancellation: |p|^2 + |q|^2 - 2 p.q
_PRODUCTS = {"dot", "matmul", "einsum", "tensordot", "inner", "outer"}
_REDUCERS = {"sum", "einsum", "norm", "dot", "inner", "vdot"}


def _signed_summands(node, sign=1):
    if isinstance(node, ast.BinOp) and isinstance(node.op, (ast.Add, ast.Sub)):
        return _signed_summands(node.left, sign) + _signed_summands(node.right, sign if isinstance(node.op, ast.Add) else -sign)
    if isinstance(node, ast.UnaryOp) and isinstance(node.op, ast.USub):
        return _signed_summands(node.operand, -sign)
    return [(sign, node)]


def _factors(node):
    if isinstance(node, ast.BinOp) and isinstance(node.op, ast.Mult):
        return _factors(node.left) + _factors(node.right)
    return [node]


def _is_product(node):
    for n in ast.walk(node):
        if isinstance(n, ast.BinOp) and isinstance(n.op, ast.MatMult):
            return True
        if isinstance(n, ast.Call):
            f = n.func
            nm = f.attr if isinstance(f, ast.Attribute) else f.id if isinstance(f, ast.Name) else None
            if nm in _PRODUCTS:
                return True
    return False


def _is_square_norm(node):
    """A reduction over squared entries: (p**2).sum(..), sum(p*p), einsum('ij,ij->i', p, p), norm(p)**2 ..."""
    for n in ast.walk(node):
        if not isinstance(n, ast.Call):
            continue
        f = n.func
        nm = f.attr if isinstance(f, ast.Attribute) else f.id if isinstance(f, ast.Name) else None
        if nm not in _REDUCERS:
            continue
        inner = [f.value] if isinstance(f, ast.Attribute) and nm == "sum" else list(n.args)
        for e in inner:
            for m in ast.walk(e):
                if isinstance(m, ast.BinOp) and isinstance(m.op, ast.Pow) and isinstance(m.right, ast.Constant) and m.right.value == 2:
                    return True
                if isinstance(m, ast.BinOp) and isinstance(m.op, ast.Mult) and ast.dump(m.left) == ast.dump(m.right):
                    return True
                if isinstance(m, ast.Call) and ast.unparse(m.func).split(".")[-1] == "square":
                    return True
        if nm in ("einsum", "dot", "inner", "vdot"):
            arrs = [a for a in n.args if not (isinstance(a, ast.Constant) and isinstance(a.value, str))]
            if len(arrs) == 2 and ast.dump(arrs[0]) == ast.dump(arrs[1]):
                return True
        if nm == "norm":
            return True
    return False


def expanded_square_distance(term):
    """Sub-terms of the shape  |p|^2 + |q|^2 - 2 (p . q):  a squared distance computed from the expanded square.  The three
    summands are of the size of the squared coordinates while their sum is of the size of the squared separation, so for
    coordinates large against the separation (time stamps, offsets) the result is rounding noise - the difference must be
    taken before the square.  Returns the offending sub-terms (as source text)."""
    out = []
    for n in ast.walk(term):
        if not (isinstance(n, ast.BinOp) and isinstance(n.op, (ast.Add, ast.Sub))):
            continue
        sm = []
        for sg, t in _signed_summands(n):
            fs = _factors(t)
            for f in fs:                      # -2 * x parses as (-2) * x
                if isinstance(f, ast.UnaryOp) and isinstance(f.op, ast.USub) and isinstance(f.operand, ast.Constant):
                    sg = -sg
            sm.append((sg, t))
        for flip in (1, -1):
            cross = [s for sg, s in sm if sg * flip < 0 and _is_product(s)
                     and any(isinstance(f, ast.Constant) and f.value in (2, 2.0) for ff in _factors(s)
                             for f in [ff.operand if isinstance(ff, ast.UnaryOp) else ff])]
            norms = [s for sg, s in sm if sg * flip > 0 and _is_square_norm(s) and not any(s is c for c in cross)]
            if cross and len(norms) >= 2:
                out.append(ast.unparse(n))
                break
    # report maximal terms only
    return [t for t in out if not any(t != o and t in o for o in out)]


# ------------------------------------------------------------------ ~ applied to a comparison that may be a plain Python bool
NUMPY_SCALAR_FUNCS = {"sqrt", "exp", "log", "log1p", "expm1", "sin", "cos", "tanh", "erf", "erfc", "erfcx", "absolute", "fabs", "square",
                      "mean", "std", "var", "sum", "prod", "max", "min", "amax", "amin", "median", "float64", "float32", "array", "asarray",
                      "dot", "power", "hypot", "maximum", "minimum", "nanmax", "nanmin", "nanmean", "ptp", "percentile"}


def invert_of_python_bool(fn, rz=None, numpy_names=None):
    """`~c` is logical negation only for numpy booleans; for a plain Python bool it is integer complement (~True == -2, ~False == -1,
    both truthy - the branch is always taken).  A comparison yields a numpy bool only if one of its operands is a numpy scalar
    / array.  Reports every `~(comparison ...)` in which some comparison has no operand that is certainly a numpy value (the
    result of a numpy function or of an array method): whether the test works then depends on how the numbers compared were
    produced (a value restored with float(...) from a file is a Python float).  Returns [(lineno, text, why)]."""
    out = []

    def certainly_numpy(e):
        for n in ast.walk(e):
            if isinstance(n, ast.Call):
                f = n.func
                nm = f.attr if isinstance(f, ast.Attribute) else f.id if isinstance(f, ast.Name) else None
                if nm in NUMPY_SCALAR_FUNCS and (numpy_names is None or isinstance(f, ast.Attribute) or nm in numpy_names):
                    return True
        return False
    for n in ast.walk(fn):
        if not (isinstance(n, ast.UnaryOp) and isinstance(n.op, ast.Invert)):
            continue
        op = n.operand
        comps = [c for c in ast.walk(op) if isinstance(c, ast.Compare)]
        if not comps or not isinstance(op, (ast.Compare, ast.BoolOp)):
            continue
        st = rz.stmt_of(n) if rz is not None else None
        bad = []
        for c in comps:
            sides = [c.left] + list(c.comparators)
            for a, b in zip(sides, sides[1:]):
                ta = rz.term(a, st) if rz is not None and st is not None else a
                tb = rz.term(b, st) if rz is not None and st is not None else b
                if not (certainly_numpy(ta) or certainly_numpy(tb)):
                    bad.append(f"{ast.unparse(a)} .. {ast.unparse(b)}")
        if bad:
            out.append((n.lineno, ast.unparse(n)[:120],
                        f"comparison `{bad[0][:100]}` has no operand that is certainly a numpy value: for plain Python numbers the result is a "
                        f"Python bool and `~` makes it -1 / -2, both true"))
    return out
