"""Engine J - small lints tied to properties.

J1  value of a call to a None-returning in-place method used as a value
J2  exception constructed as an expression statement (not raised)   [INFO only]
J3  axis-less .squeeze() wrapping a read-out's return value
"""
from __future__ import annotations
import ast

NONE_RETURNING = {"sort", "resize", "fill", "shuffle", "append", "extend", "insert", "reverse", "put"}


def none_valued_uses(fn):
    """Calls x.<m>() with m None-returning whose value is consumed.  Expression statements and the
    element of a comprehension that is itself an expression statement (`[l.extend(..) for ..]`) are
    exempt because the value is discarded."""
    parents = {}
    for n in ast.walk(fn):
        for c in ast.iter_child_nodes(n):
            parents[id(c)] = n
    out = []
    for n in ast.walk(fn):
        if isinstance(n, ast.Call) and isinstance(n.func, ast.Attribute) and n.func.attr in NONE_RETURNING:
            # skip module-style calls numpy.sort(x) / sort(x): those have a Name func or a module base
            if n.func.attr == "sort" and n.args and not n.keywords and not isinstance(n.func.value, ast.Name):
                pass
            p = parents.get(id(n))
            if isinstance(p, ast.Expr):
                continue
            if isinstance(p, (ast.ListComp, ast.GeneratorExp)) and p.elt is n and isinstance(parents.get(id(p)), ast.Expr):
                continue
            # calls with positional args to .sort on a module alias (np.sort(a)) return values
            base = n.func.value
            if isinstance(base, ast.Name) and base.id in ("np", "numpy", "random"):
                continue
            out.append(n)
    return out


def unraised_exceptions(tree):
    out = []
    for n in ast.walk(tree):
        if isinstance(n, ast.Expr) and isinstance(n.value, ast.Call) and isinstance(n.value.func, ast.Name) \
                and (n.value.func.id.endswith("Error") or n.value.func.id.endswith("Exception")):
            out.append(n)
    return out


def axisless_squeeze_on_return(fn):
    out = []
    for r in ast.walk(fn):
        if isinstance(r, ast.Return) and r.value is not None:
            for n in ast.walk(r.value):
                if isinstance(n, ast.Call) and isinstance(n.func, ast.Attribute) and n.func.attr == "squeeze" \
                        and not n.args and not any(k.arg == "axis" for k in n.keywords):
                    out.append(n)
                elif isinstance(n, ast.Call) and isinstance(n.func, ast.Name) and n.func.id == "squeeze" \
                        and len(n.args) == 1 and not any(k.arg == "axis" for k in n.keywords):
                    out.append(n)
    return out
