"""Engine E1 - attribute typestate: definite assignment along a constructor path and
read-before-assignment closure of an entry method.

Abstract domain for argument values: NONE / NOTNONE / UNKNOWN.  Branch conditions of the
forms `x is None`, `x is not None`, `hasattr(self, "a")`, `not c`, and `isinstance(x, T)`
(unknown unless x is NONE) are decided from the context and the running assigned-set;
any other condition forks and the definitely-assigned sets of the two arms are
intersected.  A `raise` ends the arm (it contributes nothing to the intersection).
"""
from __future__ import annotations
import ast

NONE, NOTNONE, UNKNOWN = "None", "not-None", "unknown"


class CtorResult:
    def __init__(self):
        self.assigned = set()       # attributes definitely assigned
        self.maybe = set()          # assigned on some arm
        self.used_params = set()    # ctor parameters whose value is consumed on the path
        self.trace = []


def abstract_of(node, env):
    if isinstance(node, ast.Constant):
        return NONE if node.value is None else NOTNONE
    if isinstance(node, ast.Name):
        return env.get(node.id, UNKNOWN)
    if isinstance(node, (ast.Call, ast.List, ast.Tuple, ast.Dict, ast.BinOp, ast.JoinedStr, ast.Compare)):
        return NOTNONE
    if isinstance(node, ast.IfExp):
        a, b = abstract_of(node.body, env), abstract_of(node.orelse, env)
        t = decide(node.test, env, set(), "self")
        if t is True:
            return a
        if t is False:
            return b
        return a if a == b else UNKNOWN
    return UNKNOWN


def decide(test, env, assigned, selfname):
    """True / False / None (unknown)."""
    if isinstance(test, ast.UnaryOp) and isinstance(test.op, ast.Not):
        v = decide(test.operand, env, assigned, selfname)
        return None if v is None else (not v)
    if isinstance(test, ast.Compare) and len(test.ops) == 1 and isinstance(test.comparators[0], ast.Constant) \
            and test.comparators[0].value is None and isinstance(test.ops[0], (ast.Is, ast.IsNot)):
        a = abstract_of(test.left, env)
        if a == UNKNOWN:
            return None
        r = (a == NONE)
        return r if isinstance(test.ops[0], ast.Is) else (not r)
    if isinstance(test, ast.Call) and isinstance(test.func, ast.Name) and test.func.id == "hasattr" and len(test.args) == 2 \
            and isinstance(test.args[0], ast.Name) and test.args[0].id == selfname and isinstance(test.args[1], ast.Constant):
        return test.args[1].value in assigned
    if isinstance(test, ast.Call) and isinstance(test.func, ast.Name) and test.func.id == "isinstance" and test.args:
        if abstract_of(test.args[0], env) == NONE:
            # isinstance(None, T) is False unless T mentions type(None)
            return "type(None)" in ast.unparse(test.args[1])
        return None
    if isinstance(test, ast.BoolOp):
        vals = [decide(v, env, assigned, selfname) for v in test.values]
        if isinstance(test.op, ast.And):
            if any(v is False for v in vals):
                return False
            return True if all(v is True for v in vals) else None
        if any(v is True for v in vals):
            return True
        return False if all(v is False for v in vals) else None
    return None


class Typestate:
    def __init__(self, prog):
        self.prog = prog

    # ------------------------------------------------------------ constructor interpretation
    def ctor(self, ci, ctx, method="__init__"):
        """ctx: parameter name -> NONE/NOTNONE/UNKNOWN for the *concrete* class's ctor.
        Unlisted parameters take the abstraction of their default, else NOTNONE."""
        res = CtorResult()
        self._run_ctor(ci, ci, ctx, res, method)
        return res

    def _bind(self, fn, ctx):
        env = {}
        args = fn.args
        pos = args.args[1:]
        defaults = [None] * (len(pos) - len(args.defaults)) + list(args.defaults)
        for a, d in zip(pos, defaults):
            if a.arg in ctx:
                env[a.arg] = ctx[a.arg]
            elif d is not None:
                env[a.arg] = abstract_of(d, {})
            else:
                env[a.arg] = NOTNONE
        for a, d in zip(args.kwonlyargs, args.kw_defaults):
            if a.arg in ctx:
                env[a.arg] = ctx[a.arg]
            elif d is not None:
                env[a.arg] = abstract_of(d, {})
            else:
                env[a.arg] = NOTNONE
        return env

    def _run_ctor(self, concrete, ci, ctx, res, method):
        c, fn = self.prog.find_method(ci, method)
        if fn is None:
            return
        env = self._bind(fn, ctx)
        selfname = fn.args.args[0].arg
        extra_kwargs = {k: v for k, v in ctx.items() if k not in env}     # flows through **kwargs
        st = _State(set(res.assigned), set(res.maybe), set(res.used_params))
        out = self._block(fn.body, env, st, selfname, concrete, c, extra_kwargs, ctx, fn)
        if out is not None:
            res.assigned = out.assigned
            res.maybe = out.maybe
            res.used_params = out.used

    def _block(self, stmts, env, st, selfname, concrete, c, extra_kwargs, ctx, fn):
        for s in stmts:
            st = self._stmt(s, env, st, selfname, concrete, c, extra_kwargs, ctx, fn)
            if st is None:
                return None
        return st

    def _stmt(self, s, env, st, selfname, concrete, c, extra_kwargs, ctx, fn):
        params = set(env)
        if isinstance(s, ast.If):
            d = decide(s.test, env, st.assigned, selfname)
            if d is True:
                return self._block(s.body, env, st, selfname, concrete, c, extra_kwargs, ctx, fn)
            if d is False:
                return self._block(s.orelse, env, st, selfname, concrete, c, extra_kwargs, ctx, fn)
            _use(s.test, params, st)
            e1, e2 = dict(env), dict(env)
            a = self._block(s.body, e1, st.copy(), selfname, concrete, c, extra_kwargs, ctx, fn)
            b = self._block(s.orelse, e2, st.copy(), selfname, concrete, c, extra_kwargs, ctx, fn)
            if a is None and b is None:
                return None
            if a is None:
                env.update(e2)
                return b
            if b is None:
                env.update(e1)
                return a
            for k in set(e1) | set(e2):
                env[k] = e1.get(k) if e1.get(k) == e2.get(k) else UNKNOWN
            return _State(a.assigned & b.assigned, a.maybe | b.maybe, a.used | b.used)
        if isinstance(s, ast.Raise):
            return None
        if isinstance(s, (ast.For, ast.While)):
            # body may run zero times: assignments inside are not definite
            inner = self._block(s.body, dict(env), st.copy(), selfname, concrete, c, extra_kwargs, ctx, fn)
            if isinstance(s, ast.For):
                _use(s.iter, params, st)
            if inner is not None:
                st.maybe |= inner.maybe
                st.used |= inner.used
            return st
        if isinstance(s, ast.Try):
            return self._block(s.body, env, st, selfname, concrete, c, extra_kwargs, ctx, fn)
        if isinstance(s, ast.Expr):
            call = s.value
            if isinstance(call, ast.Call) and ast.unparse(call.func).endswith(".__init__") \
                    and ast.unparse(call.func).startswith("super("):
                # constructor chaining: bind explicit args, pass *args/**kwargs through
                mro = self.prog.mro(c)
                if len(mro) > 1:
                    parent = mro[1]
                    pc, pfn = self.prog.find_method(parent, "__init__")
                    if pfn is not None:
                        pctx = {}
                        pparams = [a.arg for a in pfn.args.args[1:]]
                        for i, a in enumerate(call.args):
                            if isinstance(a, ast.Starred):
                                continue
                            if i < len(pparams):
                                pctx[pparams[i]] = abstract_of(a, env)
                                _use(a, params, st)
                        for k in call.keywords:
                            if k.arg is None:
                                pctx.update(extra_kwargs)
                                # positional ctx entries of the concrete call that the child did not name
                                for kk, vv in ctx.items():
                                    if kk in pparams and kk not in pctx and kk not in env:
                                        pctx[kk] = vv
                            else:
                                pctx[k.arg] = abstract_of(k.value, env)
                                _use(k.value, params, st)
                        sub = CtorResult()
                        sub.assigned, sub.maybe, sub.used_params = set(st.assigned), set(st.maybe), set()
                        self._run_ctor(concrete, parent, pctx, sub, "__init__")
                        st.assigned, st.maybe = sub.assigned, sub.maybe
                        # parameters consumed upstream count as used when they were forwarded
                        for k in sub.used_params:
                            st.used.add(k)
                return st
            if isinstance(call, ast.Call) and isinstance(call.func, ast.Name) and call.func.id == "setattr":
                if len(call.args) == 3 and isinstance(call.args[1], ast.Constant):
                    st.assigned.add(call.args[1].value)
                    st.maybe.add(call.args[1].value)
            _use(s.value, params, st)
            return st
        if isinstance(s, (ast.Assign, ast.AnnAssign, ast.AugAssign)):
            value = s.value
            targets = s.targets if isinstance(s, ast.Assign) else [s.target]
            if value is not None:
                stores_self = any(_self_attr_targets(t, selfname) for t in targets)
                _use(value, params, st, only_if=True)
                for t in targets:
                    for a in _self_attr_targets(t, selfname):
                        st.assigned.add(a)
                        st.maybe.add(a)
                    if isinstance(t, ast.Name):
                        env[t.id] = abstract_of(value, env)
            return st
        if isinstance(s, ast.Return):
            return st
        if isinstance(s, ast.Assert):
            _use(s.test, params, st)
            return st
        return st

    # ------------------------------------------------------------ reads of an entry
    def reads(self, ci, mname, depth=4, _seen=None, assigned=None):
        """Attributes of self read (before being assigned at top level of the same method) by mname
        and everything it calls on self.  Returns dict attr -> (class, method, lineno) of first read."""
        out = {}
        _seen = _seen if _seen is not None else set()
        if (ci.name, mname) in _seen or depth < 0:
            return out
        _seen.add((ci.name, mname))
        c, fn = self.prog.find_method(ci, mname)
        if fn is None:
            return out
        if not fn.args.args:
            return out
        if any(ast.unparse(d) in ("staticmethod", "classmethod") for d in fn.decorator_list):
            return out
        selfname = fn.args.args[0].arg
        local_assigned = set(assigned or ())
        self._reads_block(fn.body, ci, c, fn, selfname, local_assigned, set(), out, depth, _seen, top=True)
        return out

    def _reads_block(self, stmts, ci, c, fn, selfname, assigned, guarded, out, depth, seen, top):
        for s in stmts:
            if isinstance(s, ast.If):
                g = set(guarded)
                t = s.test
                if isinstance(t, ast.Call) and isinstance(t.func, ast.Name) and t.func.id == "hasattr" \
                        and len(t.args) == 2 and isinstance(t.args[1], ast.Constant):
                    g.add(t.args[1].value)
                else:
                    self._reads_expr(t, ci, c, fn, selfname, assigned, guarded, out, depth, seen)
                self._reads_block(s.body, ci, c, fn, selfname, set(assigned), g, out, depth, seen, False)
                self._reads_block(s.orelse, ci, c, fn, selfname, set(assigned), guarded, out, depth, seen, False)
                continue
            if isinstance(s, (ast.For, ast.While)):
                self._reads_expr(s.iter if isinstance(s, ast.For) else s.test, ci, c, fn, selfname, assigned,
                                 guarded, out, depth, seen)
                self._reads_block(s.body, ci, c, fn, selfname, set(assigned), guarded, out, depth, seen, False)
                self._reads_block(s.orelse, ci, c, fn, selfname, set(assigned), guarded, out, depth, seen, False)
                continue
            if isinstance(s, ast.Try):
                self._reads_block(s.body, ci, c, fn, selfname, assigned, guarded, out, depth, seen, top)
                for h in s.handlers:
                    self._reads_block(h.body, ci, c, fn, selfname, set(assigned), guarded, out, depth, seen, False)
                continue
            if isinstance(s, ast.Assign):
                self._reads_expr(s.value, ci, c, fn, selfname, assigned, guarded, out, depth, seen)
                for t in s.targets:
                    for a in _self_attr_targets(t, selfname):
                        assigned.add(a)
                    # subscript stores read the attribute
                    if not _self_attr_targets(t, selfname):
                        self._reads_expr(t, ci, c, fn, selfname, assigned, guarded, out, depth, seen)
                continue
            if isinstance(s, ast.AugAssign):
                self._reads_expr(s.value, ci, c, fn, selfname, assigned, guarded, out, depth, seen)
                self._reads_expr(_load(s.target), ci, c, fn, selfname, assigned, guarded, out, depth, seen)
                continue
            for child in ast.iter_child_nodes(s):
                if isinstance(child, ast.expr):
                    self._reads_expr(child, ci, c, fn, selfname, assigned, guarded, out, depth, seen)

    def _reads_expr(self, e, ci, c, fn, selfname, assigned, guarded, out, depth, seen):
        if e is None:
            return
        for n in ast.walk(e):
            if isinstance(n, ast.Attribute) and isinstance(n.value, ast.Name) and n.value.id == selfname \
                    and isinstance(n.ctx, ast.Load):
                a = n.attr
                # a method / property of the class is always defined
                m = a
                if a.startswith("__") and not a.endswith("__"):
                    m = a
                cc, mfn = self.prog.find_method(ci, m)
                if mfn is None and a.startswith("__") and not a.endswith("__"):
                    cc, mfn = self.prog.find_method(c, a)
                if mfn is not None:
                    continue
                if a in assigned or a in guarded:
                    continue
                out.setdefault(a, (c.name, fn.name, n.lineno))
        # calls on self: descend
        for n in ast.walk(e):
            if isinstance(n, ast.Call) and isinstance(n.func, ast.Attribute) and isinstance(n.func.value, ast.Name) \
                    and n.func.value.id == selfname:
                m = n.func.attr
                target_ci = ci
                cc, mfn = self.prog.find_method(ci, m)
                if mfn is None and m.startswith("__") and not m.endswith("__"):
                    cc, mfn = self.prog.find_method(c, m)
                    target_ci = ci
                    if mfn is not None:
                        sub = self._reads_private(ci, cc, mfn, depth - 1, seen, assigned)
                        for k, v in sub.items():
                            if k not in guarded:
                                out.setdefault(k, v)
                        continue
                if mfn is not None:
                    sub = self.reads(ci, m, depth - 1, seen, assigned)
                    for k, v in sub.items():
                        if k not in guarded:
                            out.setdefault(k, v)
                else:
                    for sc, sm in self.prog.slot_targets(ci, m)[0]:
                        sub = self.reads(ci, sm.name, depth - 1, seen, assigned)
                        for k, v in sub.items():
                            if k not in guarded:
                                out.setdefault(k, v)

    def _reads_private(self, ci, cc, fn, depth, seen, assigned):
        out = {}
        key = (cc.name, fn.name)
        if key in seen or depth < 0:
            return out
        seen.add(key)
        selfname = fn.args.args[0].arg if fn.args.args else "self"
        if any(ast.unparse(d) in ("staticmethod", "classmethod") for d in fn.decorator_list):
            return out
        self._reads_block(fn.body, ci, cc, fn, selfname, set(assigned or ()), set(), out, depth, seen, True)
        return out

    # ------------------------------------------------------------ class-level names
    def class_level(self, ci):
        names = set()
        for c in self.prog.mro(ci):
            for st in c.node.body:
                if isinstance(st, ast.Assign):
                    for t in st.targets:
                        if isinstance(t, ast.Name):
                            names.add(t.id)
                elif isinstance(st, ast.FunctionDef):
                    names.add(st.name)
        return names

    # ------------------------------------------------------------ attributes written by a method closure
    def writes(self, ci, mname, depth=4, _seen=None):
        """Attributes assigned or mutated in place by mname and its self-callees."""
        out = {}
        _seen = _seen if _seen is not None else set()
        if (ci.name, mname) in _seen or depth < 0:
            return out
        _seen.add((ci.name, mname))
        c, fn = self.prog.find_method(ci, mname)
        if fn is None and mname.startswith("__"):
            for cc in self.prog.mro(ci):
                if mname in cc.methods:
                    c, fn = cc, cc.methods[mname]
        if fn is None or not fn.args.args:
            return out
        selfname = fn.args.args[0].arg
        for n in ast.walk(fn):
            if isinstance(n, (ast.Assign, ast.AugAssign, ast.AnnAssign)):
                targets = n.targets if isinstance(n, ast.Assign) else [n.target]
                for t in targets:
                    for tt in _flatten(t):
                        base = tt
                        while isinstance(base, ast.Subscript):
                            base = base.value
                        if isinstance(base, ast.Attribute) and isinstance(base.value, ast.Name) and base.value.id == selfname:
                            out.setdefault(base.attr, (c.name, fn.name, n.lineno))
            if isinstance(n, ast.Call) and isinstance(n.func, ast.Attribute):
                f = n.func
                if f.attr in ("append", "extend", "insert", "sort", "resize", "fill", "pop", "clear"):
                    base = f.value
                    while isinstance(base, ast.Subscript):
                        base = base.value
                    if isinstance(base, ast.Attribute) and isinstance(base.value, ast.Name) and base.value.id == selfname:
                        out.setdefault(base.attr, (c.name, fn.name, n.lineno))
                if isinstance(f.value, ast.Name) and f.value.id == selfname:
                    for k, v in self.writes(ci, f.attr, depth - 1, _seen).items():
                        out.setdefault(k, v)
                    if self.prog.find_method(ci, f.attr)[1] is None:
                        for sc, sm in self.prog.slot_targets(ci, f.attr)[0]:
                            for k, v in self.writes(ci, sm.name, depth - 1, _seen).items():
                                out.setdefault(k, v)
        return out


class _State:
    def __init__(self, assigned, maybe, used):
        self.assigned, self.maybe, self.used = assigned, maybe, used

    def copy(self):
        return _State(set(self.assigned), set(self.maybe), set(self.used))


def _use(expr, params, st, only_if=True):
    for n in ast.walk(expr):
        if isinstance(n, ast.Name) and n.id in params and isinstance(n.ctx, ast.Load):
            st.used.add(n.id)


def _flatten(t):
    if isinstance(t, (ast.Tuple, ast.List)):
        for e in t.elts:
            yield from _flatten(e)
    else:
        yield t


def _self_attr_targets(t, selfname):
    out = []
    for tt in _flatten(t):
        if isinstance(tt, ast.Attribute) and isinstance(tt.value, ast.Name) and tt.value.id == selfname:
            out.append(tt.attr)
    return out


def _load(t):
    import copy
    t2 = copy.deepcopy(t)
    for n in ast.walk(t2):
        if hasattr(n, "ctx"):
            n.ctx = ast.Load()
    return t2
