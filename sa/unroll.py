"""Syntactic unrolling of counted loops for a fixed instance size.

Some properties quantify over the number of components (kernels of a change-point covariance).  The generic-iteration view of a
loop ("one iteration stands for all") cannot see a factor that links *neighbouring* iterations.  For those rules the method body is
specialised to a small concrete size (e.g. three kernels = two change-points): `for i in range(E)` with E evaluable from the given
constants is replaced by its iterations with the loop variable substituted by a literal, comprehensions / generators over such a
range become list literals, and `for v in <attr>` over an attribute of known length k becomes k copies with v replaced by
`<attr>[j]`.  Integer arithmetic on literals is folded.  The result is straight-line code the algebraic expander can run exactly.
Nothing is executed; the size chosen is stated in the obligation (it is an instance, not a proof for all sizes).
"""
from __future__ import annotations
import ast
import copy


class _Fold(ast.NodeTransformer):
    def __init__(self, consts):
        self.consts = consts          # text of an expression -> int

    def visit_BinOp(self, n):
        self.generic_visit(n)
        if isinstance(n.left, ast.Constant) and isinstance(n.right, ast.Constant) and isinstance(n.left.value, int) \
                and isinstance(n.right.value, int) and not isinstance(n.left.value, bool):
            a, b = n.left.value, n.right.value
            v = {ast.Add: a + b, ast.Sub: a - b, ast.Mult: a * b}.get(type(n.op))
            if v is None and isinstance(n.op, ast.FloorDiv) and b != 0:
                v = a // b
            if v is not None:
                return ast.copy_location(ast.Constant(value=v), n)
        return n

    def visit_UnaryOp(self, n):
        self.generic_visit(n)
        if isinstance(n.op, ast.USub) and isinstance(n.operand, ast.Constant) and isinstance(n.operand.value, int) \
                and not isinstance(n.operand.value, bool):
            return ast.copy_location(ast.Constant(value=-n.operand.value), n)
        return n

    def visit_Compare(self, n):
        self.generic_visit(n)
        if len(n.ops) == 1 and isinstance(n.left, ast.Constant) and isinstance(n.comparators[0], ast.Constant) \
                and isinstance(n.left.value, int) and isinstance(n.comparators[0].value, int):
            a, b = n.left.value, n.comparators[0].value
            v = {ast.Lt: a < b, ast.LtE: a <= b, ast.Gt: a > b, ast.GtE: a >= b, ast.Eq: a == b, ast.NotEq: a != b}.get(type(n.ops[0]))
            if v is not None:
                return ast.copy_location(ast.Constant(value=v), n)
        return n

    def visit_Attribute(self, n):
        self.generic_visit(n)
        t = ast.unparse(n)
        if t in self.consts and isinstance(n.ctx, ast.Load):
            return ast.copy_location(ast.Constant(value=self.consts[t]), n)
        return n

    def visit_Call(self, n):
        self.generic_visit(n)
        t = ast.unparse(n)
        if t in self.consts:
            return ast.copy_location(ast.Constant(value=self.consts[t]), n)
        return n


class _Sub(ast.NodeTransformer):
    def __init__(self, name, repl):
        self.name, self.repl = name, repl

    def visit_Name(self, n):
        if n.id == self.name and isinstance(n.ctx, ast.Load):
            return copy.deepcopy(self.repl)
        return n


def _range_count(it):
    if isinstance(it, ast.Call) and isinstance(it.func, ast.Name) and it.func.id == "range" and len(it.args) == 1 \
            and isinstance(it.args[0], ast.Constant) and isinstance(it.args[0].value, int):
        return it.args[0].value
    return None


class _Unroll(ast.NodeTransformer):
    def __init__(self, consts, lengths):
        self.consts, self.lengths = consts, lengths      # lengths: text of an iterable attribute -> number of elements

    def _iterations(self, target, it):
        """[substitution transformer per iteration] or None"""
        n = _range_count(it)
        if n is not None and isinstance(target, ast.Name):
            return [_Sub(target.id, ast.Constant(value=k)) for k in range(n)]
        t = ast.unparse(it)
        if t in self.lengths and isinstance(target, ast.Name):
            return [_Sub(target.id, ast.Subscript(value=copy.deepcopy(it), slice=ast.Constant(value=k), ctx=ast.Load()))
                    for k in range(self.lengths[t])]
        return None

    def visit_For(self, st):
        st.iter = _Fold(self.consts).visit(st.iter)
        subs = self._iterations(st.target, st.iter)
        if subs is None or st.orelse:
            self.generic_visit(st)
            return st
        out = []
        for s in subs:
            for b in st.body:
                nb = _Fold(self.consts).visit(s.visit(copy.deepcopy(b)))
                r = self.visit(nb)
                out.extend(r if isinstance(r, list) else [r])
        return out

    def visit_If(self, st):
        st.test = _Fold(self.consts).visit(st.test)
        if isinstance(st.test, ast.Constant) and isinstance(st.test.value, bool):
            out = []
            for b in (st.body if st.test.value else st.orelse):
                r = self.visit(b)
                out.extend(r if isinstance(r, list) else [r])
            return out or [ast.copy_location(ast.Pass(), st)]
        self.generic_visit(st)
        return st

    def _comp(self, n):
        if len(n.generators) != 1 or n.generators[0].ifs:
            self.generic_visit(n)
            return n
        g = n.generators[0]
        g.iter = _Fold(self.consts).visit(g.iter)
        subs = self._iterations(g.target, g.iter)
        if subs is None:
            self.generic_visit(n)
            return n
        elts = [self.visit(_Fold(self.consts).visit(s.visit(copy.deepcopy(n.elt)))) for s in subs]
        return ast.copy_location(ast.List(elts=elts, ctx=ast.Load()), n)

    visit_ListComp = _comp
    visit_GeneratorExp = _comp


def specialise(fn, consts, lengths):
    """A deep copy of the FunctionDef `fn`, unrolled for the given constants ({"self.n_kernels": 3}) and iterable lengths
    ({"self.cp_slc": 2})."""
    f2 = copy.deepcopy(fn)
    f2 = _Fold(consts).visit(f2)
    body = []
    for st in f2.body:
        r = _Unroll(consts, lengths).visit(st)
        body.extend(r if isinstance(r, list) else [r])
    f2.body = body
    return ast.fix_missing_locations(f2)
