"""Engine A - program model: modules, imports, classes, MRO, attribute facts.

Everything is derived from an in-memory map  path -> ast.Module  so that the
self-test can swap one module for an edited copy without touching the disk.
"""
from __future__ import annotations
import ast, os, copy
from .report import REPO, AnalysisError
from .canon import canonicalise_program, accumulate_to_comprehension, accumulate_to_sum

PKG = "inference"


# -------------------------------------------------------------------- local-name normalisation
# Several structural rules look definitions up by the local variable names the repository uses.  To keep
# their verdict independent of a pure renaming of locals, the names of each function's locals are mapped
# back, by order of first binding, to the names recorded for that function in sa/reference_locals.json -
# only when the *number* of locals is unchanged and the names differ; otherwise the function is left as is.
REFERENCE_LOCALS = os.path.join(os.path.dirname(os.path.abspath(__file__)), "reference_locals.json")
_ref_cache = {}


def _reference_locals():
    if "v" not in _ref_cache:
        try:
            import json
            _ref_cache["v"] = json.load(open(REFERENCE_LOCALS))
        except Exception:
            _ref_cache["v"] = {}
    return _ref_cache["v"]


def function_locals(fn):
    """Local names of fn in order of first binding (source order); nested defs are separate scopes."""
    params = {a.arg for a in fn.args.posonlyargs + fn.args.args + fn.args.kwonlyargs}
    if fn.args.vararg:
        params.add(fn.args.vararg.arg)
    if fn.args.kwarg:
        params.add(fn.args.kwarg.arg)
    declared, order = set(), []

    def visit(n):
        if isinstance(n, (ast.FunctionDef, ast.ClassDef)) and n is not fn:
            return
        if isinstance(n, (ast.Global, ast.Nonlocal)):
            declared.update(n.names)
        if isinstance(n, ast.Lambda):
            return
        if isinstance(n, ast.Name) and isinstance(n.ctx, ast.Store) and n.id not in params and n.id not in order:
            order.append(n.id)
        # evaluation order: the value of an assignment is visited before its targets would not matter here
        for c in ast.iter_child_nodes(n):
            visit(c)
    for st in fn.body:
        visit(st)
    return [x for x in order if x not in declared]


def iter_functions(tree, prefix=""):
    for st in tree.body if hasattr(tree, "body") else []:
        if isinstance(st, ast.FunctionDef):
            yield prefix + st.name + ("#setter" if any(ast.unparse(d).endswith(".setter") for d in st.decorator_list) else ""), st
        elif isinstance(st, ast.ClassDef):
            yield from iter_functions(st, prefix + st.name + ".")


def _align(have, want):
    """Longest common subsequence alignment of two name lists -> list of (have_index or None, want_index or None)."""
    n, m = len(have), len(want)
    L = [[0] * (m + 1) for _ in range(n + 1)]
    for i in range(n - 1, -1, -1):
        for j in range(m - 1, -1, -1):
            L[i][j] = L[i + 1][j + 1] + 1 if have[i] == want[j] else max(L[i + 1][j], L[i][j + 1])
    i = j = 0
    out = []
    while i < n and j < m:
        if have[i] == want[j]:
            out.append((i, j))
            i += 1
            j += 1
        elif L[i + 1][j] >= L[i][j + 1]:
            out.append((i, None))
            i += 1
        else:
            out.append((None, j))
            j += 1
    out += [(k, None) for k in range(i, n)] + [(None, k) for k in range(j, m)]
    return out


def normalise_locals(tree, rel):
    """P6: map renamed locals back to the reference names.  Names that are unchanged anchor the alignment; between two anchors a
    run of k unknown names opposite a run of k missing reference names is a renaming, position by position."""
    ref = _reference_locals().get(rel)
    if not ref:
        return 0
    renamed = 0
    for qn, fn in iter_functions(tree):
        want = ref.get(qn)
        have = function_locals(fn)
        if not want or want == have:
            continue
        al = _align(have, want)
        mapping = {}
        k = 0
        while k < len(al):
            if al[k][0] is not None and al[k][1] is not None:
                k += 1
                continue
            run_h, run_w = [], []
            while k < len(al) and not (al[k][0] is not None and al[k][1] is not None):
                if al[k][0] is not None:
                    run_h.append(have[al[k][0]])
                if al[k][1] is not None:
                    run_w.append(want[al[k][1]])
                k += 1
            if len(run_h) == len(run_w):
                mapping.update({h: w for h, w in zip(run_h, run_w)})
        mapping = {h: w for h, w in mapping.items() if h != w and w not in have}
        if not mapping:
            continue
        # never rename onto a name that is otherwise used in the function (parameter / global)
        used = {n.id for n in ast.walk(fn) if isinstance(n, ast.Name)} | {a.arg for a in fn.args.args}
        mapping = {h: w for h, w in mapping.items() if w not in used}
        for n in ast.walk(fn):
            if isinstance(n, ast.Name) and n.id in mapping:
                n.id = mapping[n.id]
                renamed += 1
    return renamed


# -------------------------------------------------------------------- temporaries that the reference does not have
# A local that is not among the function's recorded locals, is bound once by a plain assignment and read once, in the
# very next statement, at a position evaluated exactly once, is a mere name for a sub-expression: it is written back
# in place before the rules look at the function.  (Single use: no aliasing is lost.  Adjacent: no call is moved
# across another statement.)  Everything else is left as it is.
def _once_positions(st):
    """Expression roots of statement st that are evaluated exactly once, unconditionally, when st starts."""
    if isinstance(st, (ast.Assign, ast.AnnAssign, ast.AugAssign, ast.Return, ast.Expr)):
        roots = [st.value] if getattr(st, "value", None) is not None else []
        for t in (st.targets if isinstance(st, ast.Assign) else [getattr(st, "target", None)]):
            if isinstance(t, (ast.Subscript, ast.Attribute)):
                roots.append(t)
        return roots
    if isinstance(st, ast.For):
        return [st.iter]
    if isinstance(st, ast.If):
        return [st.test]
    if isinstance(st, ast.With):
        return [i.context_expr for i in st.items]
    if isinstance(st, ast.Raise):
        return [x for x in (st.exc, st.cause) if x is not None]
    if isinstance(st, ast.Assert):
        return [st.test]
    return []


def _find_once(root, name):
    """The single Load of `name` under root if it sits at an evaluated-once position, else None."""
    found = []

    def visit(n, ok):
        if isinstance(n, ast.Name) and n.id == name and isinstance(n.ctx, ast.Load):
            found.append((n, ok))
            return
        if isinstance(n, ast.Lambda):
            for c in ast.iter_child_nodes(n):
                visit(c, False)
            return
        if isinstance(n, (ast.ListComp, ast.SetComp, ast.GeneratorExp, ast.DictComp)):
            for k, g in enumerate(n.generators):
                visit(g.iter, ok and k == 0)
                for i in g.ifs:
                    visit(i, False)
                visit(g.target, False)
            for f in ("elt", "key", "value"):
                if hasattr(n, f):
                    visit(getattr(n, f), False)
            return
        if isinstance(n, ast.IfExp):
            visit(n.test, ok)
            visit(n.body, False)
            visit(n.orelse, False)
            return
        if isinstance(n, ast.BoolOp):
            for k, v in enumerate(n.values):
                visit(v, ok and k == 0)
            return
        for c in ast.iter_child_nodes(n):
            visit(c, ok)
    visit(root, True)
    return found


def _inline_attribute_aliases(fn, new_names):
    """A new local bound once to a plain attribute path of self (`rng = self.rng`, `gp = self.gp`) that the function never
    re-assigns is that attribute under another name: every use is written back."""
    n = 0
    if not fn.args.args:
        return 0
    sn = fn.args.args[0].arg
    stores = {}
    for x in ast.walk(fn):
        if isinstance(x, ast.Name) and isinstance(x.ctx, (ast.Store, ast.Del)):
            stores[x.id] = stores.get(x.id, 0) + 1
    attr_stores = {ast.unparse(t) for x in ast.walk(fn) if isinstance(x, (ast.Assign, ast.AugAssign, ast.AnnAssign))
                   for t in (x.targets if isinstance(x, ast.Assign) else [x.target]) for t in [t] if isinstance(t, ast.Attribute)}

    def process(body):
        nonlocal n
        i = 0
        while i < len(body):
            st = body[i]
            for arm in ("body", "orelse", "finalbody"):
                sub = getattr(st, arm, None)
                if isinstance(sub, list) and sub and isinstance(sub[0], ast.stmt) and not isinstance(st, (ast.FunctionDef, ast.ClassDef)):
                    process(sub)
            if isinstance(st, ast.Assign) and len(st.targets) == 1 and isinstance(st.targets[0], ast.Name) \
                    and st.targets[0].id in new_names and stores.get(st.targets[0].id) == 1:
                v = st.value
                b = v
                depth = 0
                while isinstance(b, ast.Attribute):
                    b = b.value
                    depth += 1
                if depth >= 1 and isinstance(b, ast.Name) and b.id == sn and ast.unparse(v) not in attr_stores \
                        and not any(ast.unparse(v).startswith(a + ".") or a.startswith(ast.unparse(v) + ".") for a in attr_stores):
                    name = st.targets[0].id

                    class Sub(ast.NodeTransformer):
                        def visit_Name(self, x):
                            return copy.deepcopy(v) if x.id == name and isinstance(x.ctx, ast.Load) else x
                    for other in ast.walk(fn):
                        pass
                    # substitute in every statement of the function (the alias is never re-bound)
                    for holder in ast.walk(fn):
                        for f_, val in list(ast.iter_fields(holder)):
                            if isinstance(val, ast.expr) and holder is not st:
                                setattr(holder, f_, Sub().visit(val))
                            elif isinstance(val, list) and val and isinstance(val[0], ast.expr):
                                setattr(holder, f_, [Sub().visit(e) for e in val])
                    del body[i]
                    n += 1
                    continue
            i += 1
    process(fn.body)
    return n


def inline_new_temps(tree, rel):
    ref = _reference_locals().get(rel)
    if not ref:
        return 0
    total = 0
    for qn, fn in iter_functions(tree):
        if qn in ("__all__", "__params__"):
            continue
        want = ref.get(qn) or []          # functions without locals are not listed
        have = function_locals(fn)
        new = [h for h in have if h not in want]
        if new and len(have) > len(want):
            total += _inline_attribute_aliases(fn, set(new))
            have = function_locals(fn)
            new = [h for h in have if h not in want]
        if not new or len(have) <= len(want):
            continue                          # nothing added (a pure renaming is P6's business)
        changed = True
        budget = [len(have) - len(want)]      # inline at most as many temporaries as were added
        while changed and budget[0] > 0:
            changed = False
            stores, loads = {}, {}
            for n in ast.walk(fn):
                if isinstance(n, ast.Name):
                    d = stores if isinstance(n.ctx, (ast.Store, ast.Del)) else loads
                    d[n.id] = d.get(n.id, 0) + 1
            cands = {n for n in new if stores.get(n) == 1 and loads.get(n) == 1}
            if not cands:
                break

            def process(body):
                nonlocal changed
                i = 0
                while i < len(body):
                    st = body[i]
                    for arm in ("body", "orelse", "finalbody"):
                        sub = getattr(st, arm, None)
                        if isinstance(sub, list) and sub and isinstance(sub[0], ast.stmt) and not isinstance(st, (ast.FunctionDef, ast.ClassDef)):
                            process(sub)
                    for h in getattr(st, "handlers", []) or []:
                        process(h.body)
                    if isinstance(st, ast.Assign) and len(st.targets) == 1 and isinstance(st.targets[0], ast.Name) \
                            and st.targets[0].id in cands and i + 1 < len(body) and budget[0] > 0:
                        name, nxt = st.targets[0].id, body[i + 1]
                        hits = [h for root in _once_positions(nxt) for h in _find_once(root, name)]
                        if len(hits) == 1 and hits[0][1]:
                            val = st.value

                            class Sub(ast.NodeTransformer):
                                def visit_Name(self, x):
                                    return val if x.id == name and isinstance(x.ctx, ast.Load) else x
                            for f, v in list(ast.iter_fields(nxt)):
                                if isinstance(v, ast.expr):
                                    setattr(nxt, f, Sub().visit(v))
                                elif isinstance(v, list) and v and isinstance(v[0], ast.expr):
                                    setattr(nxt, f, [Sub().visit(x) for x in v])
                                elif isinstance(v, list) and v and isinstance(v[0], ast.withitem):
                                    for wi in v:
                                        wi.context_expr = Sub().visit(wi.context_expr)
                            del body[i]
                            cands.discard(name)
                            budget[0] -= 1
                            changed = True
                            nonlocal_total[0] += 1
                            continue
                    i += 1
            nonlocal_total = [0]
            process(fn.body)
            total += nonlocal_total[0]
    return total


class ClassInfo:
    def __init__(self, name, module, node):
        self.name = name
        self.module = module          # ModuleInfo
        self.node = node
        self.methods = {}             # name -> FunctionDef (own only)
        self.class_attrs = set()      # names assigned / annotated at class level
        for st in node.body:
            if isinstance(st, (ast.FunctionDef,)):
                # property setters share the name; keep getter under name, setter under name.setter
                deco = [ast.unparse(d) for d in st.decorator_list]
                if any(d.endswith(".setter") for d in deco):
                    self.methods[st.name + ".setter"] = st
                else:
                    self.methods[st.name] = st
            elif isinstance(st, ast.AnnAssign) and isinstance(st.target, ast.Name):
                self.class_attrs.add(st.target.id)
            elif isinstance(st, ast.Assign):
                for t in st.targets:
                    if isinstance(t, ast.Name):
                        self.class_attrs.add(t.id)
        self.base_names = [ast.unparse(b) for b in node.bases]

    @property
    def qname(self):
        return f"{self.module.name}.{self.name}"

    def __repr__(self):
        return f"<class {self.qname}>"


class ModuleInfo:
    def __init__(self, name, path, relpath, tree):
        self.name = name
        self.path = path
        self.relpath = relpath
        self.tree = tree
        self.imports = {}     # local name -> qualified name
        self.functions = {}   # name -> FunctionDef
        self.classes = {}     # name -> ClassInfo
        self.globals = {}     # name -> value expr (module-level simple assigns)
        for st in tree.body:
            if isinstance(st, ast.Import):
                for a in st.names:
                    self.imports[a.asname or a.name.split(".")[0]] = a.name if a.asname else a.name.split(".")[0]
            elif isinstance(st, ast.ImportFrom):
                mod = st.module or ""
                for a in st.names:
                    self.imports[a.asname or a.name] = f"{mod}.{a.name}"
            elif isinstance(st, ast.FunctionDef):
                self.functions[st.name] = st
            elif isinstance(st, ast.ClassDef):
                self.classes[st.name] = ClassInfo(st.name, self, st)
            elif isinstance(st, ast.Assign) and len(st.targets) == 1 and isinstance(st.targets[0], ast.Name):
                self.globals[st.targets[0].id] = st.value


class Program:
    def __init__(self, trees: dict, root: str, raw: bool = False):
        self.root = root
        self._raw = raw
        self.trees = trees            # relpath -> ast.Module
        self.modules = {}             # dotted name -> ModuleInfo
        self.by_rel = {}
        known_by_rel = {}
        for rel in trees:
            known = (_reference_locals().get(rel) or {}).get("__all__")
            known_by_rel[rel] = set(known) if known is not None else None
        params_by_rel = {rel: (_reference_locals().get(rel) or {}).get("__params__") for rel in trees}
        if not raw:
            canonicalise_program(trees, known_by_rel, params_by_rel)
        for rel, tree in trees.items():
            if not raw:
                inline_new_temps(tree, rel)
                if accumulate_to_comprehension(tree) + accumulate_to_sum(tree):
                    inline_new_temps(tree, rel)       # a list / total that is now bound once may be a single-use temporary
                normalise_locals(tree, rel)
            name = rel[:-3].replace("/", ".")
            if name.endswith(".__init__"):
                name = name[: -len(".__init__")]
            mi = ModuleInfo(name, os.path.join(root, rel), rel, tree)
            self.modules[name] = mi
            self.by_rel[rel] = mi
        self.classes = {}
        for mi in self.modules.values():
            for ci in mi.classes.values():
                self.classes.setdefault(ci.name, ci)   # class names are unique in this repo
        # functions that still carry residue of the normalisation: locals of an inlined helper that could not be folded
        # back, or a call to a function the reference does not know and that could not be inlined.  A failing obligation
        # located in such a function is reported as "verdict withheld" (exit 2), not as a violation (see sa/report.py).
        self.residue = {}
        for rel, mi in self.by_rel.items():
            known = known_by_rel.get(rel)
            unknown = set()
            if known is not None:
                unknown = {qn.split(".")[-1] for qn, _ in iter_functions(mi.tree) if qn not in known}
            for qn, fn in iter_functions(mi.tree):
                why = None
                if any(isinstance(n, ast.Name) and "__h" in n.id for n in ast.walk(fn)):
                    why = "locals of an inlined helper remain"
                elif any(isinstance(n, ast.FunctionDef) and n is not fn for n in ast.walk(fn)) and not rel.endswith("plotting.py") \
                        and "plot" not in fn.name:
                    why = "defines a nested function that could not be lifted out"
                else:
                    for n in ast.walk(fn):
                        if isinstance(n, ast.Call):
                            nm = n.func.attr if isinstance(n.func, ast.Attribute) else n.func.id if isinstance(n.func, ast.Name) else None
                            if nm in unknown and nm != fn.name:
                                why = f"calls `{nm}`, a function the reference snapshot does not know and that could not be inlined"
                                break
                if why and not raw:
                    self.residue[f"{mi.name}.{qn}"] = why

    # ---------------------------------------------------------------- loading
    @classmethod
    def load(cls, root=None):
        root = root or REPO
        pkg = os.path.join(root, PKG)
        if not os.path.isdir(pkg):
            raise AnalysisError(f"package directory {pkg} not found")
        trees = {}
        for dp, dn, fn in os.walk(pkg):
            dn[:] = [d for d in dn if d != "__pycache__"]
            for f in sorted(fn):
                if f.endswith(".py"):
                    p = os.path.join(dp, f)
                    rel = os.path.relpath(p, root)
                    try:
                        trees[rel] = ast.parse(open(p).read(), filename=p)
                    except SyntaxError as e:
                        raise AnalysisError(f"cannot parse {rel}: {e}")
        return cls(trees, root)

    def as_written(self):
        """The same source without any normalisation (no helper inlining, no renaming): for rules whose reading does not depend
        on spelling (ownership of a cache key, in-place updates of kept objects), used where the normalised function carries
        residue and a verdict on it would be withheld."""
        if self._raw:
            return self
        if getattr(self, "_as_written", None) is None:
            self._as_written = Program.load_raw(self.root)
        return self._as_written

    @classmethod
    def load_raw(cls, root=None):
        root = root or REPO
        trees = {}
        for dp, dn, fn in os.walk(os.path.join(root, PKG)):
            dn[:] = [d for d in dn if d != "__pycache__"]
            for f in sorted(fn):
                if f.endswith(".py"):
                    p = os.path.join(dp, f)
                    trees[os.path.relpath(p, root)] = ast.parse(open(p).read(), filename=p)
        return cls(trees, root, raw=True)

    def with_tree(self, rel, tree):
        """A new Program in which module `rel` is replaced by `tree` (self-test)."""
        t = dict(self.trees)
        t[rel] = tree
        return Program(t, self.root)

    def clone_tree(self, rel):
        return copy.deepcopy(self.trees[rel])

    # ---------------------------------------------------------------- lookup
    def module(self, rel):
        if rel not in self.by_rel:
            raise AnalysisError(f"anchor vanished: module {rel}")
        return self.by_rel[rel]

    def cls(self, name) -> ClassInfo:
        if name not in self.classes:
            raise AnalysisError(f"anchor vanished: class {name}")
        return self.classes[name]

    def has_cls(self, name):
        return name in self.classes

    def mro(self, ci: ClassInfo):
        out, seen = [], set()
        todo = [ci]
        while todo:
            c = todo.pop(0)
            if c.name in seen:
                continue
            seen.add(c.name)
            out.append(c)
            for b in c.base_names:
                b = b.split(".")[-1]
                if b in self.classes:
                    todo.append(self.classes[b])
        return out

    def subclasses(self, base_name, strict=True):
        out = []
        for ci in self.classes.values():
            names = [c.name for c in self.mro(ci)]
            if base_name in names and (ci.name != base_name or not strict):
                out.append(ci)
        return sorted(out, key=lambda c: (c.module.relpath, c.node.lineno))

    def find_method(self, ci: ClassInfo, name):
        """(defining ClassInfo, FunctionDef) or (None, None). Handles private name mangling."""
        for c in self.mro(ci):
            if name in c.methods:
                return c, c.methods[name]
        # mangled private:  _Class__name
        if name.startswith("_") and "__" in name[1:]:
            cname, _, meth = name[1:].partition("__")
            meth = "__" + meth
            if cname in self.classes and meth in self.classes[cname].methods:
                return self.classes[cname], self.classes[cname].methods[meth]
        return None, None

    def method(self, cname, mname):
        ci = self.cls(cname)
        c, fn = self.find_method(ci, mname)
        if fn is None:
            raise AnalysisError(f"anchor vanished: method {cname}.{mname}")
        return c, fn

    def has_method(self, cname, mname):
        if cname not in self.classes:
            return False
        return self.find_method(self.classes[cname], mname)[1] is not None

    def function(self, rel, name):
        mi = self.module(rel)
        if name not in mi.functions:
            raise AnalysisError(f"anchor vanished: function {rel}:{name}")
        return mi.functions[name]

    def resolve_name(self, mi: ModuleInfo, name):
        """Qualified external name for a bare Name in module mi, or None."""
        return mi.imports.get(name)

    # ---------------------------------------------------------------- attribute facts
    def self_assignments(self, ci: ClassInfo, attr, methods=None, selfname="self"):
        """All `self.attr = value` (plain Assign / AnnAssign) sites in the MRO of ci.
        Returns list of (ClassInfo, FunctionDef, stmt, value_expr)."""
        out = []
        for c in self.mro(ci):
            for mname, fn in c.methods.items():
                if methods is not None and mname not in methods:
                    continue
                sn = fn.args.args[0].arg if fn.args.args else selfname
                for st in ast.walk(fn):
                    if isinstance(st, ast.Assign):
                        for t in st.targets:
                            for tt, vv in _unpack_targets(t, st.value):
                                if _is_self_attr(tt, sn, attr):
                                    out.append((c, fn, st, vv))
                    elif isinstance(st, ast.AnnAssign) and st.value is not None:
                        if _is_self_attr(st.target, sn, attr):
                            out.append((c, fn, st, st.value))
        return out

    def attr_is_frozen(self, ci: ClassInfo, attr, ctor_methods=("__init__", "pass_spatial_data")):
        """True when self.attr has exactly one assignment site in the class hierarchy, that site is in
        a constructor-time method, and no method mutates it in place (append/extend/[..]=/op=)."""
        sites = self.self_assignments(ci, attr)
        if len(sites) != 1 or sites[0][1].name not in ctor_methods:
            return False
        for c in self.mro(ci):
            for fn in c.methods.values():
                if not fn.args.args:
                    continue
                sn = fn.args.args[0].arg
                for n in ast.walk(fn):
                    if isinstance(n, ast.AugAssign):
                        b = n.target
                        while isinstance(b, ast.Subscript):
                            b = b.value
                        if _is_self_attr(b, sn, attr):
                            return False
                    elif isinstance(n, ast.Assign):
                        for t in n.targets:
                            b = t
                            sub = False
                            while isinstance(b, ast.Subscript):
                                b = b.value
                                sub = True
                            if sub and _is_self_attr(b, sn, attr):
                                return False
                    elif isinstance(n, ast.Call) and isinstance(n.func, ast.Attribute) \
                            and n.func.attr in ("append", "extend", "insert", "pop", "sort", "resize", "fill", "clear"):
                        b = n.func.value
                        while isinstance(b, ast.Subscript):
                            b = b.value
                        if _is_self_attr(b, sn, attr):
                            return False
        return True

    def slot_targets(self, ci: ClassInfo, attr):
        """Methods a bound-method attribute may hold: `self.attr = self.m` (also inside a
        conditional expression).  Returns (list of (ClassInfo, FunctionDef), may_be_external)."""
        out, external = [], False
        for c, fn, st, value in self.self_assignments(ci, attr):
            cands = [value.body, value.orelse] if isinstance(value, ast.IfExp) else [value]
            sn = fn.args.args[0].arg
            for v in cands:
                if isinstance(v, ast.Attribute) and isinstance(v.value, ast.Name) and v.value.id == sn:
                    cc, m = self.find_method(ci, v.attr)
                    if m is not None:
                        if (cc, m) not in out:
                            out.append((cc, m))
                        continue
                external = True
        return out, external

    def attrs_assigned_in(self, fn, selfname=None):
        sn = selfname or (fn.args.args[0].arg if fn.args.args else "self")
        out = set()
        for st in ast.walk(fn):
            targets = []
            if isinstance(st, ast.Assign):
                targets = st.targets
            elif isinstance(st, (ast.AugAssign, ast.AnnAssign)):
                targets = [st.target]
            for t in targets:
                for tt in _flatten_targets(t):
                    if isinstance(tt, ast.Attribute) and isinstance(tt.value, ast.Name) and tt.value.id == sn:
                        out.add(tt.attr)
        return out


def _flatten_targets(t):
    if isinstance(t, (ast.Tuple, ast.List)):
        for e in t.elts:
            yield from _flatten_targets(e)
    elif isinstance(t, ast.Starred):
        yield from _flatten_targets(t.value)
    else:
        yield t


def _unpack_targets(t, value):
    """Pair targets with value sub-expressions where the shapes match."""
    if isinstance(t, (ast.Tuple, ast.List)):
        if isinstance(value, (ast.Tuple, ast.List)) and len(value.elts) == len(t.elts):
            for a, b in zip(t.elts, value.elts):
                yield from _unpack_targets(a, b)
        else:
            for k, a in enumerate(t.elts):
                yield from _unpack_targets(a, ast.Subscript(value=value, slice=ast.Constant(k), ctx=ast.Load()))
    else:
        yield t, value


def _is_self_attr(t, sn, attr):
    return (isinstance(t, ast.Attribute) and isinstance(t.value, ast.Name)
            and t.value.id == sn and t.attr == attr)


# -------------------------------------------------------------------- helpers used by rules
def qual(ci: ClassInfo, fn) -> str:
    return f"{ci.module.name}.{ci.name}.{fn.name}"


def fqual(mi: ModuleInfo, fn) -> str:
    return f"{mi.name}.{fn.name}"


def is_self_attr(node, name=None, selfname="self"):
    return (isinstance(node, ast.Attribute) and isinstance(node.value, ast.Name)
            and node.value.id == selfname and (name is None or node.attr == name))


def call_name(node):
    """Dotted text of a call's callee, e.g. 'self.rng.random'."""
    if isinstance(node, ast.Call):
        try:
            return ast.unparse(node.func)
        except Exception:
            return ""
    return ""


def iter_calls(node):
    for n in ast.walk(node):
        if isinstance(n, ast.Call):
            yield n


def norm(node) -> str:
    """Normalised source text of a node (formatting-independent)."""
    return ast.unparse(node)


def get_kw(call: ast.Call, name, pos=None):
    for k in call.keywords:
        if k.arg == name:
            return k.value
    if pos is not None and len(call.args) > pos:
        return call.args[pos]
    return None
