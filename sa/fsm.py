"""Engine E3 - finite-state extraction.

For a class whose mode is held in a few attributes that are only ever assigned constants,
bound methods of the class, or a boolean parameter, each mutator method is read as a guarded
parallel assignment; the transition system over the finite product domain is then explored
exhaustively from the constructor state under every operation sequence.
"""
from __future__ import annotations
import ast
from .report import AnalysisError

UNKNOWN = "<unknown>"


class Machine:
    def __init__(self, prog, ci, attrs, selfname="self"):
        self.prog, self.ci, self.attrs = prog, ci, list(attrs)

    # -------------------------------------------------------------- abstract evaluation
    def value(self, node, state, env, selfname):
        if isinstance(node, ast.Constant):
            return node.value
        if isinstance(node, ast.Name):
            return env.get(node.id, UNKNOWN)
        if isinstance(node, ast.Attribute) and isinstance(node.value, ast.Name) and node.value.id == selfname:
            if node.attr in state:
                return state[node.attr]
            c, fn = self.prog.find_method(self.ci, node.attr)
            if fn is not None:
                return ("method", node.attr)
            return UNKNOWN
        return UNKNOWN

    def test(self, node, state, env, selfname):
        """True / False / None."""
        if isinstance(node, ast.Compare) and len(node.ops) == 1:
            l = self.value(node.left, state, env, selfname)
            r = self.value(node.comparators[0], state, env, selfname)
            op = node.ops[0]
            if isinstance(op, (ast.Is, ast.Eq)) and UNKNOWN not in (l, r):
                return l is r if isinstance(op, ast.Is) and isinstance(r, bool) else l == r
            if isinstance(op, (ast.IsNot, ast.NotEq)) and UNKNOWN not in (l, r):
                return l != r
            # type(value) is bool
            if isinstance(node.left, ast.Call) and ast.unparse(node.left.func) == "type" and isinstance(op, (ast.Is, ast.IsNot, ast.Eq, ast.NotEq)):
                v = self.value(node.left.args[0], state, env, selfname)
                if v is not UNKNOWN and ast.unparse(node.comparators[0]) == "bool":
                    return isinstance(v, bool) if isinstance(op, (ast.Is, ast.Eq)) else not isinstance(v, bool)
            return None
        if isinstance(node, ast.UnaryOp) and isinstance(node.op, ast.Not):
            v = self.test(node.operand, state, env, selfname)
            return None if v is None else not v
        if isinstance(node, ast.BoolOp):
            vals = [self.test(v, state, env, selfname) for v in node.values]
            if isinstance(node.op, ast.And):
                if any(v is False for v in vals):
                    return False
                return True if all(v is True for v in vals) else None
            if any(v is True for v in vals):
                return True
            return False if all(v is False for v in vals) else None
        v = self.value(node, state, env, selfname)
        if isinstance(v, bool):
            return v
        if isinstance(node, ast.Call) and ast.unparse(node.func) == "isinstance" and len(node.args) == 2:
            v = self.value(node.args[0], state, env, selfname)
            if v is not UNKNOWN and ast.unparse(node.args[1]) == "bool":
                return isinstance(v, bool)
        return None

    def run(self, fn, state, env, choose=None, depth=3):
        """Interpret fn on a copy of state; returns list of resulting states (forks on unknown tests
        unless choose(test_node) decides)."""
        selfname = fn.args.args[0].arg
        outs = self._block(fn.body, [dict(state)], env, selfname, choose, depth)
        for o_ in outs:
            o_.pop("__ret__", None)
        return outs

    def _block(self, stmts, states, env, selfname, choose, depth):
        for st in stmts:
            nxt = []
            for s in states:
                if s.get("__ret__"):
                    nxt.append(s)                     # this path has returned: nothing further runs on it
                else:
                    nxt.extend(self._stmt(st, s, env, selfname, choose, depth))
            states = nxt
        return states

    def _stmt(self, st, state, env, selfname, choose, depth):
        if isinstance(st, (ast.Return, ast.Raise)):
            state = dict(state)
            state["__ret__"] = True
            return [state]
        if isinstance(st, ast.Assign):
            for t in st.targets:
                if isinstance(t, ast.Attribute) and isinstance(t.value, ast.Name) and t.value.id == selfname \
                        and t.attr in self.attrs:
                    state = dict(state)
                    state[t.attr] = self.value(st.value, state, env, selfname)
            return [state]
        if isinstance(st, ast.If):
            v = self.test(st.test, state, env, selfname)
            if v is None and choose is not None:
                v = choose(st.test)
            if v is True:
                return self._block(st.body, [state], env, selfname, choose, depth)
            if v is False:
                return self._block(st.orelse, [state], env, selfname, choose, depth)
            return (self._block(st.body, [dict(state)], env, selfname, choose, depth)
                    + self._block(st.orelse, [dict(state)], env, selfname, choose, depth))
        if isinstance(st, ast.Expr) and isinstance(st.value, ast.Call) and isinstance(st.value.func, ast.Attribute) \
                and isinstance(st.value.func.value, ast.Name) and st.value.func.value.id == selfname and depth > 0:
            c, fn = self.prog.find_method(self.ci, st.value.func.attr)
            if fn is not None:
                sub_env = {}
                outs = self._block(fn.body, [state], sub_env, fn.args.args[0].arg, choose, depth - 1)
                for o_ in outs:
                    o_.pop("__ret__", None)           # the callee returned; its caller goes on
                return outs
        return [state]


def explore(init, ops, key):
    """ops: name -> function(state) -> list of states.  Returns (states dict key->(state, trace), transitions)."""
    seen = {key(init): (init, [])}
    todo = [init]
    transitions = 0
    while todo:
        s = todo.pop(0)
        tr = seen[key(s)][1]
        for name, f in ops.items():
            for s2 in f(s):
                transitions += 1
                k2 = key(s2)
                if k2 not in seen:
                    seen[k2] = (s2, tr + [name])
                    todo.append(s2)
    return seen, transitions
