"""Resolved terms: expressions with local temporaries inlined through their reaching definitions.

Structural rules compare *terms*, never raw statement text: the term of an expression is the expression with every
local name replaced (recursively) by the value it was bound to, so that introducing, removing or renaming a temporary,
splitting a statement, moving independent statements, passing an argument by keyword or by position, and re-ordering
commutative operands leave the term unchanged.  A local is inlined only when its reaching definition is unambiguous:

  * all bindings of the name are plain assignments (`x = v` or an element of a tuple assignment) sitting in one
    statement list, in which case the definition reaching a use is the textually last one before the use
    (an assignment's own right-hand side sees the previous binding);
  * or exactly two plain assignments in the two arms of one `if`, giving the conditional expression  a if test else b;
  * and the object bound is never updated in place through that name (subscript store, augmented assignment,
    mutating method).

Anything else (loop targets, `with`/`except` names, loop-carried values, mutated arrays, parameters) stays a free name.
"""
from __future__ import annotations
import ast
import copy

MUTATORS = {"append", "extend", "insert", "pop", "sort", "resize", "fill", "clear", "remove", "reverse", "update",
            "setdefault", "put", "itemset", "partition", "shuffle"}


ARG_MUTATORS = {"shuffle", "fill_diagonal", "copyto", "put", "place", "putmask"}


def _own_nodes(fn):
    """Nodes of fn excluding the bodies of nested function definitions (lambdas included: their free locals are uses)."""
    todo = list(fn.body)
    while todo:
        n = todo.pop()
        yield n
        for c in ast.iter_child_nodes(n):
            if isinstance(c, (ast.FunctionDef, ast.AsyncFunctionDef, ast.ClassDef)):
                continue
            todo.append(c)


class Resolver:
    def __init__(self, fn, prog=None, mi=None, ci=None, depth=12, inline_self=False):
        self.fn = fn
        self.inline_self = inline_self     # also inline `self.x` read after its single plain assignment in this function
        self.prog, self.mi, self.ci = prog, mi, ci
        self.depth = depth
        self.params = {a.arg for a in fn.args.args + fn.args.kwonlyargs}
        if fn.args.vararg:
            self.params.add(fn.args.vararg.arg)
        if fn.args.kwarg:
            self.params.add(fn.args.kwarg.arg)
        self.selfname = fn.args.args[0].arg if fn.args.args else None
        self.parent = {}          # id(stmt) -> (id of the body list it sits in, owner stmt or None, arm)
        self.blocks = {}          # id(list) -> list
        self._index_blocks(fn.body, None, "body")
        self.owner = {}           # id(expression node) -> innermost statement

        def visit(node, cur):
            for child in ast.iter_child_nodes(node):
                if isinstance(child, (ast.FunctionDef, ast.AsyncFunctionDef, ast.ClassDef)):
                    continue
                if isinstance(child, ast.stmt):
                    self.owner[id(child)] = child
                    visit(child, child)
                else:
                    self.owner[id(child)] = cur
                    visit(child, cur)
        visit(fn, None)
        self.binds = {}           # name -> [(kind, stmt, value, k)]
        self.impure = set()
        self.comp_names = set()
        self._collect()

    # ------------------------------------------------------------------ indexing
    def _index_blocks(self, body, owner, arm):
        self.blocks[id(body)] = body
        for st in body:
            self.parent[id(st)] = (id(body), owner, arm)
            for arm_name in ("body", "orelse", "finalbody"):
                sub = getattr(st, arm_name, None)
                if isinstance(sub, list) and sub and isinstance(sub[0], ast.stmt):
                    self._index_blocks(sub, st, arm_name)
            for h in getattr(st, "handlers", []) or []:
                self._index_blocks(h.body, st, "handler")

    def _bind(self, name, kind, stmt, value=None, k=None):
        self.binds.setdefault(name, []).append((kind, stmt, value, k))

    def _collect(self):
        rebinding_calls = set()
        for n in _own_nodes(self.fn):
            if isinstance(n, ast.Expr) and isinstance(n.value, ast.Call) and isinstance(n.value.func, ast.Attribute) \
                    and n.value.func.attr == "sort" and isinstance(n.value.func.value, ast.Name) and not n.value.args:
                # value-wise `xs.sort(key=k)` is the re-binding xs = sorted(xs, key=k) (like `x op= v` below)
                c = n.value
                v = ast.Call(func=ast.Name(id="sorted", ctx=ast.Load()), args=[ast.Name(id=c.func.value.id, ctx=ast.Load())],
                             keywords=list(c.keywords))
                ast.copy_location(v, n)
                ast.fix_missing_locations(v)
                self._bind(c.func.value.id, "assign", n, v)
                rebinding_calls.add(id(c))
                continue
            if isinstance(n, ast.Call) and id(n) in rebinding_calls:
                continue
            if isinstance(n, ast.Assign):
                for t in n.targets:
                    self._bind_target(t, n, n.value, multi=len(n.targets) > 1)
            elif isinstance(n, ast.AnnAssign):
                if isinstance(n.target, ast.Name):
                    if n.value is not None:
                        self._bind(n.target.id, "assign", n, n.value)
                    else:
                        self._bind(n.target.id, "other", n)
            elif isinstance(n, ast.AugAssign):
                if isinstance(n.target, ast.Name):
                    # value-wise `x op= v` is the re-binding x = x op v (aliasing is the ownership engine's business)
                    v = ast.BinOp(left=ast.Name(id=n.target.id, ctx=ast.Load()), op=n.op, right=n.value)
                    ast.copy_location(v, n)
                    ast.copy_location(v.left, n)
                    self._bind(n.target.id, "assign", n, v)
                else:
                    b = n.target
                    while isinstance(b, (ast.Subscript, ast.Attribute)):
                        b = b.value
                    if isinstance(b, ast.Name):
                        self.impure.add(b.id)
            elif isinstance(n, (ast.For, ast.AsyncFor)):
                for x in ast.walk(n.target):
                    if isinstance(x, ast.Name):
                        self._bind(x.id, "other", n)
            elif isinstance(n, (ast.With, ast.AsyncWith)):
                for it in n.items:
                    if it.optional_vars is not None:
                        for x in ast.walk(it.optional_vars):
                            if isinstance(x, ast.Name):
                                self._bind(x.id, "other", n)
            elif isinstance(n, ast.ExceptHandler) and n.name:
                self._bind(n.name, "other", n)
            elif isinstance(n, (ast.Import, ast.ImportFrom)):
                for a in n.names:
                    self._bind((a.asname or a.name).split(".")[0], "other", n)
            elif isinstance(n, ast.NamedExpr):
                self._bind(n.target.id, "other", n)
            elif isinstance(n, ast.comprehension):
                for x in ast.walk(n.target):
                    if isinstance(x, ast.Name):
                        self.comp_names.add(x.id)
            elif isinstance(n, ast.Call) and (n.func.attr if isinstance(n.func, ast.Attribute) else getattr(n.func, "id", None)) in ARG_MUTATORS \
                    and n.args:
                b = n.args[0]                       # rng.shuffle(x), fill_diagonal(x, v), copyto(x, y): first argument updated in place
                while isinstance(b, (ast.Subscript, ast.Attribute)):
                    b = b.value
                if isinstance(b, ast.Name):
                    self.impure.add(b.id)
            elif isinstance(n, ast.Call) and isinstance(n.func, ast.Attribute) and n.func.attr in MUTATORS:
                b = n.func.value
                while isinstance(b, (ast.Subscript, ast.Attribute)):
                    b = b.value
                if isinstance(b, ast.Name):
                    self.impure.add(b.id)
            elif isinstance(n, ast.Delete):
                for t in n.targets:
                    if isinstance(t, ast.Name):
                        self._bind(t.id, "other", n)

    def _bind_target(self, t, stmt, value, multi=False):
        if isinstance(t, ast.Name):
            self._bind(t.id, "assign", stmt, value)
        elif isinstance(t, (ast.Tuple, ast.List)):
            for k, e in enumerate(t.elts):
                if isinstance(e, ast.Name):
                    if isinstance(value, (ast.Tuple, ast.List)) and len(value.elts) == len(t.elts) \
                            and not any(isinstance(x, ast.Starred) for x in value.elts):
                        self._bind(e.id, "assign", stmt, value.elts[k])
                    elif isinstance(value, ast.Call) and isinstance(value.func, ast.Name) and value.func.id == "zip" and len(value.args) == 1 \
                            and isinstance(value.args[0], ast.Starred) and not value.keywords:
                        # a, b = zip(*rows): the k-th target is the k-th field of every row (a projection; tuple vs list is immaterial)
                        proj = ast.ListComp(
                            elt=ast.Subscript(value=ast.Name(id="e_", ctx=ast.Load()), slice=ast.Constant(value=k), ctx=ast.Load()),
                            generators=[ast.comprehension(target=ast.Name(id="e_", ctx=ast.Store()), iter=value.args[0].value, ifs=[], is_async=0)])
                        self._bind(e.id, "assign", stmt, ast.fix_missing_locations(ast.copy_location(proj, value)))
                    elif isinstance(value, ast.Call) and isinstance(value.func, ast.Name) and value.func.id == "map" and len(value.args) == 2 \
                            and not value.keywords and isinstance(value.args[0], (ast.Name, ast.Attribute)) and isinstance(value.args[1], ast.Call) \
                            and isinstance(value.args[1].func, ast.Name) and value.args[1].func.id == "zip" and len(value.args[1].args) == 1 \
                            and isinstance(value.args[1].args[0], ast.Starred):
                        # a, b = map(f, zip(*rows)): f of the k-th projection
                        proj = ast.ListComp(
                            elt=ast.Subscript(value=ast.Name(id="e_", ctx=ast.Load()), slice=ast.Constant(value=k), ctx=ast.Load()),
                            generators=[ast.comprehension(target=ast.Name(id="e_", ctx=ast.Store()), iter=value.args[1].args[0].value, ifs=[], is_async=0)])
                        call = ast.Call(func=value.args[0], args=[proj], keywords=[])
                        self._bind(e.id, "assign", stmt, ast.fix_missing_locations(ast.copy_location(call, value)))
                    else:
                        self._bind(e.id, "elem", stmt, value, k)
                elif isinstance(e, ast.Starred):
                    for x in ast.walk(e):
                        if isinstance(x, ast.Name):
                            self._bind(x.id, "other", stmt)
                else:
                    self._mark_store(e)
        else:
            self._mark_store(t)

    def _mark_store(self, t):
        b = t
        sub = False
        while isinstance(b, (ast.Subscript, ast.Attribute)):
            if isinstance(b, ast.Subscript):
                sub = True
            b = b.value
        if isinstance(b, ast.Name) and sub:
            self.impure.add(b.id)

    # ------------------------------------------------------------------ reaching definitions
    def stmt_of(self, node):
        """The innermost statement of fn that contains node (by identity)."""
        return self.owner.get(id(node))

    def _enclosing_at_block(self, stmt, block_id):
        """The ancestor of stmt (or stmt itself) that sits directly in block block_id, or None."""
        cur = stmt
        while cur is not None and id(cur) in self.parent:
            bid, owner, arm = self.parent[id(cur)]
            if bid == block_id:
                return cur
            cur = owner
        return None

    def reaching(self, name, at):
        """Value node reaching a use of `name` in statement `at` (None when not unambiguous)."""
        if name in self.params and name in self.binds and name not in self.impure and at is not None:
            # a parameter that the function re-binds: after an unconditional re-binding the name stands for the new value; where a
            # re-binding MAY have happened (in a branch or a loop before / around the use) it stands for neither - an opaque marker
            v = self._reaching(name, at, param=True)
            if v is not None:
                # `x = atleast_1d(x)` / `x = x if isinstance(x, ndarray) else array(x)`: the argument normalised to an array is still
                # the argument (the rules speak about its values) - the name stays the parameter
                def same(e):
                    if isinstance(e, ast.Name):
                        return e.id == name
                    if isinstance(e, ast.IfExp):
                        return same(e.body) and same(e.orelse)
                    if isinstance(e, ast.Call) and len(e.args) == 1 and not e.keywords:
                        f = e.func
                        nm = f.id if isinstance(f, ast.Name) else f.attr if isinstance(f, ast.Attribute) else None
                        if nm in ("atleast_1d", "asarray", "array", "asanyarray", "ascontiguousarray", "asfarray"):
                            return same(e.args[0])
                    return False
                if isinstance(v, ast.Call) and isinstance(v.func, ast.Name) and v.func.id == "Phi":
                    return v
                return None if same(v) else v
            at_line = getattr(at, "lineno", 0)
            for kind, st_, _, _ in self.binds[name]:
                if st_ is at:
                    continue
                in_loop = False
                cur = at
                while cur is not None and id(cur) in self.parent:
                    owner = self.parent[id(cur)][1]
                    if isinstance(owner, (ast.For, ast.While)) and any(x is st_ for x in ast.walk(owner)):
                        in_loop = True
                    cur = owner
                if getattr(st_, "lineno", 0) < at_line or in_loop:
                    m = ast.Call(func=ast.Name(id="MaybeRebound__", ctx=ast.Load()), args=[ast.Constant(value=name)], keywords=[])
                    m._at = at
                    return m
            return None
        if name in self.params or name in self.impure or name not in self.binds or at is None:
            return None
        return self._reaching(name, at)

    def _reaching(self, name, at, param=False):
        bs = self.binds[name]
        if any(b[0] == "other" for b in bs) or any(id(b[1]) not in self.parent for b in bs):
            return None

        def inside(stmt, b):
            return b[1] is not stmt and any(x is b[1] for x in ast.walk(stmt))
        cur = at
        while cur is not None and id(cur) in self.parent:
            bid, owner, arm = self.parent[id(cur)]
            body = self.blocks[bid]
            order = {id(s_): i for i, s_ in enumerate(body)}
            pos = order[id(cur)]
            direct = [b for b in bs if self.parent[id(b[1])][0] == bid]
            prior = [b for b in direct if order[id(b[1])] < pos]
            if prior:
                last = max(prior, key=lambda b: order[id(b[1])])
                between = body[order[id(last[1])] + 1:pos]
                if any(inside(s_, b) for s_ in between for b in bs):
                    return None                       # conditionally re-bound on the way
                return self._value(last)
            nested = [(s_, [b for b in bs if inside(s_, b)]) for s_ in body[:pos]]
            nested = [(s_, l) for s_, l in nested if l]
            if nested:
                if len(nested) == 1 and isinstance(nested[0][0], ast.If) and len(nested[0][1]) == 2:
                    if_st, (b1, b2) = nested[0]
                    p1, p2 = self.parent[id(b1[1])], self.parent[id(b2[1])]
                    if p1[1] is if_st and p2[1] is if_st and {p1[2], p2[2]} == {"body", "orelse"}:
                        a, b = (b1, b2) if p1[2] == "body" else (b2, b1)
                        va, vb = self._value(a), self._value(b)
                        phi = ast.Call(func=ast.Name(id="Phi", ctx=ast.Load()), args=[if_st.test, va, vb], keywords=[])
                        phi._at = (if_st, a[1], b[1])
                        return phi
                if param and len(nested) == 1 and isinstance(nested[0][0], ast.If) and len(nested[0][1]) == 1:
                    # `if <test>: p = <value>` with nothing on the other arm: the parameter itself is the other arm
                    if_st, (b1,) = nested[0]
                    p1 = self.parent[id(b1[1])]
                    if p1[1] is if_st and p1[2] in ("body", "orelse"):
                        va, vb = self._value(b1), ast.Name(id=name, ctx=ast.Load())
                        arms, ats = ((va, vb), (b1[1], if_st)) if p1[2] == "body" else ((vb, va), (if_st, b1[1]))
                        phi = ast.Call(func=ast.Name(id="Phi", ctx=ast.Load()), args=[if_st.test, arms[0], arms[1]], keywords=[])
                        phi._at = (if_st, ats[0], ats[1])
                        return phi
                return None
            if isinstance(owner, (ast.For, ast.While, ast.AsyncFor)) and arm == "body":
                later = body[pos:]
                if any(b[1] is s_ or inside(s_, b) for s_ in later for b in bs):
                    return None                       # loop-carried
            cur = owner
        return None

    def reaching_attr(self, attr, at):
        """Value of `self.attr` as seen by statement `at`, when this function assigns it exactly once, earlier, in an
        enclosing statement list, and never updates it in place."""
        sn = self.selfname
        sites, dirty = [], False
        for n in _own_nodes(self.fn):
            if isinstance(n, ast.Assign):
                for t in n.targets:
                    if isinstance(t, ast.Attribute) and isinstance(t.value, ast.Name) and t.value.id == sn and t.attr == attr:
                        sites.append(n)
                    else:
                        b, sub = t, False
                        while isinstance(b, ast.Subscript):
                            b, sub = b.value, True
                        if sub and isinstance(b, ast.Attribute) and isinstance(b.value, ast.Name) and b.value.id == sn and b.attr == attr:
                            dirty = True
            elif isinstance(n, ast.AugAssign):
                b = n.target
                while isinstance(b, ast.Subscript):
                    b = b.value
                if isinstance(b, ast.Attribute) and isinstance(b.value, ast.Name) and b.value.id == sn and b.attr == attr:
                    dirty = True
        if dirty or len(sites) != 1 or len(sites[0].targets) != 1 or id(sites[0]) not in self.parent or at is None:
            return None
        bid = self.parent[id(sites[0])][0]
        anc = self._enclosing_at_block(at, bid)
        if anc is None:
            return None
        order = {id(s): i for i, s in enumerate(self.blocks[bid])}
        if order[id(sites[0])] >= order[id(anc)]:
            return None
        v = copy.copy(sites[0].value)
        v._at = sites[0]
        return v

    def _value(self, b):
        kind, stmt, value, k = b
        if kind == "assign":
            v = value
        else:
            v = ast.Subscript(value=value, slice=ast.Constant(value=k), ctx=ast.Load())
        v = copy.copy(v) if not hasattr(v, "_at") else v
        try:
            v._at = stmt
        except AttributeError:
            pass
        return v

    # ------------------------------------------------------------------ terms
    def term(self, expr, at=None, depth=None, keep=()):
        """AST of expr with locals inlined.  `at` is the statement holding expr (found by identity when omitted)."""
        if at is None:
            at = self.stmt_of(expr)
        return self._term(expr, at, self.depth if depth is None else depth, frozenset(keep), ())

    def _term(self, node, at, depth, keep, bound):
        r = self

        class T(ast.NodeTransformer):
            def visit_Name(self, n):
                if not isinstance(n.ctx, ast.Load) or n.id in keep or n.id in bound or depth <= 0:
                    return n
                v = r.reaching(n.id, at)
                if v is None:
                    return n
                vat = getattr(v, "_at", at)
                if isinstance(vat, tuple):      # Phi: test evaluated at the if, arms at their statements
                    if_st, sa, sb = vat
                    return ast.IfExp(test=r._term(v.args[0], if_st, depth - 1, keep, bound),
                                     body=r._term(v.args[1], sa, depth - 1, keep, bound),
                                     orelse=r._term(v.args[2], sb, depth - 1, keep, bound))
                return r._term(v, vat, depth - 1, keep, bound)

            def visit_Attribute(self, n):
                if r.inline_self and isinstance(n.ctx, ast.Load) and isinstance(n.value, ast.Name) and n.value.id == r.selfname and depth > 0:
                    v = r.reaching_attr(n.attr, at)
                    if v is not None:
                        return r._term(v, v._at, depth - 1, keep, bound)
                return self.generic_visit(n)

            def visit_Lambda(self, n):
                inner = bound + tuple(a.arg for a in n.args.args)
                return ast.Lambda(args=n.args, body=r._term(n.body, at, depth, keep, inner))

            def _comp(self, n, fields):
                inner = bound + tuple(x.id for g in n.generators for x in ast.walk(g.target) if isinstance(x, ast.Name))
                new = copy.copy(n)
                gens = []
                for g in n.generators:
                    g2 = copy.copy(g)
                    g2.iter = r._term(g.iter, at, depth, keep, bound)
                    g2.ifs = [r._term(i, at, depth, keep, inner) for i in g.ifs]
                    gens.append(g2)
                new.generators = gens
                for f in fields:
                    setattr(new, f, r._term(getattr(n, f), at, depth, keep, inner))
                # a pure projection written with an unpacking header, `[a for a, _ in xs]`, is `[e[0] for e in xs]`
                if fields == ("elt",) and len(new.generators) == 1 and not new.generators[0].ifs \
                        and isinstance(new.generators[0].target, ast.Tuple) and isinstance(new.elt, ast.Name) \
                        and all(isinstance(x, ast.Name) for x in new.generators[0].target.elts):
                    names = [x.id for x in new.generators[0].target.elts]
                    if names.count(new.elt.id) == 1:
                        g2 = copy.copy(new.generators[0])
                        g2.target = ast.Name(id="e_", ctx=ast.Store())
                        new.generators = [g2]
                        new.elt = ast.Subscript(value=ast.Name(id="e_", ctx=ast.Load()), slice=ast.Constant(value=names.index(new.elt.id)),
                                                ctx=ast.Load())
                return new

            def visit_ListComp(self, n):
                return self._comp(n, ("elt",))

            def visit_GeneratorExp(self, n):
                return self._comp(n, ("elt",))

            def visit_SetComp(self, n):
                return self._comp(n, ("elt",))

            def visit_DictComp(self, n):
                return self._comp(n, ("key", "value"))

            def visit_Call(self, n):
                n = self.generic_visit(copy.copy(n))
                # (lambda a, b: e)(x, y)  ->  e[a := x, b := y]   for plain positional arguments
                if isinstance(n.func, ast.Lambda) and not n.keywords and not n.func.args.defaults \
                        and len(n.args) == len(n.func.args.args) and not any(isinstance(a, ast.Starred) for a in n.args):
                    sub_ = {p_.arg: a for p_, a in zip(n.func.args.args, n.args)}

                    class Beta(ast.NodeTransformer):
                        def visit_Name(self, x):
                            return copy.deepcopy(sub_[x.id]) if x.id in sub_ and isinstance(x.ctx, ast.Load) else x
                    return Beta().visit(copy.deepcopy(n.func.body))
                # operator.itemgetter(k)  is  lambda z: z[k]   (a sort / min key written either way)
                if isinstance(n.func, ast.Name) and n.func.id == "itemgetter" and len(n.args) == 1 and not n.keywords \
                        and isinstance(n.args[0], ast.Constant):
                    return ast.Lambda(args=ast.arguments(posonlyargs=[], args=[ast.arg(arg="z")], kwonlyargs=[], kw_defaults=[], defaults=[]),
                                      body=ast.Subscript(value=ast.Name(id="z", ctx=ast.Load()), slice=n.args[0], ctx=ast.Load()))
                return r.norm_call(n)

            def visit_Subscript(self, n):
                n = self.generic_visit(copy.copy(n))
                # (a, b)[k] -> element
                if isinstance(n.value, (ast.Tuple, ast.List)) and isinstance(n.slice, ast.Constant) and isinstance(n.slice.value, int) \
                        and -len(n.value.elts) <= n.slice.value < len(n.value.elts):
                    return n.value.elts[n.slice.value]
                # E[:k][j] -> E[j]  for constants 0 <= j < k
                if isinstance(n.value, ast.Subscript) and isinstance(n.value.slice, ast.Slice) and n.value.slice.lower is None \
                        and n.value.slice.step is None and isinstance(n.value.slice.upper, ast.Constant) \
                        and isinstance(n.value.slice.upper.value, int) and isinstance(n.slice, ast.Constant) \
                        and isinstance(n.slice.value, int) and 0 <= n.slice.value < n.value.slice.upper.value:
                    return ast.Subscript(value=n.value.value, slice=n.slice, ctx=ast.Load())
                # (a if c else b)[k] -> (a[k] if c else b[k])   (constant k: element of a two-way choice of tuples)
                if isinstance(n.value, ast.IfExp) and isinstance(n.slice, ast.Constant):
                    mk = lambda v: self.visit_Subscript(ast.Subscript(value=v, slice=n.slice, ctx=ast.Load()))
                    return ast.IfExp(test=n.value.test, body=mk(n.value.body), orelse=mk(n.value.orelse))
                return n
        out = T().visit(copy.deepcopy(node) if not isinstance(node, ast.Name) else node)
        return out

    # ------------------------------------------------------------------ call normalisation
    def callee(self, call):
        """FunctionDef a call resolves to inside the repository (self methods, module functions, imported functions)."""
        f = call.func
        if self.prog is None:
            return None, False
        if isinstance(f, ast.Attribute) and isinstance(f.value, ast.Name) and f.value.id == self.selfname and self.ci is not None:
            c, fn = self.prog.find_method(self.ci, f.attr)
            return fn, True
        if isinstance(f, ast.Name) and f.id in getattr(self.prog, "classes", {}):
            c, fn = self.prog.find_method(self.prog.classes[f.id], "__init__")
            if fn is not None:
                return fn, True                       # constructor call: parameters after self
        if isinstance(f, ast.Name) and self.mi is not None:
            if f.id in self.mi.functions:
                return self.mi.functions[f.id], False
            q = self.mi.imports.get(f.id)
            if q and q.startswith("inference."):
                modname, _, name = q.rpartition(".")
                m2 = self.prog.modules.get(modname)
                if m2 and name in m2.functions:
                    return m2.functions[name], False
        return None, False

    def norm_call(self, call):
        """Keyword arguments of repository callees are moved to their positional slots when the prefix is filled."""
        fn, is_method = self.callee(call)
        if fn is None or any(isinstance(a, ast.Starred) for a in call.args) or any(k.arg is None for k in call.keywords):
            return call
        params = [a.arg for a in fn.args.args]
        if is_method and params:
            params = params[1:]
        args = list(call.args)
        kws = {k.arg: k.value for k in call.keywords}
        while len(args) < len(params) and params[len(args)] in kws:
            args.append(kws.pop(params[len(args)]))
        new = copy.copy(call)
        new.args = args
        new.keywords = [ast.keyword(arg=k, value=v) for k, v in kws.items()]
        return new

    # ------------------------------------------------------------------ convenience
    def text(self, expr, at=None, keep=()):
        from .rules.common import U
        return U(self.term(expr, at, keep=keep))

    def value_of(self, name, at):
        """Term of local `name` as seen by statement `at`."""
        return self.term(ast.Name(id=name, ctx=ast.Load()), at)

    def returns(self):
        return [n for n in _own_nodes(self.fn) if isinstance(n, ast.Return) and n.value is not None]

    def return_terms(self):
        return [self.term(r.value, r) for r in self.returns()]

    def calls(self, pred):
        """[(call, stmt)] for every call in the function whose callee text satisfies pred."""
        out = []
        for n in _own_nodes(self.fn):
            if isinstance(n, ast.Call) and pred(ast.unparse(n.func)):
                out.append((n, self.stmt_of(n)))
        return out

    def arg(self, call, pos, name, at=None):
        """Term of an argument given by position or keyword (None when absent)."""
        call = self.norm_call(call)
        if pos is not None and len(call.args) > pos:
            return self.term(call.args[pos], at or self.stmt_of(call))
        for k in call.keywords:
            if k.arg == name:
                return self.term(k.value, at or self.stmt_of(call))
        return None


def _contains(outer, inner):
    return any(x is inner for x in ast.walk(outer))


def T(text):
    """Canonical text of a reference expression written as a string."""
    from .rules.common import U
    return U(ast.parse(text.strip(), mode="eval").body)


# ---------------------------------------------------------------------------- pattern matching on terms
def _flat(node, op):
    if isinstance(node, ast.BinOp) and isinstance(node.op, op):
        return _flat(node.left, op) + _flat(node.right, op)
    return [node]


def pmatch(node, pat, b=None):
    """Structural match of an expression AST against a pattern AST (or pattern text).

    Pattern names starting with `_` are wildcards: `_` matches anything, `_x` matches anything and must match the
    same text everywhere.  `+` and `*` match up to re-ordering of their operands.  A call in the pattern lists the
    positional arguments that must be present in order (a trailing `*_` allows more) and the keywords that must be
    present; further keywords in the code are accepted only when the pattern ends in `**_` (or `*_`).  Returns the bindings dict or None."""
    if isinstance(pat, str):
        pat = ast.parse(pat.strip(), mode="eval").body
    b = {} if b is None else b
    return b if _pm(node, pat, b) else None


def _pm(n, p, b):
    if isinstance(p, ast.Name) and p.id.startswith("_"):
        if p.id == "_":
            return True
        t = ast.unparse(n)
        if p.id in b:
            return b[p.id] == t
        b[p.id] = t
        return True
    if isinstance(p, ast.BinOp) and isinstance(p.op, (ast.Add, ast.Mult)):
        if not (isinstance(n, ast.BinOp) and type(n.op) is type(p.op)):
            return False
        # (1) operand-wise, in either order (lets a wildcard take a whole sub-sum / sub-product)
        for a_, b_ in ((n.left, n.right), (n.right, n.left)):
            trial = dict(b)
            if _pm(a_, p.left, trial) and _pm(b_, p.right, trial):
                b.clear()
                b.update(trial)
                return True
        # (2) flattened, up to re-ordering; surplus operands are absorbed by wildcard operands of the pattern
        ps, ns = _flat(p, type(p.op)), _flat(n, type(p.op))
        if len(ps) == len(ns):
            return _perm(ns, ps, b)
        if len(ps) < len(ns):
            return _perm_groups(ns, ps, b, type(p.op))
        return False
    if type(n) is not type(p):
        return False
    if isinstance(p, ast.Constant):
        return type(n.value) is type(p.value) and n.value == p.value or (
            isinstance(n.value, (int, float)) and isinstance(p.value, (int, float)) and not isinstance(n.value, bool)
            and not isinstance(p.value, bool) and float(n.value) == float(p.value))
    if isinstance(p, ast.Name):
        return n.id == p.id
    if isinstance(p, ast.Call):
        if not _pm(n.func, p.func, b):
            return False
        pargs = list(p.args)
        more = False
        if pargs and isinstance(pargs[-1], ast.Starred) and isinstance(pargs[-1].value, ast.Name) and pargs[-1].value.id == "_":
            pargs.pop()
            more = True
        if len(n.args) < len(pargs) or (len(n.args) > len(pargs) and not more):
            return False
        for a, q in zip(n.args, pargs):
            if not _pm(a, q, b):
                return False
        nk = {k.arg: k.value for k in n.keywords}
        open_kw = any(k.arg is None and isinstance(k.value, ast.Name) and k.value.id == "_" for k in p.keywords)
        for k in p.keywords:
            if k.arg is None:
                continue
            if k.arg not in nk or not _pm(nk[k.arg], k.value, b):
                return False
        # a keyword the pattern does not name changes what the call computes (`endpoint=False`, `max_itr=5`, `assume_a="sym"`):
        # it is accepted only where the pattern says so with `**_`
        if not open_kw and not more and set(nk) - {k.arg for k in p.keywords}:
            return False
        return True
    if isinstance(p, ast.Lambda):
        pa, na = [a.arg for a in p.args.args], [a.arg for a in n.args.args]
        if len(pa) != len(na):
            return False
        body = n.body
        if pa != na:
            ren = dict(zip(na, pa))

            class Rn(ast.NodeTransformer):
                def visit_Name(self, x):
                    return ast.Name(id=ren.get(x.id, x.id), ctx=x.ctx)
            body = Rn().visit(copy.deepcopy(body))
        return _pm(body, p.body, b)
    for f in p._fields:
        pv, nv = getattr(p, f, None), getattr(n, f, None)
        if f in ("ctx", "lineno", "col_offset", "end_lineno", "end_col_offset", "type_comment", "kind"):
            continue
        if isinstance(pv, list):
            if not isinstance(nv, list) or len(pv) != len(nv):
                return False
            for x, y in zip(nv, pv):
                if isinstance(y, ast.AST):
                    if not _pm(x, y, b):
                        return False
                elif x != y:
                    return False
        elif isinstance(pv, ast.AST):
            if not isinstance(nv, ast.AST) or not _pm(nv, pv, b):
                return False
        else:
            if isinstance(pv, ast.AST) != isinstance(nv, ast.AST):
                return False
            if not isinstance(pv, ast.AST) and pv != nv and not (f == "op" or f == "ops"):
                return False
    if isinstance(p, (ast.BinOp, ast.UnaryOp, ast.BoolOp)) and type(p.op) is not type(n.op):
        return False
    if isinstance(p, ast.Compare) and [type(o) for o in p.ops] != [type(o) for o in n.ops]:
        return False
    return True


def _perm(ns, ps, b):
    if not ps:
        return True
    p0 = ps[0]
    for i, n in enumerate(ns):
        trial = dict(b)
        if _pm(n, p0, trial) and _perm(ns[:i] + ns[i + 1:], ps[1:], trial):
            b.clear()
            b.update(trial)
            return True
    return False


def _is_wild(p):
    return isinstance(p, ast.Name) and p.id.startswith("_")


def _perm_groups(ns, ps, b, op):
    """Match pattern operands ps against node operands ns (len(ns) > len(ps)): every non-wildcard pattern operand takes one
    node operand; the wildcard operands share the remaining ones (each at least one, kept in source order)."""
    fixed = [q for q in ps if not _is_wild(q)]
    wild = [q for q in ps if _is_wild(q)]
    if not wild:
        return False

    def rebuild(group):
        out = group[0]
        for g in group[1:]:
            out = ast.BinOp(left=out, op=op(), right=g)
        return out

    def assign_fixed(rest_ns, fs, trial):
        if not fs:
            return assign_wild(rest_ns, wild, trial)
        for i, n_ in enumerate(rest_ns):
            t2 = dict(trial)
            if _pm(n_, fs[0], t2):
                r = assign_fixed(rest_ns[:i] + rest_ns[i + 1:], fs[1:], t2)
                if r is not None:
                    return r
        return None

    def assign_wild(rest_ns, ws, trial):
        if len(ws) == 1:
            if not rest_ns:
                return None
            t2 = dict(trial)
            return t2 if _pm(rebuild(rest_ns), ws[0], t2) else None
        # first wildcard takes any non-empty proper subset (by index mask, source order)
        m = len(rest_ns)
        for mask in range(1, 2 ** m - 1):
            grp = [rest_ns[i] for i in range(m) if mask >> i & 1]
            oth = [rest_ns[i] for i in range(m) if not mask >> i & 1]
            if len(oth) < len(ws) - 1:
                continue
            t2 = dict(trial)
            if _pm(rebuild(grp), ws[0], t2):
                r = assign_wild(oth, ws[1:], t2)
                if r is not None:
                    return r
        return None
    r = assign_fixed(list(ns), fixed, dict(b))
    if r is None:
        return False
    b.clear()
    b.update(r)
    return True


def find_all(node, pat):
    """All sub-expressions of node matching pat: [(subnode, bindings)]."""
    if isinstance(pat, str):
        pat = ast.parse(pat.strip(), mode="eval").body
    out = []
    for x in ast.walk(node):
        if isinstance(x, ast.expr):
            bb = pmatch(x, pat)
            if bb is not None:
                out.append((x, bb))
    return out


def abstract(node, pats):
    """Replace every sub-expression matching one of `pats` [(pattern, name)] by the Name `name` (outermost match wins).
    Returns (new AST, {name: set of matched texts}).  Used to hand the arithmetic skeleton of a term to the normal form."""
    pats = [(ast.parse(p.strip(), mode="eval").body if isinstance(p, str) else p, nm) for p, nm in pats]
    seen = {}

    class A(ast.NodeTransformer):
        def visit(self, n):
            if isinstance(n, ast.expr):
                for p, nm in pats:
                    if pmatch(n, p) is not None:
                        seen.setdefault(nm, set()).add(ast.unparse(n))
                        return ast.Name(id=nm, ctx=ast.Load())
            return super().visit(n)
    out = A().visit(copy.deepcopy(node))
    return ast.fix_missing_locations(out), seen


def anf_of(node, env=None, scalars=()):
    """Normal form of a closed arithmetic expression AST (free names become symbols)."""
    from .symx import Expander
    from .anf import R

    class _M:
        imports = {"pi": "numpy.pi", "exp": "numpy.exp", "log": "numpy.log", "sqrt": "numpy.sqrt", "cos": "numpy.cos",
                   "tanh": "numpy.tanh", "log1p": "numpy.log1p", "abs": "numpy.abs"}
        functions = {}
        globals = {}
        name = "<term>"
    ex = Expander(None, _M, None)
    ex.scalar_names = set(scalars)
    e = dict(env or {})
    for x in ast.walk(node):
        if isinstance(x, ast.Name) and x.id not in e and x.id not in _M.imports:
            e[x.id] = R.sym(x.id)
    return ex.eval(node, e)
