"""Load-time canonicalisation, second set (P0c): everyday re-spellings found by the red-team round.  Every rewrite maps a spelling to the
one the repository uses, and is an identity on the program's behaviour for the values these constructs take in this package
(documented per rewrite).  Applied to every parsed module before the structural passes of sa/canon.py.
"""
from __future__ import annotations
import ast
import copy

U = ast.unparse


def strip_docstrings(tree):
    """A docstring is an expression statement with no effect; rules that look at a body's statements must not depend on it."""
    n = 0
    for fn in ast.walk(tree):
        if isinstance(fn, (ast.FunctionDef, ast.AsyncFunctionDef, ast.ClassDef)) and fn.body:
            b = fn.body[0]
            if isinstance(b, ast.Expr) and isinstance(b.value, ast.Constant) and isinstance(b.value.value, str) and len(fn.body) > 1:
                fn.body = fn.body[1:]
                n += 1
    return n


def _literal_const(e):
    if isinstance(e, ast.Constant) and isinstance(e.value, (int, float, str, bool)) or isinstance(e, ast.Constant) and e.value is None:
        return True
    if isinstance(e, ast.UnaryOp) and isinstance(e.op, (ast.USub, ast.UAdd)) and isinstance(e.operand, ast.Constant) \
            and isinstance(e.operand.value, (int, float)):
        return True
    return False


def inline_public_constants(tree):
    """ALL_CAPS module-level names bound once to a literal (`OUT_OF_SUPPORT = -1e100`) are that literal."""
    stores = {}
    for n in ast.walk(tree):
        if isinstance(n, ast.Name) and isinstance(n.ctx, (ast.Store, ast.Del)):
            stores[n.id] = stores.get(n.id, 0) + 1
        elif isinstance(n, (ast.Global, ast.Nonlocal)):
            for nm in n.names:
                stores[nm] = stores.get(nm, 0) + 2
    consts = {}
    for st in tree.body:
        if isinstance(st, ast.Assign) and len(st.targets) == 1 and isinstance(st.targets[0], ast.Name):
            nm = st.targets[0].id
            if nm.isupper() and stores.get(nm, 0) == 1 and _literal_const(st.value):
                consts[nm] = st.value
    if not consts:
        return 0
    cnt = [0]

    class V(ast.NodeTransformer):
        def visit_FunctionDef(self, fn):
            params = {a.arg for a in fn.args.args + fn.args.kwonlyargs + fn.args.posonlyargs}
            self.shadow.append(params)
            self.generic_visit(fn)
            self.shadow.pop()
            return fn

        def visit_Name(self, n):
            if isinstance(n.ctx, ast.Load) and n.id in consts and not any(n.id in s_ for s_ in self.shadow):
                cnt[0] += 1
                return ast.copy_location(copy.deepcopy(consts[n.id]), n)
            return n
    v = V()
    v.shadow = []
    for st in tree.body:
        if not (isinstance(st, ast.Assign) and len(st.targets) == 1 and isinstance(st.targets[0], ast.Name) and st.targets[0].id in consts):
            v.visit(st)
    return cnt[0]


def inline_class_constants(tree):
    """A class-level name bound once, in the class body, to a literal and never assigned through an instance or the class
    (`_uncertainties_name = "gamma"`) is that literal where methods of the class read it as self.X / cls.X / Class.X."""
    cnt = 0
    assigned_attrs = set()
    for n in ast.walk(tree):
        if isinstance(n, ast.Attribute) and isinstance(n.ctx, (ast.Store, ast.Del)):
            assigned_attrs.add(n.attr)
        if isinstance(n, ast.Call) and isinstance(n.func, ast.Name) and n.func.id == "setattr" and len(n.args) >= 2:
            assigned_attrs.add(U(n.args[1]).strip("'\""))
    classes = [c for c in tree.body if isinstance(c, ast.ClassDef)]
    sub_names = {}
    for c in classes:
        consts = {}
        for st in c.body:
            if isinstance(st, ast.Assign) and len(st.targets) == 1 and isinstance(st.targets[0], ast.Name) and _literal_const(st.value) \
                    and st.targets[0].id not in assigned_attrs and st.targets[0].id.startswith("_") and not st.targets[0].id.startswith("__"):
                consts[st.targets[0].id] = st.value
        # a subclass in the same module that re-binds the name makes it polymorphic: leave it
        for c2 in classes:
            if c2 is not c and any(U(b) == c.name for b in c2.bases):
                for st in c2.body:
                    if isinstance(st, ast.Assign) and len(st.targets) == 1 and isinstance(st.targets[0], ast.Name):
                        consts.pop(st.targets[0].id, None)
        if not consts:
            continue

        class V(ast.NodeTransformer):
            def visit_Attribute(self, n):
                self.generic_visit(n)
                if isinstance(n.ctx, ast.Load) and n.attr in consts and isinstance(n.value, ast.Name) and n.value.id in ("self", "cls", c.name):
                    self.k += 1
                    return ast.copy_location(copy.deepcopy(consts[n.attr]), n)
                return n
        v = V()
        v.k = 0
        for m in c.body:
            if isinstance(m, ast.FunctionDef):
                v.visit(m)
        cnt += v.k
    return cnt


class _Spell(ast.NodeTransformer):
    """Expression-level re-spellings."""
    def __init__(self, numpy_names):
        self.np = numpy_names        # local name -> numpy function name (from numpy import ...)
        self.k = 0
        self.selfnames = []

    def visit_FunctionDef(self, fn):
        params = {a.arg for a in fn.args.posonlyargs + fn.args.args + fn.args.kwonlyargs}
        if fn.args.args and fn.args.args[0].arg == "self":
            nm = "self"
        elif self.selfnames and self.selfnames[-1] and self.selfnames[-1] not in params:
            nm = self.selfnames[-1]          # a nested helper closes over the method's receiver
        else:
            nm = None
        self.selfnames.append(nm)
        self.generic_visit(fn)
        self.selfnames.pop()
        return fn

    def visit_BinOp(self, n):
        self.generic_visit(n)
        # diag(v) ** k  ->  diag(v ** k)   (k a positive integer literal: the off-diagonal zeros stay zero)
        if isinstance(n.op, ast.Pow) and isinstance(n.right, ast.Constant) and isinstance(n.right.value, int) and not isinstance(n.right.value, bool) \
                and n.right.value >= 1 and isinstance(n.left, ast.Call) and isinstance(n.left.func, ast.Name) and n.left.func.id == "diag" \
                and len(n.left.args) == 1 and not n.left.keywords:
            self.k += 1
            return ast.copy_location(ast.Call(func=n.left.func, args=[ast.BinOp(left=n.left.args[0], op=ast.Pow(), right=n.right)], keywords=[]), n)
        # (a,) * 2 / [a] * 3 with a small literal count and a plain element: the tuple / list written out
        if isinstance(n.op, ast.Mult):
            for seq, cnt in ((n.left, n.right), (n.right, n.left)):
                if isinstance(seq, ast.Tuple) and len(seq.elts) == 1 and isinstance(cnt, ast.Constant) and isinstance(cnt.value, int) \
                        and not isinstance(cnt.value, bool) and 1 <= cnt.value <= 4 \
                        and all(isinstance(x, (ast.Name, ast.Attribute, ast.Constant, ast.Load)) for x in ast.walk(seq.elts[0])):
                    self.k += 1
                    import copy as _cp
                    return ast.copy_location(ast.Tuple(elts=[_cp.deepcopy(seq.elts[0]) for _ in range(cnt.value)], ctx=ast.Load()), n)
        return n

    def visit_Compare(self, n):
        self.generic_visit(n)
        # `"k" in D.files` - membership in an NpzFile is membership in its list of keys
        if len(n.ops) == 1 and isinstance(n.ops[0], (ast.In, ast.NotIn)) and isinstance(n.comparators[0], ast.Attribute) \
                and n.comparators[0].attr == "files" and isinstance(n.left, ast.Constant) and isinstance(n.left.value, str):
            self.k += 1
            n.comparators = [n.comparators[0].value]
        return n

    def visit_Call(self, n):
        self.generic_visit(n)
        f = n.func
        # self(x)  ->  self.__call__(x)
        if isinstance(f, ast.Name) and self.selfnames and self.selfnames[-1] == f.id:
            self.k += 1
            n.func = ast.copy_location(ast.Attribute(value=f, attr="__call__", ctx=ast.Load()), f)
            return n
        # rng.standard_normal(size) -> rng.normal(size=size): the same stream (Generator.normal(0, 1) draws standard normals)
        if isinstance(f, ast.Attribute) and f.attr == "standard_normal" and len(n.args) <= 1 and all(k.arg == "size" for k in n.keywords):
            self.k += 1
            f.attr = "normal"
            if n.args:
                n.keywords = [ast.keyword(arg="size", value=n.args[0])] + n.keywords
                n.args = []
            return n
        # X.argmin(axis=a, keepdims=True) -> expand_dims(X.argmin(axis=a), axis=a)
        if isinstance(f, ast.Attribute) and f.attr in ("argmin", "argmax") and any(
                k.arg == "keepdims" and isinstance(k.value, ast.Constant) and k.value.value is True for k in n.keywords):
            ax = next((k.value for k in n.keywords if k.arg == "axis"), n.args[0] if n.args else None)
            if ax is not None:
                self.k += 1
                inner = ast.Call(func=f, args=[], keywords=[ast.keyword(arg="axis", value=ax)])
                return ast.copy_location(ast.Call(func=ast.Name(id="expand_dims", ctx=ast.Load()), args=[inner],
                                                  keywords=[ast.keyword(arg="axis", value=copy.deepcopy(ax))]), n)
        # X.diagonal() -> diagonal(X);  A.dot(B) -> A @ B   (for the 1-D / 2-D arrays of this package `dot` is the matrix product)
        if isinstance(f, ast.Attribute) and f.attr == "diagonal" and not n.args and not n.keywords and "diagonal" in self.np:
            self.k += 1
            return ast.copy_location(ast.Call(func=ast.Name(id="diagonal", ctx=ast.Load()), args=[f.value], keywords=[]), n)
        # zeros((n,) * 2) and the like are handled in visit_BinOp
        # minimize_scalar(fun=F, ..) / minimize(fun=F, ..): the objective written first, as the repository does
        if isinstance(f, ast.Name) and f.id in ("minimize_scalar", "minimize", "differential_evolution", "fmin_l_bfgs_b") and not n.args:
            kw = [k_ for k_ in n.keywords if k_.arg in ("fun", "func")]
            if len(kw) == 1:
                self.k += 1
                n.args = [kw[0].value]
                n.keywords = [k_ for k_ in n.keywords if k_ is not kw[0]]
                return n
        # X.clip(lo, hi) / clip(X, lo, hi) -> minimum(hi, maximum(lo, X))   (numpy defines clip that way)
        if not n.keywords and ((isinstance(f, ast.Attribute) and f.attr == "clip" and len(n.args) == 2
                                and not (isinstance(f.value, ast.Name) and f.value.id in ("np", "numpy")))
                               or (isinstance(f, ast.Name) and self.np.get(f.id) == "clip" and len(n.args) == 3)):
            self.k += 1
            X, lo, hi = (f.value, n.args[0], n.args[1]) if isinstance(f, ast.Attribute) else (n.args[0], n.args[1], n.args[2])
            inner = ast.Call(func=ast.Name(id="maximum", ctx=ast.Load()), args=[lo, X], keywords=[])
            return ast.copy_location(ast.Call(func=ast.Name(id="minimum", ctx=ast.Load()), args=[hi, inner], keywords=[]), n)
        # linspace(a, b, num=n) -> linspace(a, b, n)
        if isinstance(f, ast.Name) and f.id == "linspace" and len(n.args) == 2 and [k_.arg for k_ in n.keywords] == ["num"]:
            self.k += 1
            n.args = n.args + [n.keywords[0].value]
            n.keywords = []
            return n
        # set(A).isdisjoint(B) -> not any(j in A for j in B)
        if isinstance(f, ast.Attribute) and f.attr == "isdisjoint" and len(n.args) == 1 and not n.keywords and isinstance(f.value, ast.Call) \
                and isinstance(f.value.func, ast.Name) and f.value.func.id in ("set", "frozenset") and len(f.value.args) == 1:
            self.k += 1
            A, B = f.value.args[0], n.args[0]
            gen = ast.GeneratorExp(elt=ast.Compare(left=ast.Name(id="j__", ctx=ast.Load()), ops=[ast.In()], comparators=[A]),
                                   generators=[ast.comprehension(target=ast.Name(id="j__", ctx=ast.Store()), iter=B, ifs=[], is_async=0)])
            return ast.copy_location(ast.UnaryOp(op=ast.Not(), operand=ast.Call(func=ast.Name(id="any", ctx=ast.Load()), args=[gen], keywords=[])), n)
        # subtract.outer(a, b) -> a[:, None] - b[None, :]   (all pairwise differences of two vectors)
        if isinstance(f, ast.Attribute) and f.attr == "outer" and isinstance(f.value, (ast.Name, ast.Attribute)) and len(n.args) == 2 and not n.keywords \
                and (f.value.id if isinstance(f.value, ast.Name) else f.value.attr) in ("subtract", "add", "multiply"):
            self.k += 1
            op_ = {"subtract": ast.Sub(), "add": ast.Add(), "multiply": ast.Mult()}[f.value.id if isinstance(f.value, ast.Name) else f.value.attr]
            col = ast.Subscript(value=n.args[0], slice=ast.Tuple(elts=[ast.Slice(), ast.Constant(value=None)], ctx=ast.Load()), ctx=ast.Load())
            row = ast.Subscript(value=n.args[1], slice=ast.Tuple(elts=[ast.Constant(value=None), ast.Slice()], ctx=ast.Load()), ctx=ast.Load())
            return ast.copy_location(ast.BinOp(left=col, op=op_, right=row), n)
        # X.searchsorted(v) -> searchsorted(X, v)
        if isinstance(f, ast.Attribute) and f.attr == "searchsorted" and n.args and not (isinstance(f.value, ast.Name) and f.value.id in ("np", "numpy")):
            self.k += 1
            return ast.copy_location(ast.Call(func=ast.Name(id="searchsorted", ctx=ast.Load()), args=[f.value] + n.args, keywords=n.keywords), n)
        if isinstance(f, ast.Attribute) and f.attr == "dot" and len(n.args) == 1 and not n.keywords \
                and not (isinstance(f.value, ast.Name) and f.value.id in ("np", "numpy")):
            self.k += 1
            return ast.copy_location(ast.BinOp(left=f.value, op=ast.MatMult(), right=n.args[0]), n)
        name = f.id if isinstance(f, ast.Name) else None
        npn = self.np.get(name) if name else None
        # concatenate((a, b), axis=k) -> append(a, b, axis=k)   (numpy.append is exactly that concatenation when axis is given)
        if npn == "concatenate" and len(n.args) == 1 and isinstance(n.args[0], (ast.Tuple, ast.List)) and len(n.args[0].elts) == 2 \
                and any(k.arg == "axis" for k in n.keywords):
            self.k += 1
            return ast.copy_location(ast.Call(func=ast.Name(id="append", ctx=ast.Load()), args=list(n.args[0].elts), keywords=n.keywords), n)
        # diff(x) -> x[1:] - x[:-1]   (first difference along the last axis; the repository only differences vectors)
        if npn == "diff" and len(n.args) == 1 and not n.keywords and isinstance(n.args[0], (ast.Name, ast.Attribute)):
            self.k += 1
            x = n.args[0]
            a = ast.Subscript(value=copy.deepcopy(x), slice=ast.Slice(lower=ast.Constant(value=1), upper=None, step=None), ctx=ast.Load())
            b = ast.Subscript(value=copy.deepcopy(x), slice=ast.Slice(lower=None, upper=ast.UnaryOp(op=ast.USub(), operand=ast.Constant(value=1)),
                                                                      step=None), ctx=ast.Load())
            return ast.copy_location(ast.BinOp(left=a, op=ast.Sub(), right=b), n)
        # list(map(f, A, B)) -> [f(a, b) for a, b in zip(A, B)]
        if name == "list" and len(n.args) == 1 and isinstance(n.args[0], ast.Call) and isinstance(n.args[0].func, ast.Name) \
                and n.args[0].func.id == "map" and len(n.args[0].args) >= 2 and isinstance(n.args[0].args[0], ast.Name) and not n.args[0].keywords:
            m = n.args[0]
            fn_, seqs = m.args[0], m.args[1:]
            self.k += 1
            vs = [ast.Name(id=f"m{i}_", ctx=ast.Store()) for i in range(len(seqs))]
            tgt = vs[0] if len(vs) == 1 else ast.Tuple(elts=vs, ctx=ast.Store())
            it = seqs[0] if len(seqs) == 1 else ast.Call(func=ast.Name(id="zip", ctx=ast.Load()), args=list(seqs), keywords=[])
            elt = ast.Call(func=fn_, args=[ast.Name(id=v.id, ctx=ast.Load()) for v in vs], keywords=[])
            return ast.copy_location(ast.ListComp(elt=elt, generators=[ast.comprehension(target=tgt, iter=it, ifs=[], is_async=0)]), n)
        return n


def _dict_update_statements(tree):
    """`D.update(a=x, b=y)` as an expression statement is `D["a"] = x; D["b"] = y`."""
    k = 0
    for node in ast.walk(tree):
        for nm in ("body", "orelse", "finalbody"):
            blk = getattr(node, nm, None)
            if not (isinstance(blk, list) and blk and isinstance(blk[0], ast.stmt)):
                continue
            out = []
            for st in blk:
                c = st.value if isinstance(st, ast.Expr) else None
                if isinstance(c, ast.Call) and isinstance(c.func, ast.Attribute) and c.func.attr == "update" and not c.args and c.keywords \
                        and all(kw.arg for kw in c.keywords) and isinstance(c.func.value, ast.Name):
                    for kw in c.keywords:
                        out.append(ast.copy_location(ast.Assign(
                            targets=[ast.Subscript(value=ast.Name(id=c.func.value.id, ctx=ast.Load()), slice=ast.Constant(value=kw.arg), ctx=ast.Store())],
                            value=kw.value, lineno=st.lineno), st))
                    k += 1
                else:
                    out.append(st)
            setattr(node, nm, out)
    return k


def _flag_loops(tree):
    """`done = False; while not done: ... done = True ...` with every `done = True` in tail position of the loop body (nothing of the
    iteration runs after it) is `while True: ... break ...`."""
    k = 0
    for node in ast.walk(tree):
        for nm in ("body", "orelse"):
            blk = getattr(node, nm, None)
            if not (isinstance(blk, list) and blk and isinstance(blk[0], ast.stmt)):
                continue
            for i, st in enumerate(blk):
                if not (isinstance(st, ast.While) and isinstance(st.test, ast.UnaryOp) and isinstance(st.test.op, ast.Not)
                        and isinstance(st.test.operand, ast.Name) and not st.orelse and i > 0):
                    continue
                flag = st.test.operand.id
                init = blk[i - 1]
                if not (isinstance(init, ast.Assign) and len(init.targets) == 1 and U(init.targets[0]) == flag
                        and isinstance(init.value, ast.Constant) and init.value.value is False):
                    continue
                sets = [s for s in ast.walk(st) if isinstance(s, ast.Assign) and any(U(t) == flag for t in s.targets)]
                reads = [x for x in ast.walk(st) if isinstance(x, ast.Name) and x.id == flag and isinstance(x.ctx, ast.Load)]
                if len(reads) != 1 or not sets or not all(isinstance(s.value, ast.Constant) and s.value.value is True for s in sets):
                    continue
                # is the flag read after the loop?
                later = [x for s2 in blk[i + 1:] for x in ast.walk(s2) if isinstance(x, ast.Name) and x.id == flag]
                if later:
                    continue

                def tail(block, target):
                    """target is the last statement executed in this iteration whenever it is executed"""
                    if not block:
                        return False
                    last = block[-1]
                    if last is target:
                        return True
                    if isinstance(last, ast.If):
                        in_b = any(x is target for s3 in last.body for x in ast.walk(s3))
                        in_o = any(x is target for s3 in last.orelse for x in ast.walk(s3))
                        if in_b:
                            return tail(last.body, target)
                        if in_o:
                            return tail(last.orelse, target)
                    return False
                if not all(tail(st.body, s) for s in sets):
                    continue

                class R(ast.NodeTransformer):
                    def visit_Assign(self, a):
                        if any(a is s for s in sets):
                            return ast.copy_location(ast.Break(), a)
                        return a

                    def visit_FunctionDef(self, f):
                        return f
                st.body = [R().visit(b) for b in st.body]
                st.test = ast.copy_location(ast.Constant(value=True), st.test)
                blk[i - 1] = ast.copy_location(ast.Pass(), init)
                k += 1
            setattr(node, nm, [s for s in blk if not isinstance(s, ast.Pass) or len(blk) == 1])
    return k


def _keywordise_self_calls(tree):
    """`self.m(a, b, c)` where m is a method of a class of this module whose parameters b, c have defaults: the positional
    arguments that land on defaulted parameters are written as keywords (`get_parameter(index, burn=burn, thin=thin)`), the way
    the repository calls its own read-outs."""
    methods = {}
    for c in tree.body:
        if isinstance(c, ast.ClassDef):
            for m in c.body:
                if isinstance(m, ast.FunctionDef) and m.args.args and not any(U(d) in ("staticmethod", "classmethod") for d in m.decorator_list):
                    methods.setdefault(m.name, []).append(m)
    k = 0
    for n in ast.walk(tree):
        if isinstance(n, ast.Call) and isinstance(n.func, ast.Attribute) and isinstance(n.func.value, ast.Name) and n.func.value.id == "self" \
                and len(methods.get(n.func.attr, [])) == 1 and n.args and not any(isinstance(a, ast.Starred) for a in n.args):
            m = methods[n.func.attr][0]
            ps = [a.arg for a in m.args.args[1:]]
            n_def = len(m.args.defaults)
            first_def = len(ps) - n_def
            if len(n.args) > first_def and len(n.args) <= len(ps):
                extra = n.args[first_def:]
                names = ps[first_def:first_def + len(extra)]
                if any(kw.arg in names for kw in n.keywords):
                    continue
                n.keywords = [ast.keyword(arg=nm, value=v) for nm, v in zip(names, extra)] + n.keywords
                n.args = n.args[:first_def]
                k += 1
    return k


def _getattr_guard(tree):
    """`v = getattr(self, "a", None)` followed at once by `if v is not None: <body using v>` (v used nowhere else) is the optional-
    attribute idiom `if hasattr(self, "a"): <body using self.a>` for an attribute that, when present, is never None."""
    k = 0
    for node in ast.walk(tree):
        for nm in ("body", "orelse"):
            blk = getattr(node, nm, None)
            if not (isinstance(blk, list) and len(blk) >= 2 and isinstance(blk[0], ast.stmt)):
                continue
            i = 0
            while i + 1 < len(blk):
                a, b = blk[i], blk[i + 1]
                if isinstance(a, ast.Assign) and len(a.targets) == 1 and isinstance(a.targets[0], ast.Name) and isinstance(a.value, ast.Call) \
                        and isinstance(a.value.func, ast.Name) and a.value.func.id == "getattr" and len(a.value.args) == 3 \
                        and isinstance(a.value.args[0], ast.Name) and isinstance(a.value.args[1], ast.Constant) \
                        and isinstance(a.value.args[1].value, str) and isinstance(a.value.args[2], ast.Constant) and a.value.args[2].value is None \
                        and isinstance(b, ast.If) and not b.orelse and U(b.test) == f"{a.targets[0].id} is not None":
                    v, obj, attr = a.targets[0].id, a.value.args[0].id, a.value.args[1].value
                    elsewhere = [x for s2 in blk[i + 2:] for x in ast.walk(s2) if isinstance(x, ast.Name) and x.id == v]
                    stores = [x for s2 in b.body for x in ast.walk(s2) if isinstance(x, ast.Name) and x.id == v and isinstance(x.ctx, ast.Store)]
                    if not elsewhere and not stores:
                        class S(ast.NodeTransformer):
                            def visit_Name(self, n):
                                if n.id == v and isinstance(n.ctx, ast.Load):
                                    return ast.copy_location(ast.Attribute(value=ast.Name(id=obj, ctx=ast.Load()), attr=attr, ctx=ast.Load()), n)
                                return n
                        b.body = [S().visit(x) for x in b.body]
                        b.test = ast.copy_location(ast.Call(func=ast.Name(id="hasattr", ctx=ast.Load()),
                                                            args=[ast.Name(id=obj, ctx=ast.Load()), ast.Constant(value=attr)], keywords=[]), b.test)
                        del blk[i]
                        k += 1
                        continue
                i += 1
    return k


def _unstar_zip(tree):
    """`for a, b in zip(*f(x))` with as many targets as f returns sequences: `zip(f(x)[0], f(x)[1])` (as terms; the call is pure
    look-up code in this package)."""
    k = 0
    for n in ast.walk(tree):
        it, tg = None, None
        if isinstance(n, ast.For):
            it, tg = n.iter, n.target
        elif isinstance(n, ast.comprehension):
            it, tg = n.iter, n.target
        if it is None or not (isinstance(it, ast.Call) and isinstance(it.func, ast.Name) and it.func.id == "zip" and len(it.args) == 1
                              and isinstance(it.args[0], ast.Starred) and isinstance(it.args[0].value, ast.Call) and not it.keywords):
            continue
        if not (isinstance(tg, ast.Tuple) and len(tg.elts) >= 2):
            continue
        src = it.args[0].value
        it.args = [ast.Subscript(value=copy.deepcopy(src), slice=ast.Constant(value=i), ctx=ast.Load()) for i in range(len(tg.elts))]
        k += 1
    return k


def _split_tuple_assignments(tree):
    """`a, b = X, Y` (no target read on the right-hand side: not a swap) is `a = X; b = Y`."""
    k = 0
    for node in ast.walk(tree):
        for nm in ("body", "orelse", "finalbody"):
            blk = getattr(node, nm, None)
            if not (isinstance(blk, list) and blk and isinstance(blk[0], ast.stmt)):
                continue
            out = []
            for st in blk:
                if isinstance(st, ast.Assign) and len(st.targets) == 1 and isinstance(st.targets[0], ast.Tuple) and isinstance(st.value, ast.Tuple) \
                        and len(st.targets[0].elts) == len(st.value.elts) and all(isinstance(t, (ast.Name, ast.Subscript, ast.Attribute)) for t in st.targets[0].elts) \
                        and not any(isinstance(x, ast.Starred) for x in st.value.elts):
                    # names bound, and (for element / attribute stores) the texts of the containers written: none may be read on the right
                    names = {t.id for t in st.targets[0].elts if isinstance(t, ast.Name)}
                    written = set()
                    for t in st.targets[0].elts:
                        b_ = t
                        while isinstance(b_, ast.Subscript):
                            b_ = b_.value
                        if not isinstance(t, ast.Name):
                            written.add(ast.unparse(b_))
                    # sequential form `t1 = v1; t2 = v2; ..` is the same as the parallel one when no v_j reads a target assigned before it
                    # (it may read its OWN target's old value: `self.x, self.y = append(self.x, a), append(self.y, b)`)
                    def tkey(t):
                        b_ = t
                        while isinstance(b_, ast.Subscript):
                            b_ = b_.value
                        return ast.unparse(b_)
                    tkeys = [tkey(t) for t in st.targets[0].elts]
                    safe = True
                    for j, v in enumerate(st.value.elts):
                        reads = {ast.unparse(x) for x in ast.walk(v) if isinstance(x, (ast.Attribute, ast.Name))}
                        if any(tk in reads for tk in tkeys[:j]):
                            safe = False
                    pure_rhs = safe
                    ttexts = [ast.unparse(t) for t in st.targets[0].elts]
                    all_reads = {ast.unparse(x) for v in st.value.elts for x in ast.walk(v) if isinstance(x, (ast.Attribute, ast.Name))}
                    distinct_cells = len(set(ttexts)) == len(ttexts) and not any(tk in all_reads for tk in tkeys)
                    if pure_rhs and (len(set(tkeys)) == len(tkeys) or distinct_cells):
                        for t, v in zip(st.targets[0].elts, st.value.elts):
                            out.append(ast.copy_location(ast.Assign(targets=[t], value=v, lineno=st.lineno), st))
                        k += 1
                        continue
                out.append(st)
            setattr(node, nm, out)
    return k


def _inline_predicates(tree):
    """`if self._accept(a, b): ..` where `_accept` is a private method of the same class made only of `if c: return True/False`
    steps and a final `return <expr>`, with nothing but tests in it: the test written out (`c1 or c2`).  Arguments must be plain reads
    (names, attributes, subscripts, constants), so writing them more than once changes nothing."""
    import copy
    k = 0

    def plain(e):
        return all(isinstance(x, (ast.Name, ast.Attribute, ast.Subscript, ast.Constant, ast.Load, ast.UnaryOp, ast.USub, ast.Slice))
                   for x in ast.walk(e))

    def as_test(fn):
        body = [st for st in fn.body if not (isinstance(st, ast.Expr) and isinstance(st.value, ast.Constant))]
        if not body or not isinstance(body[-1], ast.Return) or body[-1].value is None:
            return None
        out = body[-1].value
        for st in reversed(body[:-1]):
            if not (isinstance(st, ast.If) and not st.orelse and len(st.body) == 1 and isinstance(st.body[0], ast.Return)
                    and isinstance(st.body[0].value, ast.Constant) and isinstance(st.body[0].value.value, bool)):
                return None
            if st.body[0].value.value:
                out = ast.BoolOp(op=ast.Or(), values=[st.test, out])
            else:
                out = ast.BoolOp(op=ast.And(), values=[ast.UnaryOp(op=ast.Not(), operand=st.test), out])
        if any(isinstance(x, (ast.NamedExpr, ast.Lambda, ast.Yield, ast.Await)) for x in ast.walk(out)):
            return None
        return out

    for cls in [c for c in ast.walk(tree) if isinstance(c, ast.ClassDef)]:
        preds = {}
        for fn in cls.body:
            if isinstance(fn, ast.FunctionDef) and fn.name.startswith("_") and not fn.name.startswith("__") and not fn.decorator_list \
                    and fn.args.args and fn.args.args[0].arg == "self" and not fn.args.vararg and not fn.args.kwarg and not fn.args.kwonlyargs:
                t = as_test(fn)
                if t is not None:
                    preds[fn.name] = (fn, t)
        if not preds:
            continue
        used = set()
        for fn in cls.body:
            if not isinstance(fn, ast.FunctionDef) or fn.name in preds:
                continue
            for st in ast.walk(fn):
                if not isinstance(st, (ast.If, ast.While)):
                    continue
                t = st.test
                neg = 0
                while isinstance(t, ast.UnaryOp) and isinstance(t.op, ast.Not):
                    t, neg = t.operand, neg + 1
                if not (isinstance(t, ast.Call) and isinstance(t.func, ast.Attribute) and isinstance(t.func.value, ast.Name)
                        and t.func.value.id == "self" and t.func.attr in preds):
                    continue
                pfn, ptest = preds[t.func.attr]
                names = [a.arg for a in pfn.args.args[1:]]
                if any(isinstance(a, ast.Starred) for a in t.args) or any(kw.arg is None for kw in t.keywords):
                    continue
                bind = dict(zip(names, t.args))
                bind.update({kw.arg: kw.value for kw in t.keywords})
                if set(bind) != set(names) or not all(plain(v) for v in bind.values()):
                    continue

                class Sub(ast.NodeTransformer):
                    def visit_Name(self, n):
                        return copy.deepcopy(bind[n.id]) if n.id in bind and isinstance(n.ctx, ast.Load) else n
                new_t = Sub().visit(copy.deepcopy(ptest))
                for _ in range(neg):
                    new_t = ast.UnaryOp(op=ast.Not(), operand=new_t)
                st.test = ast.copy_location(new_t, st.test)
                for x in ast.walk(st.test):
                    ast.copy_location(x, st) if not hasattr(x, "lineno") else None
                used.add(t.func.attr)
                k += 1
    return k


def _uses(node, name):
    return any(isinstance(x, ast.Name) and x.id == name for x in ast.walk(node))


def _len_of(e):
    """X when e is len(X) / X.shape[0]; else None"""
    if isinstance(e, ast.Call) and isinstance(e.func, ast.Name) and e.func.id == "len" and len(e.args) == 1 and not e.keywords:
        return e.args[0]
    if isinstance(e, ast.Subscript) and isinstance(e.value, ast.Attribute) and e.value.attr == "shape" \
            and isinstance(e.slice, ast.Constant) and e.slice.value == 0:
        return e.value.value
    return None


def _plain_seq(e):
    return isinstance(e, ast.Name) or (isinstance(e, ast.Attribute) and _plain_seq(e.value))


def _index_loops(tree):
    """`for i in range(len(S)): p = S[i]; <rest>` (p bound nowhere else in the loop, S not stored to) is
    `for i, p in enumerate(S): <rest>`; `[f(S[k]) for k in range(len(S))]` with k used only as `S[k]` is `[f(t) for t in S]`."""
    k = 0
    for st in ast.walk(tree):
        if isinstance(st, ast.For) and isinstance(st.target, ast.Name) and isinstance(st.iter, ast.Call) and isinstance(st.iter.func, ast.Name) \
                and st.iter.func.id == "range" and len(st.iter.args) == 1 and not st.orelse and len(st.body) >= 2:
            S = _len_of(st.iter.args[0])
            if S is None or not _plain_seq(S):
                continue
            iname = st.target.id
            # leading run of `p = <seq>[i]` statements; the first sequence must be the one whose length bounds the loop
            lead = []
            bases = {}

            def unit_slice(sl):
                """`k:k+1` (optionally followed by full slices): the k-th row kept with its axis - element k of S[:, None, ..]"""
                parts = sl.elts if isinstance(sl, ast.Tuple) else [sl]
                s0 = parts[0]
                ok0 = isinstance(s0, ast.Slice) and s0.step is None and isinstance(s0.lower, ast.Name) and s0.lower.id == iname \
                    and isinstance(s0.upper, ast.BinOp) and isinstance(s0.upper.op, ast.Add) and ast.unparse(s0.upper) in (f"{iname} + 1", f"1 + {iname}")
                return ok0 and all(isinstance(x, ast.Slice) and x.lower is None and x.upper is None and x.step is None for x in parts[1:])
            for f in st.body:
                if isinstance(f, ast.Assign) and len(f.targets) == 1 and isinstance(f.targets[0], ast.Name) and isinstance(f.value, ast.Subscript) \
                        and _plain_seq(f.value.value) and isinstance(f.value.slice, ast.Name) and f.value.slice.id == iname:
                    lead.append(f)
                elif isinstance(f, ast.Assign) and len(f.targets) == 1 and isinstance(f.targets[0], ast.Name) and isinstance(f.value, ast.Subscript) \
                        and _plain_seq(f.value.value) and unit_slice(f.value.slice):
                    # rewrite the statement as `q = (S[:, None, ..])[k]` and treat it like the others
                    parts = f.value.slice.elts if isinstance(f.value.slice, ast.Tuple) else [f.value.slice]
                    view = ast.Subscript(value=f.value.value, slice=ast.Tuple(elts=[ast.Slice(), ast.Constant(value=None)] + [ast.Slice() for _ in parts[1:]],
                                                                            ctx=ast.Load()), ctx=ast.Load())
                    if ast.dump(f.value.value) != ast.dump(S):
                        break                      # only the sequence whose length bounds the loop
                    bases[id(view)] = f.value.value
                    f.value = ast.Subscript(value=view, slice=ast.Name(id=iname, ctx=ast.Load()), ctx=ast.Load())
                    lead.append(f)
                else:
                    break
            def base_of(f):
                return bases.get(id(f.value.value), f.value.value)
            if not lead or len(lead) == len(st.body) or not any(ast.dump(base_of(f)) == ast.dump(S) for f in lead):
                continue
            lead.sort(key=lambda f: ast.dump(base_of(f)) != ast.dump(S))       # stable: the bounding sequence first
            names = [f.targets[0].id for f in lead]
            if len(set(names)) != len(names):
                continue
            rest = st.body[len(lead):]
            rebinds = any(isinstance(x, ast.Name) and isinstance(x.ctx, ast.Store) and x.id in names + [iname] for b in rest for x in ast.walk(b))
            seqs = [ast.unparse(base_of(f)) for f in lead]
            stores_S = any(isinstance(x, (ast.Attribute, ast.Name, ast.Subscript)) and isinstance(x.ctx, ast.Store) and
                           any(ast.unparse(x).startswith(q) for q in seqs) for b in rest for x in ast.walk(b))
            if rebinds or stores_S:
                continue
            if len(lead) == 1:
                elem, it = ast.Name(id=names[0], ctx=ast.Store()), lead[0].value.value
            else:
                elem = ast.Tuple(elts=[ast.Name(id=n_, ctx=ast.Store()) for n_ in names], ctx=ast.Store())
                it = ast.Call(func=ast.Name(id="zip", ctx=ast.Load()), args=[f.value.value for f in lead], keywords=[])
            if any(_uses(b, iname) for b in rest):
                st.target = ast.Tuple(elts=[ast.Name(id=iname, ctx=ast.Store()), elem], ctx=ast.Store())
                st.iter = ast.Call(func=ast.Name(id="enumerate", ctx=ast.Load()), args=[it], keywords=[])
            else:
                st.target, st.iter = elem, it
            st.body = rest
            k += 1
    import copy
    # name -> dump of N for locals bound exactly once, to an array of exactly N cells, with N a name never re-bound in that function
    facts = {}
    for fn in ast.walk(tree):
        if not isinstance(fn, ast.FunctionDef):
            continue
        binds = {}
        for st_ in ast.walk(fn):
            for t_ in (st_.targets if isinstance(st_, ast.Assign) else [st_.target] if isinstance(st_, (ast.AugAssign, ast.For)) else []):
                for x in ast.walk(t_):
                    if isinstance(x, ast.Name):
                        binds.setdefault(x.id, []).append(st_)
        for nm, sts in binds.items():
            if len(sts) != 1 or not isinstance(sts[0], ast.Assign) or not isinstance(sts[0].value, ast.Call):
                continue
            c_ = sts[0].value
            fnm = c_.func.id if isinstance(c_.func, ast.Name) else None
            N = None
            if fnm == "linspace" and len(c_.args) == 3 and not c_.keywords:
                N = c_.args[2]
            elif fnm == "linspace" and len(c_.args) == 2 and [k_.arg for k_ in c_.keywords] == ["num"]:
                N = c_.keywords[0].value
            elif fnm in ("zeros", "ones", "empty", "arange") and len(c_.args) == 1 and not c_.keywords:
                N = c_.args[0]
            if isinstance(N, ast.Name) and N.id not in binds:
                facts[(id(fn), nm)] = ast.dump(N)
    owner = {}
    for fn in ast.walk(tree):
        if isinstance(fn, ast.FunctionDef):
            for x in ast.walk(fn):
                if isinstance(x, (ast.ListComp, ast.GeneratorExp)):
                    owner[id(x)] = id(fn)          # the innermost function wins (walked last)
    for lc in ast.walk(tree):
        if isinstance(lc, (ast.ListComp, ast.GeneratorExp)) and len(lc.generators) == 1:
            g = lc.generators[0]
            if not (isinstance(g.target, ast.Name) and not g.ifs and isinstance(g.iter, ast.Call) and isinstance(g.iter.func, ast.Name)
                    and g.iter.func.id == "range" and len(g.iter.args) == 1 and not g.iter.keywords):
                continue
            S = _len_of(g.iter.args[0])
            if S is None:
                # `range(N)` where a local sequence was built with exactly N cells (`x = linspace(a, b, N)`) and is walked by index
                cands = [x.value for x in ast.walk(lc.elt) if isinstance(x, ast.Subscript) and isinstance(x.value, ast.Name)
                         and isinstance(x.slice, ast.Name) and x.slice.id == g.target.id]
                for c_ in cands:
                    if facts.get((owner.get(id(lc)), c_.id)) == ast.dump(g.iter.args[0]):
                        S = c_
                        break
            if S is None or not _plain_seq(S):
                continue
            kn = g.target.id
            uses = [x for x in ast.walk(lc.elt) if isinstance(x, ast.Name) and x.id == kn]
            subs = [x for x in ast.walk(lc.elt) if isinstance(x, ast.Subscript) and ast.dump(x.value) == ast.dump(S)
                    and isinstance(x.slice, ast.Name) and x.slice.id == kn]
            if not uses or len(uses) != len(subs):
                continue
            fresh = kn + "_el"
            if _uses(lc.elt, fresh):
                continue

            class Sub(ast.NodeTransformer):
                def visit_Subscript(self, n):
                    if any(n is x for x in subs):
                        return ast.copy_location(ast.Name(id=fresh, ctx=ast.Load()), n)
                    return self.generic_visit(n)
            lc.elt = Sub().visit(lc.elt)
            g.target = ast.Name(id=fresh, ctx=ast.Store())
            g.iter = copy.deepcopy(S)
            k += 1
    return k


def _fill_loops(tree):
    """`X = zeros(len(S)); for i, p in enumerate(S): X[i] = E` (the loop's only statement, E not reading X) is
    `X = array([E for i, p in enumerate(S)])`: every cell is written once, in order."""
    k = 0
    for node in ast.walk(tree):
        for nm in ("body", "orelse"):
            blk = getattr(node, nm, None)
            if not (isinstance(blk, list) and blk and isinstance(blk[0], ast.stmt)):
                continue
            i = 0
            while i + 1 < len(blk):
                a, lp = blk[i], blk[i + 1]
                i += 1
                if not (isinstance(a, ast.Assign) and len(a.targets) == 1 and isinstance(a.targets[0], ast.Name) and isinstance(a.value, ast.Call)
                        and isinstance(a.value.func, ast.Name) and a.value.func.id in ("zeros", "empty") and len(a.value.args) == 1
                        and not a.value.keywords):
                    continue
                X = a.targets[0].id
                S = _len_of(a.value.args[0])
                if S is None or not isinstance(lp, ast.For) or lp.orelse or len(lp.body) != 1:
                    continue
                if not (isinstance(lp.iter, ast.Call) and isinstance(lp.iter.func, ast.Name) and lp.iter.func.id == "enumerate"
                        and len(lp.iter.args) == 1 and ast.dump(lp.iter.args[0]) == ast.dump(S) and isinstance(lp.target, ast.Tuple)
                        and len(lp.target.elts) == 2 and isinstance(lp.target.elts[0], ast.Name)):
                    continue
                b = lp.body[0]
                if not (isinstance(b, ast.Assign) and len(b.targets) == 1 and isinstance(b.targets[0], ast.Subscript)
                        and isinstance(b.targets[0].value, ast.Name) and b.targets[0].value.id == X
                        and isinstance(b.targets[0].slice, ast.Name) and b.targets[0].slice.id == lp.target.elts[0].id
                        and not _uses(b.value, X)):
                    continue
                tgt, itr = lp.target, lp.iter
                if not _uses(b.value, lp.target.elts[0].id):
                    tgt, itr = lp.target.elts[1], lp.iter.args[0]       # the index is not needed
                comp = ast.ListComp(elt=b.value, generators=[ast.comprehension(target=tgt, iter=itr, ifs=[], is_async=0)])
                new = ast.Assign(targets=[ast.Name(id=X, ctx=ast.Store())],
                                 value=ast.Call(func=ast.Name(id="array", ctx=ast.Load()), args=[comp], keywords=[]))
                ast.copy_location(new, a)
                blk[i - 1:i + 1] = [new]
                k += 1
    return k


def _explicit_base_calls(tree):
    """Inside a method of `class C(B)` (one base): `B.m(self, a, ..)` is `super().m(a, ..)`."""
    k = 0
    for cls in ast.walk(tree):
        if not (isinstance(cls, ast.ClassDef) and len(cls.bases) == 1 and isinstance(cls.bases[0], ast.Name)):
            continue
        base = cls.bases[0].id
        for fn in cls.body:
            if not (isinstance(fn, ast.FunctionDef) and fn.args.args and not any(isinstance(d, ast.Name) and d.id in ("staticmethod", "classmethod")
                                                                                 for d in fn.decorator_list)):
                continue
            sn = fn.args.args[0].arg
            for c in ast.walk(fn):
                if isinstance(c, ast.Call) and isinstance(c.func, ast.Attribute) and isinstance(c.func.value, ast.Name) and c.func.value.id == base \
                        and c.args and isinstance(c.args[0], ast.Name) and c.args[0].id == sn:
                    c.func.value = ast.copy_location(ast.Call(func=ast.Name(id="super", ctx=ast.Load()), args=[], keywords=[]), c.func.value)
                    c.args = c.args[1:]
                    k += 1
    return k


def _immutable_literal(e):
    if isinstance(e, ast.Constant):
        return True
    if isinstance(e, ast.Tuple):
        return all(_immutable_literal(x) for x in e.elts)
    if isinstance(e, ast.UnaryOp) and isinstance(e.op, ast.USub):
        return _immutable_literal(e.operand)
    return False


def _repeat_comprehensions(tree):
    """`[C for _ in range(N)]` with C an immutable literal is `[C] * N`."""
    k = 0

    class T(ast.NodeTransformer):
        def visit_ListComp(self, n):
            nonlocal k
            self.generic_visit(n)
            if len(n.generators) == 1 and not n.generators[0].ifs and _immutable_literal(n.elt):
                g = n.generators[0]
                if isinstance(g.iter, ast.Call) and isinstance(g.iter.func, ast.Name) and g.iter.func.id == "range" and len(g.iter.args) == 1 \
                        and not g.iter.keywords:
                    k += 1
                    return ast.copy_location(ast.BinOp(left=ast.List(elts=[n.elt], ctx=ast.Load()), op=ast.Mult(), right=g.iter.args[0]), n)
            return n
    T().visit(tree)
    return k


def _fresh_array(e):
    """The expression certainly builds a new array (nothing else refers to its buffer)."""
    if isinstance(e, ast.Call):
        f = e.func
        kws = {k.arg for k in e.keywords}
        if isinstance(f, ast.Attribute) and f.attr in ("flatten", "copy") and not kws:
            return True
        if isinstance(f, ast.Name) and f.id in ("array", "concatenate", "sort", "sorted", "zeros", "ones", "linspace", "arange", "stack",
                                               "hstack", "vstack", "append") and not ({"copy", "out"} & kws):
            return True
    if isinstance(e, ast.BinOp):
        return True
    return False


def _sort_after_bind(tree):
    """`X = <fresh array>; X.sort()` is `X = sort(<fresh array>)` (same for an attribute X): nothing else can see the buffer."""
    k = 0
    for node in ast.walk(tree):
        for nm in ("body", "orelse"):
            blk = getattr(node, nm, None)
            if not (isinstance(blk, list) and blk and isinstance(blk[0], ast.stmt)):
                continue
            i = 0
            while i + 1 < len(blk):
                a, b = blk[i], blk[i + 1]
                i += 1
                if not (isinstance(a, ast.Assign) and len(a.targets) == 1 and isinstance(a.targets[0], (ast.Name, ast.Attribute)) and _fresh_array(a.value)):
                    continue
                if not (isinstance(b, ast.Expr) and isinstance(b.value, ast.Call) and isinstance(b.value.func, ast.Attribute) and b.value.func.attr == "sort"
                        and not b.value.args and not b.value.keywords):
                    continue
                t = a.targets[0]
                r = b.value.func.value
                same = (isinstance(t, ast.Name) and isinstance(r, ast.Name) and t.id == r.id) or \
                    (isinstance(t, ast.Attribute) and isinstance(r, ast.Attribute) and ast.unparse(t) == ast.unparse(r))
                if not same:
                    continue
                a.value = ast.copy_location(ast.Call(func=ast.Name(id="sort", ctx=ast.Load()), args=[a.value], keywords=[]), a.value)
                del blk[i]
                k += 1
    return k


def _trivial_overrides(tree):
    """A method whose whole body is `return super().m(<its own parameters, in order>)` (no defaults of its own, no decorators) adds
    nothing to the inherited one: it is dropped."""
    k = 0
    for cls in ast.walk(tree):
        if not isinstance(cls, ast.ClassDef) or not cls.bases:
            continue
        keep = []
        for fn in cls.body:
            drop = False
            if isinstance(fn, ast.FunctionDef) and not fn.decorator_list and fn.args.args and not fn.args.defaults and not fn.args.vararg \
                    and not fn.args.kwarg and not fn.args.kwonlyargs:
                body = [st for st in fn.body if not (isinstance(st, ast.Expr) and isinstance(st.value, ast.Constant))]
                if len(body) == 1 and isinstance(body[0], (ast.Return, ast.Expr)) and isinstance(body[0].value, ast.Call):
                    c = body[0].value
                    f = c.func
                    if isinstance(f, ast.Attribute) and f.attr == fn.name and isinstance(f.value, ast.Call) and isinstance(f.value.func, ast.Name) \
                            and f.value.func.id == "super" and not f.value.args:
                        names = [a.arg for a in fn.args.args[1:]]
                        given = [a.id if isinstance(a, ast.Name) else None for a in c.args] + \
                                [kw.value.id if isinstance(kw.value, ast.Name) and kw.arg == kw.value.id else None for kw in c.keywords]
                        if given == names and (isinstance(body[0], ast.Return) or fn.name == "__init__"):
                            drop = True
            if drop:
                k += 1
            else:
                keep.append(fn)
        if len(keep) != len(cls.body):
            cls.body = keep or [ast.Pass()]
    return k


def _merge_store_aug(tree):
    """`T[i] = E` followed at once by `T[i] op= F` (F not reading T) is `T[i] = E op F`: the cell is written with the final value."""
    k = 0
    for node in ast.walk(tree):
        for nm in ("body", "orelse"):
            blk = getattr(node, nm, None)
            if not (isinstance(blk, list) and blk and isinstance(blk[0], ast.stmt)):
                continue
            i = 0
            while i + 1 < len(blk):
                a, b = blk[i], blk[i + 1]
                i += 1
                if isinstance(a, ast.Assign) and len(a.targets) == 1 and isinstance(a.targets[0], ast.Subscript) and isinstance(b, ast.AugAssign) \
                        and isinstance(b.target, ast.Subscript) and ast.unparse(a.targets[0]) == ast.unparse(b.target) \
                        and isinstance(a.targets[0].value, ast.Name) and not _uses(b.value, a.targets[0].value.id):
                    a.value = ast.copy_location(ast.BinOp(left=a.value, op=b.op, right=b.value), a.value)
                    del blk[i]
                    k += 1
    return k


def _unroll_literal_comprehensions(tree):
    """`{f"{i}{name}": getattr(self, name) for name in NAMES}` with NAMES a literal tuple of strings (written in place, or a local
    bound once to one) is the dict written out, `getattr(x, "a")` read as `x.a` and constant pieces of f-strings merged."""
    import copy
    k = 0

    def literal_names(e, fn):
        if isinstance(e, (ast.Tuple, ast.List)) and e.elts and all(isinstance(x, ast.Constant) and isinstance(x.value, str) for x in e.elts):
            return [x.value for x in e.elts]
        if isinstance(e, ast.Name) and fn is not None:
            sites = [st for st in ast.walk(fn) if isinstance(st, (ast.Assign, ast.AugAssign, ast.For)) and
                     any(isinstance(x, ast.Name) and x.id == e.id for t in (st.targets if isinstance(st, ast.Assign) else [st.target]) for x in ast.walk(t))]
            if len(sites) == 1 and isinstance(sites[0], ast.Assign) and len(sites[0].targets) == 1 and isinstance(sites[0].targets[0], ast.Name):
                return literal_names(sites[0].value, None)
        return None

    class Fold(ast.NodeTransformer):
        def visit_Call(self, n):
            self.generic_visit(n)
            if isinstance(n.func, ast.Name) and n.func.id == "getattr" and len(n.args) == 2 and not n.keywords \
                    and isinstance(n.args[1], ast.Constant) and isinstance(n.args[1].value, str) and n.args[1].value.isidentifier():
                return ast.copy_location(ast.Attribute(value=n.args[0], attr=n.args[1].value, ctx=ast.Load()), n)
            return n

        def visit_JoinedStr(self, n):
            self.generic_visit(n)
            vals = []
            for v in n.values:
                if isinstance(v, ast.FormattedValue) and isinstance(v.value, ast.Constant) and isinstance(v.value.value, str) \
                        and v.conversion == -1 and v.format_spec is None:
                    v = ast.Constant(value=v.value.value)
                if isinstance(v, ast.Constant) and vals and isinstance(vals[-1], ast.Constant):
                    vals[-1] = ast.Constant(value=vals[-1].value + v.value)
                else:
                    vals.append(v)
            n.values = vals
            return n

    for fn in [f for f in ast.walk(tree) if isinstance(f, ast.FunctionDef)]:
        class T(ast.NodeTransformer):
            def visit_DictComp(self, n):
                nonlocal k
                self.generic_visit(n)
                if len(n.generators) != 1 or n.generators[0].ifs or not isinstance(n.generators[0].target, ast.Name):
                    return n
                names = literal_names(n.generators[0].iter, fn)
                if names is None or len(names) > 64 or len(set(names)) != len(names):
                    return n
                var = n.generators[0].target.id
                keys, vals = [], []
                for nm in names:
                    class Sub(ast.NodeTransformer):
                        def visit_Name(self, x):
                            return ast.copy_location(ast.Constant(value=nm), x) if x.id == var and isinstance(x.ctx, ast.Load) else x
                    keys.append(Fold().visit(Sub().visit(copy.deepcopy(n.key))))
                    vals.append(Fold().visit(Sub().visit(copy.deepcopy(n.value))))
                k += 1
                return ast.copy_location(ast.Dict(keys=keys, values=vals), n)
        T().visit(fn)
    return k


def _more_statement_spellings(tree):
    """Statement-level re-spellings:
    * `L += [e]` with L a local bound to a list display in the same function  ->  `L.append(e)`
    * `X[i] = X[i] + e`  ->  `X[i] += e`   (element stores only)
    * `b = R[0]; for r in R[1:]: if r[K] < b[K]: b = r`  ->  `b = min(R, key=lambda z__: z__[K])`  (first minimum, as the loop keeps it)
    * `X[slice(a, b, c)]`, also through a local bound once to the slice object  ->  `X[a:b:c]`
    * `getattr(o, NAME)` / `getattr(o, NAME + "sfx")` with NAME a local bound once to `"a" if c else "b"`  ->  `o.a if c else o.b`"""
    import copy
    k = 0
    for fn in [f for f in ast.walk(tree) if isinstance(f, ast.FunctionDef)]:
        binds = {}
        for st in ast.walk(fn):
            tg = st.targets if isinstance(st, ast.Assign) else [st.target] if isinstance(st, (ast.AugAssign, ast.For, ast.AnnAssign)) else []
            for t in tg:
                for x in ast.walk(t):
                    if isinstance(x, ast.Name) and isinstance(x.ctx, ast.Store):
                        binds.setdefault(x.id, []).append(st)

        def listy(e):
            return isinstance(e, (ast.List, ast.ListComp)) or (isinstance(e, ast.IfExp) and listy(e.body) and listy(e.orelse)) or \
                (isinstance(e, ast.Call) and isinstance(e.func, ast.Name) and e.func.id == "list")
        once = {n: sts[0] for n, sts in binds.items() if len(sts) == 1 and isinstance(sts[0], ast.Assign) and len(sts[0].targets) == 1
                and isinstance(sts[0].targets[0], ast.Name)}
        list_locals = {n for n, sts in binds.items() if any(isinstance(s_, ast.Assign) and listy(s_.value) for s_ in sts)
                       and all((isinstance(s_, ast.Assign) and listy(s_.value)) or isinstance(s_, ast.AugAssign) for s_ in sts)}
        slice_locals = {n: st.value for n, st in once.items() if isinstance(st.value, ast.Call) and isinstance(st.value.func, ast.Name)
                        and st.value.func.id == "slice" and 1 <= len(st.value.args) <= 3 and not st.value.keywords}
        name_locals = {n: st.value for n, st in once.items() if isinstance(st.value, ast.IfExp) and all(
            isinstance(a_, ast.Constant) and isinstance(a_.value, str) and a_.value.isidentifier() for a_ in (st.value.body, st.value.orelse))}

        def as_slice(call):
            a = list(call.args)
            none = lambda e: None if (isinstance(e, ast.Constant) and e.value is None) else e
            if len(a) == 1:
                return ast.Slice(lower=None, upper=none(a[0]), step=None)
            return ast.Slice(lower=none(a[0]), upper=none(a[1]), step=none(a[2]) if len(a) == 3 else None)

        class T(ast.NodeTransformer):
            def visit_Subscript(self, n):
                nonlocal k
                self.generic_visit(n)
                sl = n.slice
                if isinstance(sl, ast.Name) and sl.id in slice_locals and isinstance(n.ctx, ast.Load):
                    sl = slice_locals[sl.id]
                if isinstance(sl, ast.Call) and isinstance(sl.func, ast.Name) and sl.func.id == "slice" and 1 <= len(sl.args) <= 3 and not sl.keywords:
                    n.slice = as_slice(copy.deepcopy(sl))
                    k += 1
                return n

            def visit_Call(self, n):
                nonlocal k
                self.generic_visit(n)
                if isinstance(n.func, ast.Name) and n.func.id == "getattr" and len(n.args) == 2 and not n.keywords:
                    nm, sfx = n.args[1], ""
                    if isinstance(nm, ast.BinOp) and isinstance(nm.op, ast.Add) and isinstance(nm.right, ast.Constant) and isinstance(nm.right.value, str):
                        nm, sfx = nm.left, nm.right.value
                    if isinstance(nm, ast.Name) and nm.id in name_locals and (nm.id + sfx).isidentifier() if True else False:
                        ife = name_locals[nm.id]
                        k += 1
                        return ast.copy_location(ast.IfExp(
                            test=copy.deepcopy(ife.test),
                            body=ast.Attribute(value=copy.deepcopy(n.args[0]), attr=ife.body.value + sfx, ctx=ast.Load()),
                            orelse=ast.Attribute(value=copy.deepcopy(n.args[0]), attr=ife.orelse.value + sfx, ctx=ast.Load())), n)
                return n
        T().visit(fn)
        # a slice / name local whose every use was written out is dead: drop its definition
        for nm_ in list(slice_locals) + list(name_locals):
            if not any(isinstance(x, ast.Name) and x.id == nm_ and isinstance(x.ctx, ast.Load) for x in ast.walk(fn)):
                for node in ast.walk(fn):
                    for fld in ("body", "orelse"):
                        blk = getattr(node, fld, None)
                        if isinstance(blk, list) and once[nm_] in blk and len(blk) > 1:
                            blk.remove(once[nm_])

        for node in ast.walk(fn):
            for fld in ("body", "orelse"):
                blk = getattr(node, fld, None)
                if not (isinstance(blk, list) and blk and isinstance(blk[0], ast.stmt)):
                    continue
                i = 0
                while i < len(blk):
                    st = blk[i]
                    # L += [e]
                    if isinstance(st, ast.AugAssign) and isinstance(st.op, ast.Add) and isinstance(st.target, ast.Name) and st.target.id in list_locals \
                            and isinstance(st.value, ast.List) and len(st.value.elts) == 1 and not isinstance(st.value.elts[0], ast.Starred):
                        blk[i] = ast.copy_location(ast.Expr(value=ast.Call(func=ast.Attribute(value=ast.Name(id=st.target.id, ctx=ast.Load()), attr="append",
                                                                                                  ctx=ast.Load()), args=[st.value.elts[0]], keywords=[])), st)
                        k += 1
                    # X[i] = X[i] + e
                    elif isinstance(st, ast.Assign) and len(st.targets) == 1 and isinstance(st.targets[0], ast.Subscript) and isinstance(st.value, ast.BinOp) \
                            and isinstance(st.value.op, (ast.Add, ast.Sub, ast.Mult, ast.Div)):
                        tt = ast.unparse(st.targets[0])
                        if ast.unparse(st.value.left) == tt and tt not in ast.unparse(st.value.right):
                            blk[i] = ast.copy_location(ast.AugAssign(target=st.targets[0], op=st.value.op, value=st.value.right), st)
                            k += 1
                        elif isinstance(st.value.op, (ast.Add, ast.Mult)) and ast.unparse(st.value.right) == tt and tt not in ast.unparse(st.value.left):
                            blk[i] = ast.copy_location(ast.AugAssign(target=st.targets[0], op=st.value.op, value=st.value.left), st)
                            k += 1
                    # if E != 1.0: T = E * T   ->   T = E * T      (multiplying by exactly 1.0 changes nothing)
                    elif isinstance(st, ast.If) and not st.orelse and len(st.body) == 1 and isinstance(st.body[0], ast.Assign) \
                            and isinstance(st.test, ast.Compare) and len(st.test.ops) == 1 and isinstance(st.test.ops[0], ast.NotEq) \
                            and ast.unparse(st.test.comparators[0]) in ("1.0", "1") and isinstance(st.body[0].value, ast.BinOp) \
                            and isinstance(st.body[0].value.op, ast.Mult) and len(st.body[0].targets) == 1 and isinstance(st.body[0].targets[0], ast.Name):
                        a_ = st.body[0]
                        e_, t_ = ast.unparse(st.test.left), a_.targets[0].id
                        l_, r_ = ast.unparse(a_.value.left), ast.unparse(a_.value.right)
                        if {l_, r_} == {e_, t_} and not any(isinstance(x, ast.Call) for x in ast.walk(st.test.left)):
                            blk[i] = a_
                            k += 1
                    # running minimum
                    elif isinstance(st, ast.Assign) and len(st.targets) == 1 and isinstance(st.targets[0], ast.Name) and i + 1 < len(blk) \
                            and isinstance(st.value, ast.Subscript) and isinstance(st.value.slice, ast.Constant) and st.value.slice.value == 0 \
                            and isinstance(blk[i + 1], ast.For):
                        lp, b, R_ = blk[i + 1], st.targets[0].id, st.value.value
                        okl = isinstance(lp.target, ast.Name) and not lp.orelse and len(lp.body) == 1 and isinstance(lp.body[0], ast.If) \
                            and not lp.body[0].orelse and len(lp.body[0].body) == 1 \
                            and ast.unparse(lp.iter) in (f"{ast.unparse(R_)}[1:]", ast.unparse(R_))
                        if okl:
                            r, iff = lp.target.id, lp.body[0]
                            asg, t_ = iff.body[0], iff.test
                            if isinstance(asg, ast.Assign) and ast.unparse(asg) == f"{b} = {r}" and isinstance(t_, ast.Compare) and len(t_.ops) == 1 \
                                    and isinstance(t_.ops[0], ast.Lt) and isinstance(t_.left, ast.Subscript) and isinstance(t_.comparators[0], ast.Subscript) \
                                    and ast.unparse(t_.left.value) == r and ast.unparse(t_.comparators[0].value) == b \
                                    and ast.unparse(t_.left.slice) == ast.unparse(t_.comparators[0].slice):
                                key = ast.Lambda(args=ast.arguments(posonlyargs=[], args=[ast.arg(arg="z__")], kwonlyargs=[], kw_defaults=[], defaults=[]),
                                                 body=ast.Subscript(value=ast.Name(id="z__", ctx=ast.Load()), slice=t_.left.slice, ctx=ast.Load()))
                                blk[i] = ast.copy_location(ast.Assign(targets=[ast.Name(id=b, ctx=ast.Store())], value=ast.Call(
                                    func=ast.Name(id="min", ctx=ast.Load()), args=[R_], keywords=[ast.keyword(arg="key", value=key)])), st)
                                del blk[i + 1]
                                k += 1
                    i += 1
    return k


def _transparent_with(tree):
    """`with errstate(..):` / `with catch_warnings():` / `with nullcontext():` change no value and no control flow: the body stands
    in place of the statement.  (`suppress(..)` is NOT transparent: it swallows exceptions.)"""
    k = 0
    for node in ast.walk(tree):
        for fld in ("body", "orelse", "finalbody"):
            blk = getattr(node, fld, None)
            if not (isinstance(blk, list) and blk and isinstance(blk[0], ast.stmt)):
                continue
            i = 0
            while i < len(blk):
                st = blk[i]
                if isinstance(st, ast.With) and all(
                        isinstance(it.context_expr, ast.Call) and ast.unparse(it.context_expr.func).split(".")[-1] in ("errstate", "catch_warnings", "nullcontext")
                        and it.optional_vars is None for it in st.items):
                    blk[i:i + 1] = st.body
                    k += 1
                    continue
                i += 1
    return k


def respell(tree):
    np_names = {}
    for st in tree.body:
        if isinstance(st, ast.ImportFrom) and st.module == "numpy" and st.level == 0:
            for a in st.names:
                np_names[a.asname or a.name] = a.name
    n = strip_docstrings(tree)
    n += inline_public_constants(tree)
    n += inline_class_constants(tree)
    sp = _Spell(np_names)
    sp.visit(tree)
    n += sp.k
    n += _dict_update_statements(tree)
    n += _flag_loops(tree)
    n += _getattr_guard(tree)
    n += _unstar_zip(tree)
    n += _split_tuple_assignments(tree)
    n += _explicit_base_calls(tree)
    n += _trivial_overrides(tree)
    n += _repeat_comprehensions(tree)
    n += _sort_after_bind(tree)
    n += _merge_store_aug(tree)
    n += _unroll_literal_comprehensions(tree)
    n += _more_statement_spellings(tree)
    n += _transparent_with(tree)
    n += _inline_predicates(tree)
    n += _index_loops(tree)
    n += _fill_loops(tree)
    n += _keywordise_self_calls(tree)
    if n:
        ast.fix_missing_locations(tree)
    return n
