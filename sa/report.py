"""Obligations, evidence writer, known-findings matching, exit codes.

Exit codes: 0 = every obligation discharged or a listed known finding;
1 = at least one unlisted failure (prints VIOLATION ...); 2 = analysis error
(anchor vanished, instance floor not met, construct outside the modelled subset).
"""
from __future__ import annotations
import json, os, time, hashlib

VERIF = os.path.dirname(os.path.dirname(os.path.abspath(__file__)))
REPO = os.environ.get("SA_REPO", "/repo")
# scratch runs against a copy of the tree (seeded-change regression, self-test) must not overwrite the committed evidence
EVDIR = os.environ.get("SA_EVIDENCE_DIR") or os.path.join(VERIF, "evidence")


class AnalysisError(Exception):
    """The analysis could not be performed (never a violation)."""


class Ob:
    """One decided obligation."""
    __slots__ = ("rule", "construct", "detail", "ok", "msg", "file", "line",
                 "slots", "nontrivial", "tier")

    def __init__(self, rule, construct, ok, detail="", msg="", file="", line=0,
                 slots=None, nontrivial=True, tier="S"):
        self.rule = rule
        self.construct = construct
        self.detail = detail
        self.ok = bool(ok)
        self.msg = msg
        self.file = file
        self.line = line
        self.slots = slots or {}
        self.nontrivial = nontrivial
        self.tier = tier

    def key(self):
        return (self.rule, self.construct, self.detail)

    def as_dict(self):
        return {"rule": self.rule, "construct": self.construct, "detail": self.detail,
                "ok": self.ok, "msg": self.msg, "where": f"{self.file}:{self.line}",
                "tier": self.tier, "slots": self.slots}


def load_known(pid):
    path = os.path.join(VERIF, "known_findings.json")
    if not os.path.exists(path):
        return [], []
    data = json.load(open(path))
    findings = [f for f in data.get("findings", []) if f["property"] == pid]
    fixed = [f for f in data.get("fixed", []) if f["property"] == pid]
    return findings, fixed


def finish(pid, tier, obs, floors, t0, extra=None, explanation="", assumptions=None,
           info=None, residue=None):
    """Write evidence, print the report, return the exit code."""
    seed = int(os.environ.get("VERIF_SEED", "0") or 0)
    counts = {}
    for o in obs:
        counts[o.rule] = counts.get(o.rule, 0) + 1
    floor_errors = [f"{r}: found {counts.get(r, 0)} instance(s), floor {n}"
                    for r, n in floors.items() if counts.get(r, 0) < n]
    findings, fixed = load_known(pid)
    known_keys = {(f["rule"], f["construct"], f.get("detail", "")): f for f in findings}
    failures = [o for o in obs if not o.ok]
    unlisted, listed = [], []
    withheld = []
    for o in failures:
        if o.key() in known_keys:
            listed.append(o)
            continue
        why = next((w for fnq, w in (residue or {}).items() if o.construct == fnq or o.construct.startswith(fnq + "[")
                    or o.construct.startswith(fnq + ".") or o.construct.startswith(fnq + "->")), None)
        # effect obligations (tier E: which stores a function writes, through any helper) and formula obligations (tiers F / M) compare values computed through the expander, for which the names of inlined
        # locals are immaterial: they stand; only shape-based (structural) obligations are withheld
        if why and getattr(o, "tier", "S") not in ("F", "M", "E") and os.environ.get("SA_WITHHOLD", "1") != "0":
            withheld.append((o, why))
        else:
            unlisted.append(o)

    for line in (info or []):
        print("INFO " + line)
    for o in listed:
        print(f"KNOWN-FINDING: property={pid} {o.rule} {o.construct} {o.detail} :: {o.msg[:220]}")
    replay_dir = os.path.join(EVDIR, "replay")
    os.makedirs(replay_dir, exist_ok=True)
    for fn in os.listdir(replay_dir):
        if fn.startswith(pid + "-"):
            os.remove(os.path.join(replay_dir, fn))
    for k, o in enumerate(unlisted, 1):
        rp = os.path.join(replay_dir, f"{pid}-{k}.json")
        json.dump({"property": pid, **o.as_dict()}, open(rp, "w"), indent=1, default=str)
        print(f"{o.file}:{o.line} {o.construct}  {pid}.{o.rule}")
        print(f"    {o.msg}")
        if o.detail:
            print(f"    detail: {o.detail}")
        print(f"VIOLATION property={pid} replay={rp}")

    nontriv = {(o.rule, o.construct, o.detail) for o in obs if o.nontrivial}
    samples = [o.as_dict() for o in obs if o.nontrivial][:6]
    cov = {
        "explanation": explanation,
        "evaluations": len(obs),
        "distinct_nontrivial": len(nontriv),
        "rule": "one evaluation = one obligation (rule instantiated at a construct found in "
                "/repo's current source); non-trivial = at least one slot of the rule was "
                "resolved from the code (not matched by name only); distinct = distinct "
                "(rule, construct, detail) triples",
        "samples": samples,
        "obligations": len(obs),
        "discharged": len(obs) - len(failures),
        "rule_instances": counts,
        "instance_floors": floors,
        "known_findings_printed": len(listed),
        "violations_unlisted": len(unlisted),
        "verdicts_withheld": len(withheld),
    }
    if extra:
        cov.update(extra)
    ev = {
        "property_id": pid, "tier": tier, "seed": seed, "level": "other",
        "coverage": cov,
        "assumptions": assumptions or [],
        "wall_s": round(time.time() - t0, 3),
        "violations": len(unlisted),
    }
    os.makedirs(EVDIR, exist_ok=True)
    with open(os.path.join(EVDIR, f"{pid}.json"), "w") as fh:
        json.dump(ev, fh, indent=1, default=str)

    print(f"[{pid}] tier={tier} obligations={len(obs)} discharged={len(obs)-len(failures)} "
          f"known={len(listed)} unlisted={len(unlisted)} rules={counts}")
    for o, why in withheld:
        print(f"ANALYSIS-ERROR property={pid} verdict withheld: {o.rule} at {o.construct} could not be decided - the function was "
              f"restructured beyond what the normaliser undoes ({why})")
    if withheld and not unlisted:
        return 2
    if floor_errors:
        for e in floor_errors:
            print(f"ANALYSIS-ERROR property={pid} instance floor not met: {e}")
        # a reported violation stands on its own; an unmet floor without any violation is analysis-broken
        return 1 if unlisted else 2
    return 1 if unlisted else 0
