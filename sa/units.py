"""Engine G - units-of-measure / affine (shift) / log-domain type inference for the pdf package.

One base dimension X (the unit of the data).  A value has type
    Lin(p, s)  - scales as X^p; under a data shift x -> x + c it changes by s*c, where s is an
                 exact coefficient (a normal-form polynomial in non-data constants), or the marker
                 W (the change is c times a data-dependent weight) or NL (non-linear in c);
    Log(p)     - the logarithm of a Lin(p, 0) value (transforms additively under rescaling);
    Idx / Bool / Str / None / Tup / Seq / Fn / Top (unknown: never raises an alarm).
The literal 0 is polymorphic.  A judgement  f : Lin(1,1) -> Lin(-1,0)  is a statement about all
samples, scales and shifts at once; nothing is executed.
"""
from __future__ import annotations
import ast
from fractions import Fraction
from .anf import R, Unsupported
from . import anf

W, NL = "W", "NL"


class Ty:
    kind = "top"

    def __repr__(self):
        return "Top"


TOP = Ty()


class Lin(Ty):
    kind = "lin"

    def __init__(self, p, s=0, const=False, val=None, zero=False):
        self.p = Fraction(p)
        self.s = s if isinstance(s, (str, R)) else R.const(Fraction(s))
        self.const = const
        self.val = val
        self.zero = zero          # the literal 0: additive identity of any Lin

    def shift_is_zero(self):
        return isinstance(self.s, R) and self.s.is_zero()

    def __repr__(self):
        s = self.s if isinstance(self.s, str) else str(self.s)
        return f"Lin({self.p},{s})" + ("c" if self.const else "")


class Log(Ty):
    kind = "log"

    def __init__(self, p):
        self.p = None if p is None else Fraction(p)

    def __repr__(self):
        return f"Log({self.p})"


class Simple(Ty):
    def __init__(self, kind):
        self.kind = kind

    def __repr__(self):
        return self.kind.capitalize()


IDX, BOOL, NONE, STR = Simple("idx"), Simple("bool"), Simple("none"), Simple("str")


class Tup(Ty):
    kind = "tup"

    def __init__(self, items):
        self.items = list(items)

    def __repr__(self):
        return "Tup(" + ", ".join(map(repr, self.items)) + ")"


class Seq(Ty):
    """Homogeneous sequence / array-of-arrays with element type."""
    kind = "seq"

    def __init__(self, elem):
        self.elem = elem

    def __repr__(self):
        return f"Seq[{self.elem!r}]"


class Fn(Ty):
    kind = "fn"

    def __init__(self, call):
        self.call = call          # python callable: (list of arg types, dict kw types) -> type

    def __repr__(self):
        return "Fn"


def num(v=None):
    return Lin(0, 0, const=True, val=(R.const(Fraction(repr(v)) if isinstance(v, float) else v) if v is not None else None),
               zero=(v == 0))


class Violation:
    def __init__(self, kind, line, text, detail):
        self.kind, self.line, self.text, self.detail = kind, line, text, detail

    def key(self):
        return (self.kind, self.text)


class Units:
    def __init__(self, prog, rel):
        self.prog = prog
        self.mi = prog.module(rel)
        self.violations = []
        self.attr_types = {}     # (class, attr) -> type
        self.depth = 0
        self.fresh = 0
        self.stats = {"expressions": 0, "calls": 0}

    # ---------------------------------------------------------------- reporting
    def report(self, kind, node, detail):
        v = Violation(kind, getattr(node, "lineno", 0), ast.unparse(node)[:120], detail)
        if v.key() not in {x.key() for x in self.violations}:
            self.violations.append(v)

    # ---------------------------------------------------------------- type algebra
    def join(self, a, b):
        if a is NONE:
            return b          # an optional value is typed by its non-None alternative
        if b is NONE:
            return a
        if a is TOP or b is TOP:
            return TOP
        if isinstance(a, Lin) and isinstance(b, Lin):
            if a.zero:
                return b
            if b.zero:
                return a
            if a.p == b.p and self._same_shift(a.s, b.s):
                return Lin(a.p, a.s, a.const and b.const)
            if a.p == b.p:
                s = NL if NL in (a.s, b.s) else (W if W in (a.s, b.s) else None)
                return Lin(a.p, s, False) if s else TOP
            return TOP
        if isinstance(a, Log) and isinstance(b, Log):
            return Log(a.p if a.p == b.p else None)
        if isinstance(a, Tup) and isinstance(b, Tup) and len(a.items) == len(b.items):
            return Tup([self.join(x, y) for x, y in zip(a.items, b.items)])
        if isinstance(a, Seq) and isinstance(b, Seq):
            return Seq(self.join(a.elem, b.elem))
        # an array (or a homogeneous sequence) on one arm, a tuple of its would-be elements on the other (`hdi(s) if c else (s[0], s[-1])`):
        # element-wise, the array standing for each of its elements
        for x, y in ((a, b), (b, a)):
            if isinstance(x, Tup) and isinstance(y, (Lin, Seq)) and x.items:
                e = y.elem if isinstance(y, Seq) else y
                return Tup([self.join(it, e) for it in x.items])
        if a.kind == b.kind and a.kind in ("idx", "bool", "none", "str"):
            return a
        return TOP

    def _same_shift(self, s, t):
        if isinstance(s, str) or isinstance(t, str):
            return s == t
        return s.eq(t)

    @staticmethod
    def _numify(t):
        return Lin(0, 0, const=True) if t is IDX or t is BOOL else t

    def add(self, a, b, node, sign=1):
        self.stats["expressions"] += 1
        a, b = self._numify(a), self._numify(b)
        if isinstance(a, Seq) and isinstance(b, (Lin, Log)):
            return Seq(self.add(a.elem, b, node, sign))
        if isinstance(b, Seq) and isinstance(a, (Lin, Log)):
            return Seq(self.add(a, b.elem, node, sign))
        if isinstance(a, Log) and isinstance(b, Log):
            if a.p is None or b.p is None:
                return Log(None)
            return Log(a.p + sign * b.p)
        if isinstance(a, Log) and isinstance(b, Lin) or isinstance(a, Lin) and isinstance(b, Log):
            lg, ln = (a, b) if isinstance(a, Log) else (b, a)
            if ln.zero or (ln.p == 0 and ln.shift_is_zero()):
                # log-quantity +/- pure number: the logarithm of a rescaled quantity (sign matters when the log is subtracted)
                if lg.p is None:
                    return Log(None)
                return Log(lg.p if lg is a else sign * lg.p)
            self.report("log-plus-dimensional", node, f"{a!r} and {b!r} are added: a logarithm and a dimensional quantity")
            return TOP
        if not (isinstance(a, Lin) and isinstance(b, Lin)):
            return TOP
        if a.zero:
            return b if sign == 1 else Lin(b.p, self._neg(b.s), b.const, None)
        if b.zero:
            return a
        if a.p != b.p:
            what = "a pure number" if (a.p == 0 or b.p == 0) else "a quantity of another dimension"
            self.report("dimension-mismatch", node,
                        f"operands have types {a!r} and {b!r}: a quantity scaling as X^{a.p if a.p != 0 else b.p} is combined with {what}, "
                        f"so the result does not rescale with the data")
            return TOP
        s = self._add_shift(a.s, b.s, sign)
        val = None
        if a.val is not None and b.val is not None:
            val = a.val + b.val if sign == 1 else a.val - b.val
        return Lin(a.p, s, a.const and b.const, val)

    def _neg(self, s):
        return s if isinstance(s, str) else -s

    def _add_shift(self, s, t, sign):
        if NL in (s, t):
            return NL
        if W in (s, t):
            return W
        return s + t if sign == 1 else s - t

    def mul(self, a, b, node, div=False):
        self.stats["expressions"] += 1
        a, b = self._numify(a), self._numify(b)
        if isinstance(a, Seq) and isinstance(b, (Lin,)):
            return Seq(self.mul(a.elem, b, node, div))
        if isinstance(b, Seq) and isinstance(a, (Lin,)):
            return Seq(self.mul(a, b.elem, node, div))
        if isinstance(a, Log) and isinstance(b, Lin) and b.const and b.p == 0 and not div:
            return Log(None if a.p is None or b.val is None or not b.val.is_const() else a.p * b.val.const_value())
        if isinstance(b, Log) and isinstance(a, Lin) and a.const and a.p == 0 and not div:
            return Log(None if b.p is None or a.val is None or not a.val.is_const() else b.p * a.val.const_value())
        if isinstance(a, Log) and isinstance(b, Lin) and b.const and b.p == 0 and div:
            return Log(None if a.p is None or b.val is None or not b.val.is_const() or b.val.const_value() == 0
                       else a.p / b.val.const_value())
        if not (isinstance(a, Lin) and isinstance(b, Lin)):
            return TOP
        p = a.p - b.p if div else a.p + b.p
        az, bz = a.shift_is_zero(), b.shift_is_zero()
        val = None
        if a.val is not None and b.val is not None:
            try:
                val = a.val.div(b.val) if div else a.val * b.val
            except Unsupported:
                val = None
        if a.zero and not div:
            return Lin(p, 0, True, R.const(0), zero=True)
        if az and bz:
            return Lin(p, 0, a.const and b.const, val)
        tainted = isinstance(a.s, str) or isinstance(b.s, str)
        if div and not bz:
            if not tainted:
                self.report("nonlinear-in-shift", node, f"division by a quantity that moves with a data shift ({b!r})")
            return Lin(p, NL)
        if not az and not bz:
            if not tainted:
                self.report("nonlinear-in-shift", node,
                            f"product of two quantities that both move with a data shift ({a!r} * {b!r}): the result is not affine in the shift")
            return Lin(p, NL)
        shifted, other = (a, b) if not az else (b, a)
        if shifted.s in (W, NL):
            return Lin(p, shifted.s)
        if other.const and other.val is not None and other.p == 0:
            try:
                s = shifted.s.div(other.val) if (div and shifted is a) else shifted.s * other.val
            except Unsupported:
                s = W
            return Lin(p, s)
        if other.const and other.p == 0:
            return Lin(p, W)
        # (value + s c) * (data-dependent weight): moves by c times that weight
        return Lin(p, W)

    def power(self, a, k, node):
        self.stats["expressions"] += 1
        a, k = self._numify(a), self._numify(k)
        if isinstance(a, Seq):
            return Seq(self.power(a.elem, k, node))
        if not isinstance(a, Lin):
            return TOP
        kv = None
        if isinstance(k, Lin) and k.val is not None and k.val.is_const():
            kv = k.val.const_value()
        if a.shift_is_zero():
            if kv is not None:
                return Lin(a.p * kv, 0, a.const, None)
            if a.p == 0:
                return Lin(0, 0, a.const)
            return TOP
        if kv == 1:
            return a
        if not isinstance(a.s, str):
            self.report("nonlinear-in-shift", node,
                        f"a quantity that moves with a data shift ({a!r}) is raised to a power: raw power moments are not shift-covariant")
        return Lin(a.p * kv if kv is not None else 0, NL)

    def dimensionless(self, a, node, fname):
        """Argument of a transcendental function must be a pure number."""
        if isinstance(a, Seq):
            return self.dimensionless(a.elem, node, fname)
        if isinstance(a, Lin):
            if a.p != 0 or not a.shift_is_zero():
                if not isinstance(a.s, str):
                    self.report("transcendental-of-dimensional", node,
                                f"{fname} applied to a value of type {a!r} (must be a pure number): the result depends on the unit / origin of the data")
                return False
            return True
        return None

    # ---------------------------------------------------------------- numpy / scipy signatures
    def call_external(self, q, short, args, kws, node):
        self.stats["calls"] += 1
        A = args
        def a0():
            return A[0] if A else TOP
        if short in ("exp",):
            x = a0()
            if isinstance(x, Seq):
                return Seq(self.call_external(q, short, [x.elem], kws, node))
            if isinstance(x, Log):
                return Lin(x.p, 0) if x.p is not None else TOP
            if self.dimensionless(x, node, "exp") is True:
                return Lin(0, 0, x.const)
            return TOP if not isinstance(x, Lin) else Lin(0, 0)
        if short in ("erf", "tanh", "cos", "sin", "erfcx", "log1p"):
            self.dimensionless(a0(), node, short)
            x = a0()
            return Seq(Lin(0, 0)) if isinstance(x, Seq) else Lin(0, 0, isinstance(x, Lin) and x.const)
        if short == "log":
            x = a0()
            if isinstance(x, Seq):
                return Seq(self.call_external(q, short, [x.elem], kws, node))
            if isinstance(x, Lin):
                if not x.shift_is_zero():
                    if not isinstance(x.s, str):
                        self.report("transcendental-of-dimensional", node, f"log of a value that moves with a data shift ({x!r})")
                    return TOP
                if x.p == 0:
                    return Lin(0, 0, x.const)
                return Log(x.p)
            return TOP
        if short == "logaddexp":
            x, y = (A + [TOP, TOP])[:2]
            if isinstance(x, Log) or isinstance(y, Log):
                if isinstance(x, Log) and isinstance(y, Log):
                    return Log(x.p if x.p == y.p else None)
                other = y if isinstance(x, Log) else x
                if isinstance(other, Lin) and other.zero:
                    return x if isinstance(x, Log) else y
                return Log(None)
            self.dimensionless(x, node, "logaddexp")
            self.dimensionless(y, node, "logaddexp")
            return Lin(0, 0)
        if short == "sqrt":
            return self.power(a0(), num(0.5), node)
        if short in ("abs", "absolute", "fabs", "sort", "flatten", "array", "asarray", "atleast_1d", "squeeze", "copy",
                     "unique", "float", "ravel", "negative", "cumsum"):
            x = a0()
            if short == "array" and isinstance(x, Tup) and x.items and all(isinstance(t, Tup) for t in x.items) \
                    and len({len(t.items) for t in x.items}) == 1:
                # a matrix given row by row: a sequence of rows, each row keeps its column types
                row = x.items[0]
                for t in x.items[1:]:
                    row = self.join(row, t)
                return Seq(row)
            if short == "array" and isinstance(x, Tup):
                items = [t for t in x.items]
                j = items[0]
                for t in items[1:]:
                    j = self.join(j, t)
                if j is TOP:
                    return x           # heterogeneous parameter vector: keep the components
                return j
            return x
        if short in ("mean", "median", "min", "max", "amin", "amax", "average", "sum"):
            x = a0()
            if isinstance(x, Seq):
                x = x.elem
            if short == "sum" and isinstance(x, Lin) and not x.shift_is_zero():
                return Lin(x.p, W)
            if short == "sum" and isinstance(x, Log):
                return Log(None)
            return x
        if short in ("std", "ptp"):
            x = a0()
            if isinstance(x, Seq):
                x = x.elem
            return Lin(x.p, 0) if isinstance(x, Lin) else TOP
        if short in ("var", "cov"):
            x = a0()
            return Lin(2 * x.p, 0) if isinstance(x, Lin) else TOP
        if short == "linspace":
            a, b = (A + [TOP, TOP])[:2]
            r = self.add(a, b, node) if isinstance(a, Lin) and isinstance(b, Lin) else self.join(a, b)
            if isinstance(r, Lin) and isinstance(a, Lin) and isinstance(b, Lin) and not (a.zero or b.zero):
                # affine combination with weights summing to one keeps the shift coefficient
                return Lin(a.p, a.s if self._same_shift(a.s, b.s) else W)
            return self.join(a, b)
        if short in ("searchsorted", "digitize"):
            a, b = (A + [TOP, TOP])[:2]
            self.comparable(a, b, node)
            return IDX
        if short in ("argsort", "argmax", "argmin", "arange", "len", "int", "size", "nonzero", "range"):
            return IDX
        if short in ("zeros", "ones", "empty", "zeros_like"):
            return Lin(0, 0, True, R.const(0), zero=True) if short.startswith("zeros") else num(1)
        if short in ("simpson", "trapezoid", "trapz"):
            y = a0()
            x = kws.get("x", A[1] if len(A) > 1 else TOP)
            if isinstance(x, Seq):
                x = x.elem
            if isinstance(y, Seq):
                y = y.elem
            if isinstance(y, Lin) and isinstance(x, Lin):
                return self.mul(y, Lin(x.p, 0), node)
            return TOP
        if short == "quad":
            f = a0()
            lo, hi = (A + [TOP, TOP, TOP])[1:3]
            self.comparable(lo, hi, node)
            if isinstance(f, Fn) and isinstance(lo, Lin):
                y = f.call([lo if lo.kind == "lin" else hi], {})
                if isinstance(y, Lin):
                    return Tup([self.mul(y, Lin(lo.p, 0), node), TOP])
            return Tup([TOP, TOP])
        if short in ("minimize", "minimize_scalar"):
            x0 = kws.get("x0", A[1] if len(A) > 1 else None)
            bounds = kws.get("bounds")
            res = TOP
            if x0 is not None and x0 is not TOP:
                res = x0
            elif isinstance(bounds, (Tup, Seq)):
                items = bounds.items if isinstance(bounds, Tup) else [bounds.elem]
                res = items[0]
                for t in items[1:]:
                    res = self.join(res, t)
            f = kws.get("fun", a0())
            extra = kws.get("args")
            if isinstance(f, Fn) and res is not TOP:
                f.call([res] + (list(extra.items) if isinstance(extra, Tup) else []), {})
            return Tup([res])   # `.x` selects component 0 (see attribute access)
        if short == "product":
            def elem_of(t):
                if isinstance(t, Seq):
                    return t.elem
                if isinstance(t, Tup) and t.items:
                    j = t.items[0]
                    for x in t.items[1:]:
                        j = self.join(j, x)
                    return j
                return t
            return Seq(Tup([elem_of(t) for t in A]))
        if short in ("sorted",):
            key = kws.get("key")
            x = a0()
            if isinstance(key, Fn) and isinstance(x, Seq):
                key.call([x.elem], {})
            return x
        if short in ("reduce",):
            f, g = (A + [TOP, TOP])[:2]
            elem = g.elem if isinstance(g, Seq) else TOP
            if isinstance(f, Fn):
                return f.call([elem, elem], {})
            return elem
        if short in ("random", "uniform", "normal"):
            return Lin(0, 0)
        if short in ("insert", "append", "concatenate", "take_along_axis", "expand_dims"):
            return a0()
        if short in ("isinstance", "callable", "hasattr", "all", "any", "isfinite"):
            return BOOL
        if short in ("warn", "print"):
            return NONE
        if short in ("zip", "enumerate"):
            return Seq(Tup([t.elem if isinstance(t, Seq) else t for t in A]))
        return TOP

    def comparable(self, a, b, node):
        if isinstance(a, Seq):
            a = a.elem
        if isinstance(b, Seq):
            b = b.elem
        if isinstance(a, Lin) and isinstance(b, Lin) and not a.zero and not b.zero:
            if a.p != b.p or not self._same_shift(a.s, b.s):
                if not (isinstance(a.s, str) or isinstance(b.s, str)):
                    self.report("incomparable", node, f"values of types {a!r} and {b!r} are compared / searched against each other")
        return BOOL


# ======================================================================================
#  abstract interpreter
# ======================================================================================
class Obj(Ty):
    """An instance of a repository class (attributes typed flow-insensitively after construction)."""
    kind = "obj"

    def __init__(self, ci):
        self.ci = ci
        self.attrs = {}

    def __repr__(self):
        return f"Obj<{self.ci.name}>"


class Interp:
    MAX_DEPTH = 8

    def __init__(self, units: Units, prog):
        self.u = units
        self.prog = prog
        self.memo = {}
        self.active = set()
        self.returns_of = {}       # (class, method) -> list of (type, return node)

    # ---------------------------------------------------------------- helpers
    def mi_of(self, ci_or_fnmod):
        return ci_or_fnmod.module if hasattr(ci_or_fnmod, "module") else ci_or_fnmod

    def qualified(self, mi, node):
        if isinstance(node, ast.Name):
            return mi.imports.get(node.id)
        if isinstance(node, ast.Attribute) and isinstance(node.value, ast.Name):
            b = mi.imports.get(node.value.id)
            if b:
                return f"{b}.{node.attr}"
        return None

    # ---------------------------------------------------------------- calling repository code
    def call_function(self, mi, fn, args, kws, selfobj=None, node=None):
        params = [a.arg for a in fn.args.args]
        if selfobj is not None and not any(ast.unparse(d) == "staticmethod" for d in fn.decorator_list):
            params = params[1:]
        key = (mi.relpath, getattr(selfobj, "ci", None) and selfobj.ci.name, fn.name, repr(args), repr(sorted(kws.items(), key=lambda t: t[0])))
        if key in self.memo:
            return self.memo[key]
        if key in self.active or len(self.active) > self.MAX_DEPTH:
            return TOP
        self.active.add(key)
        env = {}
        defaults = fn.args.defaults
        for p, d in zip(params[len(params) - len(defaults):], defaults):
            env[p] = self.eval(d, {}, mi, selfobj)
        for p, a in zip(params, args):
            env[p] = a
        for k, v in kws.items():
            if k in params:
                env[k] = v
        for p in params:
            env.setdefault(p, TOP)
        if selfobj is not None and fn.args.args and not any(ast.unparse(d) == "staticmethod" for d in fn.decorator_list):
            env[fn.args.args[0].arg] = selfobj
        rets = []
        self.exec_block(fn.body, env, mi, selfobj, rets)
        out = None
        for t, n in rets:
            out = t if out is None else self.u.join(out, t)
        out = NONE if out is None else out
        self.active.discard(key)
        self.memo[key] = out
        cname = selfobj.ci.name if selfobj is not None else None
        self.returns_of.setdefault((cname, fn.name), []).extend(rets)
        return out

    def construct(self, ci, args, kws):
        obj = Obj(ci)
        c, init = self.prog.find_method(ci, "__init__")
        if init is not None:
            self.call_function(c.module, init, args, kws, obj)
        return obj

    def call_method(self, obj, mname, args, kws, node=None):
        c, fn = self.prog.find_method(obj.ci, mname)
        if fn is None and mname.startswith("__") and not mname.endswith("__"):
            for cc in self.prog.mro(obj.ci):
                if mname in cc.methods:
                    c, fn = cc, cc.methods[mname]
        if fn is None:
            return TOP
        return self.call_function(c.module, fn, args, kws, obj, node)

    # ---------------------------------------------------------------- statements
    def exec_block(self, stmts, env, mi, selfobj, rets):
        for st in stmts:
            self.exec_stmt(st, env, mi, selfobj, rets)

    def assign(self, t, v, env, mi, selfobj):
        if isinstance(t, ast.Name):
            env[t.id] = v
        elif isinstance(t, (ast.Tuple, ast.List)):
            items = None
            if isinstance(v, Tup) and len(v.items) == len(t.elts):
                items = v.items
            elif isinstance(v, Seq):
                items = [v.elem] * len(t.elts)
            elif isinstance(v, Lin):
                items = [v] * len(t.elts)
            for k, e in enumerate(t.elts):
                self.assign(e, items[k] if items else TOP, env, mi, selfobj)
        elif isinstance(t, ast.Attribute):
            base = self.eval(t.value, env, mi, selfobj)
            if isinstance(base, Obj):
                old = base.attrs.get(t.attr)
                base.attrs[t.attr] = v if old is None or base is selfobj else self.u.join(old, v)
        elif isinstance(t, ast.Subscript):
            base = self.eval(t.value, env, mi, selfobj)
            if isinstance(t.value, ast.Name) and isinstance(base, Lin) and base.zero:
                env[t.value.id] = v if not isinstance(v, Seq) else v.elem
            elif isinstance(t.value, ast.Name) and isinstance(base, (Lin, Seq)):
                elem = v.elem if isinstance(v, Seq) else v
                b = base.elem if isinstance(base, Seq) else base
                env[t.value.id] = self.u.join(b, elem) if not (isinstance(b, Lin) and b.zero) else elem

    def exec_stmt(self, st, env, mi, selfobj, rets):
        if isinstance(st, ast.Assign):
            v = self.eval(st.value, env, mi, selfobj)
            for t in st.targets:
                self.assign(t, v, env, mi, selfobj)
        elif isinstance(st, ast.AnnAssign) and st.value is not None:
            self.assign(st.target, self.eval(st.value, env, mi, selfobj), env, mi, selfobj)
        elif isinstance(st, ast.AugAssign):
            cur = self.eval(_load(st.target), env, mi, selfobj)
            v = self.eval(st.value, env, mi, selfobj)
            self.assign(st.target, self.binop(st.op, cur, v, st), env, mi, selfobj)
        elif isinstance(st, ast.Expr):
            self.eval(st.value, env, mi, selfobj)
        elif isinstance(st, ast.Return):
            rets.append((self.eval(st.value, env, mi, selfobj) if st.value is not None else NONE, st))
        elif isinstance(st, ast.If):
            self.eval(st.test, env, mi, selfobj)
            d = self.decide(st.test, env, mi, selfobj)
            if d is True:
                self.exec_block(st.body, env, mi, selfobj, rets)
                return
            if d is False:
                self.exec_block(st.orelse, env, mi, selfobj, rets)
                return
            e1, e2 = dict(env), dict(env)
            snap = dict(selfobj.attrs) if isinstance(selfobj, Obj) else None
            self.exec_block(st.body, e1, mi, selfobj, rets)
            a1 = dict(selfobj.attrs) if snap is not None else None
            if snap is not None:
                selfobj.attrs.clear()
                selfobj.attrs.update(snap)
            self.exec_block(st.orelse, e2, mi, selfobj, rets)
            if snap is not None:
                a2 = dict(selfobj.attrs)
                for k in set(a1) | set(a2):
                    x, y = a1.get(k), a2.get(k)
                    selfobj.attrs[k] = x if y is None else y if x is None else (x if x is y else self.u.join(x, y))
            for k in set(e1) | set(e2):
                a, b = e1.get(k), e2.get(k)
                env[k] = a if b is None else b if a is None else (a if a is b else self.u.join(a, b))
        elif isinstance(st, ast.For):
            it = self.eval(st.iter, env, mi, selfobj)
            elem = it.elem if isinstance(it, Seq) else (it if isinstance(it, Lin) else
                                                        (self._join_all(it.items) if isinstance(it, Tup) and it.items else
                                                         IDX if it is IDX else TOP))
            self.assign(st.target, elem, env, mi, selfobj)
            for _ in range(2):
                self.exec_block(st.body, env, mi, selfobj, rets)
            self.exec_block(st.orelse, env, mi, selfobj, rets)
        elif isinstance(st, ast.While):
            self.eval(st.test, env, mi, selfobj)
            for _ in range(2):
                self.exec_block(st.body, env, mi, selfobj, rets)
        elif isinstance(st, ast.Try):
            self.exec_block(st.body, env, mi, selfobj, rets)
            for h in st.handlers:
                self.exec_block(h.body, dict(env), mi, selfobj, rets)
        elif isinstance(st, ast.With):
            self.exec_block(st.body, env, mi, selfobj, rets)
        elif isinstance(st, ast.FunctionDef):
            env[st.name] = Fn(lambda args, kws, st=st, env=env: self._call_local(st, args, kws, env, mi, selfobj))

    def decide(self, test, env, mi, selfobj):
        """`x is None` / `x is not None` / `not <..>` when the type of x settles it."""
        if isinstance(test, ast.UnaryOp) and isinstance(test.op, ast.Not):
            v = self.decide(test.operand, env, mi, selfobj)
            return None if v is None else not v
        if isinstance(test, ast.Compare) and len(test.ops) == 1 and isinstance(test.comparators[0], ast.Constant) \
                and test.comparators[0].value is None and isinstance(test.ops[0], (ast.Is, ast.IsNot)):
            t = self.eval(test.left, env, mi, selfobj)
            if t is TOP:
                return None
            r = t is NONE
            return r if isinstance(test.ops[0], ast.Is) else not r
        return None

    def _call_local(self, fn, args, kws, env, mi, selfobj):
        e = dict(env)
        for p, a in zip([a.arg for a in fn.args.args], args):
            e[p] = a
        rets = []
        self.exec_block(fn.body, e, mi, selfobj, rets)
        return self._join_all([t for t, _ in rets]) if rets else NONE

    def _join_all(self, items):
        out = items[0]
        for t in items[1:]:
            out = self.u.join(out, t)
        return out

    # ---------------------------------------------------------------- expressions
    def binop(self, op, a, b, node):
        if isinstance(op, ast.Add):
            if isinstance(a, Tup) and isinstance(b, Tup):
                return Tup(a.items + b.items)
            return self.u.add(a, b, node, 1)
        if isinstance(op, ast.Sub):
            return self.u.add(a, b, node, -1)
        if isinstance(op, ast.Mult):
            if isinstance(a, Tup) and b is IDX or (isinstance(a, Tup) and isinstance(b, Lin)):
                return Seq(self._join_all(a.items)) if a.items else TOP
            return self.u.mul(a, b, node)
        if isinstance(op, ast.Div):
            return self.u.mul(a, b, node, div=True)
        if isinstance(op, ast.Pow):
            return self.u.power(a, b, node)
        if isinstance(op, (ast.FloorDiv, ast.Mod)):
            return IDX if (a is IDX or b is IDX) else TOP
        if isinstance(op, (ast.BitAnd, ast.BitOr, ast.BitXor)):
            return BOOL
        return TOP

    def eval(self, node, env, mi, selfobj):
        u = self.u
        if node is None:
            return NONE
        if isinstance(node, ast.Constant):
            v = node.value
            if isinstance(v, bool):
                return BOOL
            if isinstance(v, (int, float)):
                return num(v)
            if v is None:
                return NONE
            if isinstance(v, str):
                return STR
            return TOP
        if isinstance(node, ast.Name):
            if node.id in env:
                return env[node.id]
            q = mi.imports.get(node.id)
            if q in ("numpy.pi", "math.pi", "numpy.e"):
                return num()
            if node.id in mi.functions:
                fn = mi.functions[node.id]
                return Fn(lambda args, kws, fn=fn: self.call_function(mi, fn, args, kws))
            return TOP
        if isinstance(node, ast.UnaryOp):
            v = self.eval(node.operand, env, mi, selfobj)
            if isinstance(node.op, ast.USub):
                if isinstance(v, Lin):
                    return Lin(v.p, u._neg(v.s), v.const, -v.val if v.val is not None else None, v.zero)
                return v
            if isinstance(node.op, (ast.Not, ast.Invert)):
                return BOOL
            return v
        if isinstance(node, ast.BinOp):
            return self.binop(node.op, self.eval(node.left, env, mi, selfobj), self.eval(node.right, env, mi, selfobj), node)
        if isinstance(node, ast.BoolOp):
            for v in node.values:
                self.eval(v, env, mi, selfobj)
            return BOOL
        if isinstance(node, ast.Compare):
            l = self.eval(node.left, env, mi, selfobj)
            for c in node.comparators:
                r = self.eval(c, env, mi, selfobj)
                u.comparable(l, r, node)
                l = r
            return BOOL
        if isinstance(node, ast.IfExp):
            self.eval(node.test, env, mi, selfobj)
            return u.join(self.eval(node.body, env, mi, selfobj), self.eval(node.orelse, env, mi, selfobj))
        if isinstance(node, (ast.Tuple, ast.List)):
            items = []
            for e in node.elts:
                if isinstance(e, ast.Starred):
                    v = self.eval(e.value, env, mi, selfobj)
                    if isinstance(v, Tup):
                        items.extend(v.items)
                    else:
                        items.append(v.elem if isinstance(v, Seq) else TOP)
                else:
                    items.append(self.eval(e, env, mi, selfobj))
            return Tup(items)
        if isinstance(node, ast.Dict):
            for v in node.values:
                self.eval(v, env, mi, selfobj)
            return TOP
        if isinstance(node, (ast.ListComp, ast.GeneratorExp)):
            e2 = dict(env)
            for g in node.generators:
                it = self.eval(g.iter, e2, mi, selfobj)
                if isinstance(it, Tup) and it.items:
                    # a literal list of constants: each element keeps its own (symbolic) value
                    elem = self._join_all(it.items)
                    if isinstance(elem, Lin) and elem.const and isinstance(g.target, ast.Name):
                        u.fresh += 1
                        elem = Lin(elem.p, 0, True, R.sym(f"{g.target.id}#{u.fresh}"))
                elif isinstance(it, Seq):
                    elem = it.elem
                elif isinstance(it, Lin):
                    elem = it
                elif it is IDX:
                    elem = IDX
                else:
                    elem = TOP
                self.assign(g.target, elem, e2, mi, selfobj)
                for c in g.ifs:
                    self.eval(c, e2, mi, selfobj)
            return Seq(self.eval(node.elt, e2, mi, selfobj))
        if isinstance(node, ast.Lambda):
            params = [a.arg for a in node.args.args]
            return Fn(lambda args, kws, node=node, env=env: self.eval(
                node.body, {**env, **dict(zip(params, list(args) + [TOP] * len(params)))}, mi, selfobj))
        if isinstance(node, ast.Subscript):
            base = self.eval(node.value, env, mi, selfobj)
            self.eval_index(node.slice, env, mi, selfobj)
            return self.index(base, node.slice)
        if isinstance(node, ast.Attribute):
            return self.attribute(node, env, mi, selfobj)
        if isinstance(node, ast.Call):
            return self.call(node, env, mi, selfobj)
        if isinstance(node, ast.JoinedStr):
            return STR
        if isinstance(node, ast.Starred):
            return self.eval(node.value, env, mi, selfobj)
        return TOP

    def eval_index(self, sl, env, mi, selfobj):
        for n in ast.walk(sl):
            if isinstance(n, ast.Call):
                self.eval(n, env, mi, selfobj)

    def index(self, base, sl):
        if isinstance(base, Tup):
            if isinstance(sl, ast.Constant) and isinstance(sl.value, int) and -len(base.items) <= sl.value < len(base.items):
                return base.items[sl.value]
            if isinstance(sl, ast.UnaryOp) and isinstance(sl.operand, ast.Constant):
                return base.items[-sl.operand.value] if sl.operand.value <= len(base.items) else TOP
            if isinstance(sl, ast.Slice):
                lo = sl.lower.value if isinstance(sl.lower, ast.Constant) else None
                hi = sl.upper.value if isinstance(sl.upper, ast.Constant) else None
                if (sl.lower is None or lo is not None) and (sl.upper is None or hi is not None):
                    return Tup(base.items[lo:hi])
            return self._join_all(base.items) if base.items else TOP
        if isinstance(base, Seq):
            if isinstance(sl, ast.Tuple):
                cur = base
                for e in sl.elts:
                    if isinstance(e, ast.Slice) or (isinstance(e, ast.Constant) and e.value is None):
                        continue
                    if isinstance(cur, Seq):
                        cur = cur.elem
                    elif isinstance(cur, Tup):
                        cur = self.index(cur, e)
                return cur
            if isinstance(sl, ast.Slice):
                return base
            return base.elem
        if isinstance(base, (Lin, Log)):
            return base
        return TOP

    def attribute(self, node, env, mi, selfobj):
        q = self.qualified(mi, node)
        if q in ("numpy.pi",):
            return num()
        base = self.eval(node.value, env, mi, selfobj)
        a = node.attr
        if isinstance(base, Obj):
            if a in base.attrs:
                return base.attrs[a]
            c, fn = self.prog.find_method(base.ci, a)
            if fn is not None:
                return Fn(lambda args, kws, base=base, a=a: self.call_method(base, a, args, kws))
            return TOP
        if a in ("size", "shape", "ndim"):
            return IDX
        if a == "T":
            return base
        if a == "x" and isinstance(base, Tup) and base.items:
            return base.items[0]            # OptimizeResult.x
        if a == "fun":
            return TOP
        return TOP

    def call(self, node, env, mi, selfobj):
        f = node.func
        args = []
        for a in node.args:
            if isinstance(a, ast.Starred):
                v = self.eval(a.value, env, mi, selfobj)
                args.extend(v.items if isinstance(v, Tup) else [TOP])
            else:
                args.append(self.eval(a, env, mi, selfobj))
        kws = {k.arg: self.eval(k.value, env, mi, selfobj) for k in node.keywords if k.arg}
        # repository classes / functions
        if isinstance(f, ast.Name):
            if f.id in self.prog.classes and (f.id in mi.classes or (mi.imports.get(f.id, "").startswith("inference."))):
                return self.construct(self.prog.classes[f.id], args, kws)
            if f.id in env and isinstance(env[f.id], Fn):
                return env[f.id].call(args, kws)
            if f.id in env and isinstance(env[f.id], Obj):
                return self.call_method(env[f.id], "__call__", args, kws, node)
            if f.id in mi.functions:
                return self.call_function(mi, mi.functions[f.id], args, kws)
            q = mi.imports.get(f.id)
            if q and q.startswith("inference."):
                modname, _, name = q.rpartition(".")
                m2 = self.prog.modules.get(modname)
                if m2 and name in m2.functions:
                    return self.call_function(m2, m2.functions[name], args, kws)
                if m2 and name in m2.classes:
                    return self.construct(m2.classes[name], args, kws)
            short = (q or f.id).split(".")[-1]
            return self.u.call_external(q, short, args, kws, node)
        if isinstance(f, ast.Attribute):
            base_node = f.value
            # self(...) is handled below through Obj.__call__
            base = self.eval(base_node, env, mi, selfobj)
            if isinstance(base, Obj):
                if f.attr in base.attrs and isinstance(base.attrs[f.attr], Fn):
                    return base.attrs[f.attr].call(args, kws)
                return self.call_method(base, f.attr, args, kws, node)
            q = self.qualified(mi, f)
            if q:
                return self.u.call_external(q, q.split(".")[-1], args, kws, node)
            # methods of arrays / lists
            m = f.attr
            if m in ("sum",):
                return self.u.call_external(None, "sum", [base], kws, node)
            if m in ("mean", "min", "max", "std", "var", "ptp", "flatten", "copy", "squeeze", "astype", "cumsum", "reshape", "ravel"):
                return self.u.call_external(None, {"astype": "copy", "reshape": "copy"}.get(m, m), [base], kws, node)
            if m in ("argsort", "argmax", "argmin", "nonzero"):
                return IDX
            if m in ("append", "insert", "extend") and isinstance(base_node, ast.Name):
                v = args[-1] if args else TOP
                cur = env.get(base_node.id)
                if m == "extend" and isinstance(v, (Seq, Tup)):
                    v = v.elem if isinstance(v, Seq) else (self._join_all(v.items) if v.items else TOP)
                if isinstance(cur, Tup):
                    cur = Seq(self._join_all(cur.items)) if cur.items else None
                env[base_node.id] = Seq(v) if cur is None or not isinstance(cur, Seq) else Seq(self.u.join(cur.elem, v))
                return NONE
            if m in ("all", "any"):
                return BOOL
            if m == "resize" or m == "sort":
                return NONE
            return TOP
        base = self.eval(f, env, mi, selfobj)
        if isinstance(base, Fn):
            return base.call(args, kws)
        return TOP


def _load(t):
    import copy
    t2 = copy.deepcopy(t)
    for n in ast.walk(t2):
        if hasattr(n, "ctx"):
            n.ctx = ast.Load()
    return t2


def analyse_estimator(prog, rel, cname, ctor_types, public):
    """Types of the public results of one estimator class for the given constructor argument types.
    Returns (units, interp, obj, {method: type})."""
    u = Units(prog, rel)
    it = Interp(u, prog)
    ci = prog.cls(cname)
    obj = it.construct(ci, ctor_types.get("args", []), ctor_types.get("kws", {}))
    out = {}
    for m, margs in public.items():
        if m == "__attr__":
            for a in margs:
                out["attr:" + a] = obj.attrs.get(a, TOP)
            continue
        out[m] = it.call_method(obj, m, margs, {})
    return u, it, obj, out
