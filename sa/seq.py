"""Sequence-layout analysis: what a list holds, in which order, however it was built.

Several properties hinge on the *order* in which per-component items are laid out in a flat list (hyper-parameter
slices, labels, bounds, gradient lists).  The code builds such lists in many equivalent ways - a comprehension, a loop
with append / extend, a side-effect comprehension `[L.extend(x) for x in xs]`, `a + b`, `[*a, *b]`, `chain(...)`,
`[v] * n`.  This module abstracts all of them to one description, a *layout*: a tuple of parts

    ("item", e)                 one element, the expression e
    ("splice", e)               the elements of the sequence e, in order
    ("each", it, e)             for every element of `it`, in order: one element e
    ("flat", it, layout)        for every element of `it`, in order: the parts of `layout`
    ("rep", layout, n)          `layout` repeated n times
    ("zipflat", (a, b, ...))    a[0], b[0], ..., a[1], b[1], ...
    ("cond", test, l1, l2)      layout l1 when test holds, else l2 (conditional expression or if / else statement alike)

`it` is ("iter", text) or ("enum", text) (enumerate whose index is used).  Loop variables are renamed to va0, va1, ...
(vb0 ... one level down) and every expression is the canonical text of its resolved term (sa/term.py).  Rules compare
layouts, so re-writing a loop as a comprehension (or back) cannot change a verdict, while visiting the components in
another order, or interleaving differently, does.
"""
from __future__ import annotations
import ast
import copy
from .term import Resolver
from .rules.common import U

UNKNOWN = ("unknown",)
LV = "abcdefgh"


def lv(depth, k):
    """Canonical name of the k-th variable of a loop / comprehension at nesting depth `depth`."""
    return f"v{LV[min(depth, len(LV) - 1)]}{k}"


def _names(t):
    return [x.id for x in ast.walk(t) if isinstance(x, ast.Name)]


def _uses(nodes, name):
    return any(isinstance(x, ast.Name) and x.id == name for n in nodes for x in ast.walk(n))


class Layouts:
    """Abstract execution of one function body over list-valued names / self attributes."""

    def __init__(self, fn, prog=None, mi=None, ci=None):
        self.fn = fn
        self.rz = Resolver(fn, prog, mi, ci)
        self.state = {}          # "name" / "self.attr" -> layout (tuple of parts) or UNKNOWN
        self._run(fn.body)

    # ------------------------------------------------------------------ text of expressions
    def text(self, node, at, env):
        """Canonical text of the resolved term of `node`; env maps bound loop variables to canonical names."""
        keep = tuple(env) + tuple(k for k in self.state if "." not in k)
        t = self.rz.term(node, at, keep=keep)
        if env:
            class Rn(ast.NodeTransformer):
                def visit_Name(self, x):
                    return ast.Name(id=env.get(x.id, x.id), ctx=x.ctx)
            t = Rn().visit(copy.deepcopy(t))
        return str(U(t))

    def _bind_iter(self, it, target, used_in, at, env, depth):
        """Describe `for target in it` -> (iter descriptor, new env)."""
        names = _names(target)
        if isinstance(it, ast.Call) and isinstance(it.func, ast.Name) and it.func.id == "enumerate" and len(it.args) == 1 \
                and isinstance(target, ast.Tuple) and len(target.elts) == 2 and isinstance(target.elts[0], ast.Name):
            idx = target.elts[0].id
            if not _uses(used_in, idx):
                rest = _names(target.elts[1])
                e2 = dict(env)
                e2.update({n: lv(depth, k) for k, n in enumerate(rest)})
                return ("iter", self.text(it.args[0], at, env)), e2
            e2 = dict(env)
            e2.update({n: lv(depth, k) for k, n in enumerate(names)})
            return ("enum", self.text(it.args[0], at, env)), e2
        e2 = dict(env)
        e2.update({n: lv(depth, k) for k, n in enumerate(names)})
        return ("iter", self.text(it, at, env)), e2

    # ------------------------------------------------------------------ layouts of expressions
    def layout_of(self, node, at, env=None, depth=0):
        env = env or {}
        if isinstance(node, (ast.List, ast.Tuple)):
            parts = ()
            for e in node.elts:
                if isinstance(e, ast.Starred):
                    sub = self.layout_of(e.value, at, env, depth)
                    if sub is UNKNOWN:
                        return UNKNOWN
                    parts += sub
                else:
                    parts += (("item", self.text(e, at, env)),)
            return parts
        if isinstance(node, ast.IfExp):
            a = self.layout_of(node.body, at, env, depth)
            b = self.layout_of(node.orelse, at, env, depth)
            if a is UNKNOWN or b is UNKNOWN:
                return UNKNOWN
            return a if a == b else (("cond", self.text(node.test, at, env), a, b),)
        if isinstance(node, ast.Name) and node.id in self.state and node.id not in env:
            return self.state[node.id]
        if isinstance(node, ast.Attribute) and str(U(node)) in self.state:
            return self.state[str(U(node))]
        if isinstance(node, (ast.ListComp, ast.GeneratorExp)) and len(node.generators) == 2 \
                and not node.generators[0].ifs and not node.generators[1].ifs:
            # [e for a in A for b in B(a)]  =  concatenation over A of [e for b in B(a)]
            g1, g2 = node.generators
            it, e2 = self._bind_iter(g1.iter, g1.target, [g2.iter, node.elt], at, env, depth)
            inner = ast.ListComp(elt=node.elt, generators=[g2])
            sub = self.layout_of(inner, at, e2, depth + 1)
            return UNKNOWN if sub is UNKNOWN else (("flat", it, sub),)
        if isinstance(node, (ast.ListComp, ast.GeneratorExp)) and len(node.generators) == 1 and not node.generators[0].ifs:
            g = node.generators[0]
            if self._is_effect(node.elt):
                return UNKNOWN
            it, e2 = self._bind_iter(g.iter, g.target, [node.elt], at, env, depth)
            return self._simplify((("each", it, self.text(node.elt, at, e2)),), depth)
        if isinstance(node, ast.BinOp) and isinstance(node.op, ast.Add):
            a, b = self.layout_of(node.left, at, env, depth), self.layout_of(node.right, at, env, depth)
            return UNKNOWN if UNKNOWN in (a, b) else a + b
        if isinstance(node, ast.BinOp) and isinstance(node.op, ast.Mult):
            for seq, n in ((node.left, node.right), (node.right, node.left)):
                if isinstance(seq, (ast.List, ast.Tuple)):
                    return (("rep", self.layout_of(seq, at, env, depth), self.text(n, at, env)),)
        if isinstance(node, ast.Call):
            f = str(U(node.func))
            if f in ("list", "tuple", "copy", "deepcopy") and len(node.args) == 1:
                return self.layout_of(node.args[0], at, env, depth)
            if f in ("concatenate", "hstack") and len(node.args) == 1:
                inner = self.layout_of(node.args[0], at, env, depth)
                if inner is UNKNOWN:
                    return UNKNOWN
                out = ()
                for p_ in inner:
                    if p_[0] == "each":
                        # the element text was written at this depth; as the body of a flat part it lives one level down
                        out += (("flat", p_[1], (("splice", p_[2]),)),)
                    elif p_[0] == "item":
                        out += (("splice", p_[1]),)
                    else:
                        return (("splice", self.text(node, at, env)),)
                return out
            if f == "chain" and len(node.args) == 1 and isinstance(node.args[0], ast.Starred):
                inner = node.args[0].value
                if isinstance(inner, (ast.ListComp, ast.GeneratorExp)) and len(inner.generators) == 1 and not inner.generators[0].ifs:
                    g = inner.generators[0]
                    it, e2 = self._bind_iter(g.iter, g.target, [inner.elt], at, env, depth)
                    sub = self.layout_of(inner.elt, at, e2, depth + 1)
                    return UNKNOWN if sub is UNKNOWN else (("flat", it, sub),)
                return UNKNOWN
            if f == "chain":
                out = ()
                for a in node.args:
                    sub = self.layout_of(a, at, env, depth)
                    if sub is UNKNOWN:
                        return UNKNOWN
                    out += sub
                return out
            if f == "chain.from_iterable" and len(node.args) == 1:
                z = node.args[0]
                zt = self.rz.term(z, at, keep=tuple(env))
                if isinstance(zt, ast.Call) and str(U(zt.func)) == "zip":
                    return (("zipflat", tuple(self.text(a, at, env) for a in zt.args)),)
                if isinstance(z, (ast.ListComp, ast.GeneratorExp)) and len(z.generators) == 1 and not z.generators[0].ifs:
                    g = z.generators[0]
                    it, e2 = self._bind_iter(g.iter, g.target, [z.elt], at, env, depth)
                    sub = self.layout_of(z.elt, at, e2, depth + 1)
                    return UNKNOWN if sub is UNKNOWN else (("flat", it, sub),)
        if isinstance(node, ast.Name) and node.id not in env:
            v = self.rz.reaching(node.id, at)
            if v is not None and isinstance(v, (ast.List, ast.Tuple, ast.ListComp, ast.BinOp, ast.Call)) \
                    and not isinstance(getattr(v, "_at", None), tuple):
                return self.layout_of(v, getattr(v, "_at", at), env, depth)
        return (("splice", self.text(node, at, env)),)

    @staticmethod
    def _is_effect(e):
        return isinstance(e, ast.Call) and isinstance(e.func, ast.Attribute) and e.func.attr in ("append", "extend", "insert")

    @staticmethod
    def _simplify(lay, depth=0):
        if lay is UNKNOWN:
            return lay
        out = []
        for p_ in lay:
            if p_[0] == "each" and p_[1][0] == "iter" and (p_[2] == lv(depth, 0) or (
                    p_[1][1].startswith("zip(") and p_[2] in (f"({lv(depth, 0)}, {lv(depth, 1)})", f"({lv(depth, 0)}, {lv(depth, 1)}, {lv(depth, 2)})"))):
                out.append(("splice", p_[1][1]))       # identity comprehension (also the tuple re-packing of a zip)
            else:
                out.append(p_)
        return tuple(out)

    # ------------------------------------------------------------------ statements
    def _key(self, t):
        if isinstance(t, ast.Name):
            return t.id
        if isinstance(t, ast.Attribute) and isinstance(t.value, ast.Name) and t.value.id == self.rz.selfname:
            return f"self.{t.attr}"
        return None

    def _effect(self, call, at, env, depth):
        """(key, layout added) for X.append(e) / X.extend(e)."""
        key = self._key(call.func.value)
        if key is None or not call.args:
            return None
        if call.func.attr == "append":
            return key, (("item", self.text(call.args[0], at, env)),)
        if call.func.attr == "extend":
            return key, self.layout_of(call.args[0], at, env, depth)
        return key, UNKNOWN

    def _add(self, key, lay):
        cur = self.state.get(key, UNKNOWN)
        self.state[key] = UNKNOWN if (cur is UNKNOWN or lay is UNKNOWN) else self._fuse(cur + lay)

    @staticmethod
    def _fuse(lay):
        """Head / tail spelling of one traversal:  f(X[0])  followed by  f(v) for v in X[1:]   is   f(v) for v in X
        (for a non-empty X, which the head already assumes)."""
        import re
        out = list(lay)
        i = 0
        while i + 1 < len(out):
            a, b = out[i], out[i + 1]
            if b[0] in ("each", "flat") and b[1][0] == "iter" and b[1][1].endswith("[1:]"):
                X = b[1][1][:-4]
                var = "va0"
                sub = lambda txt: re.sub(r"\bva0\b", f"{X}[0]", txt)
                if b[0] == "each":
                    head = (("item", sub(b[2])),)
                else:
                    head = tuple((p_[0], sub(p_[1])) if p_[0] in ("item", "splice") and isinstance(p_[1], str) else None for p_ in b[2])
                if None not in head and len(head) == 1 and a == head[0]:
                    out[i:i + 2] = [(b[0], ("iter", X)) + tuple(b[2:])]
                    continue
            i += 1
        return tuple(out)

    def _looks_list(self, v):
        if isinstance(v, ast.IfExp):
            return self._looks_list(v.body) and self._looks_list(v.orelse)
        def listy(x):
            return isinstance(x, (ast.List, ast.ListComp)) or (isinstance(x, ast.Call) and str(U(x.func)) in ("list", "sorted")) \
                or (isinstance(x, ast.BinOp) and isinstance(x.op, ast.Add) and (listy(x.left) or listy(x.right)))
        return isinstance(v, (ast.List, ast.ListComp)) or (isinstance(v, ast.BinOp) and isinstance(v.op, (ast.Add, ast.Mult))
                                                          and any(listy(x) for x in (v.left, v.right))) \
            or (isinstance(v, ast.Call) and str(U(v.func)) in ("list", "copy", "deepcopy", "chain", "chain.from_iterable"))

    def _run(self, stmts):
        for st in stmts:
            if isinstance(st, ast.Assign) and len(st.targets) == 1:
                key = self._key(st.targets[0])
                if key is not None and (self._looks_list(st.value) or key in self.state
                                        or (isinstance(st.value, (ast.Name, ast.Attribute)) and self._key(st.value) in self.state)):
                    self.state[key] = self.layout_of(st.value, st)
                continue
            if isinstance(st, ast.AugAssign) and isinstance(st.op, ast.Add):
                key = self._key(st.target)
                if key in self.state:
                    self._add(key, self.layout_of(st.value, st))
                continue
            if isinstance(st, ast.Expr):
                v = st.value
                if self._is_effect(v):
                    eff = self._effect(v, st, {}, 0)
                    if eff and eff[0] in self.state:
                        self._add(*eff)
                elif isinstance(v, (ast.ListComp, ast.GeneratorExp)) and len(v.generators) == 1 and self._is_effect(v.elt):
                    g = v.generators[0]
                    self._loop_effects(g.iter, g.target, [(v.elt, st)], [v.elt], st, bool(g.ifs))
                elif isinstance(v, ast.Call):
                    # anything that re-orders or edits a tracked list in place makes its layout unknown: X.sort(), X.reverse(),
                    # X.pop(..), X.remove(..), X.clear(), shuffle(X)
                    f = v.func
                    if isinstance(f, ast.Attribute) and f.attr in ("sort", "reverse", "pop", "remove", "clear", "insert", "__setitem__"):
                        key = self._key(f.value)
                        if key in self.state:
                            self.state[key] = UNKNOWN
                    nm = f.attr if isinstance(f, ast.Attribute) else f.id if isinstance(f, ast.Name) else None
                    if nm in ("shuffle",) and v.args:
                        key = self._key(v.args[0])
                        if key in self.state:
                            self.state[key] = UNKNOWN
                continue
            if isinstance(st, ast.For):
                add = self._loop_layouts(st, {}, 0)
                for key, lay in add.items():
                    if key in self.state:
                        self._add(key, lay)
                continue
            if isinstance(st, ast.If):
                # validation arms (ending in raise) are skipped; otherwise both arms must agree
                if st.body and isinstance(st.body[-1], ast.Raise) and not st.orelse:
                    continue
                before = dict(self.state)
                self._run(st.body)
                a = self.state
                self.state = dict(before)
                self._run(st.orelse)
                b = self.state
                # a list built on one arm only keeps its layout (whether it exists at all is not this engine's question)
                def merge(k):
                    if k not in b:
                        return a[k]
                    if k not in a:
                        return b[k]
                    if a[k] == b[k]:
                        return a[k]
                    if a[k] is UNKNOWN or b[k] is UNKNOWN:
                        return UNKNOWN
                    # both arms extend a common prefix: the difference is a conditional part
                    pre = before.get(k, ()) if before.get(k, ()) is not UNKNOWN else ()
                    if a[k][:len(pre)] == pre and b[k][:len(pre)] == pre:
                        return pre + (("cond", self.text(st.test, st, {}), a[k][len(pre):], b[k][len(pre):]),)
                    return UNKNOWN
                self.state = {k: merge(k) for k in set(a) | set(b)}
                continue
            if isinstance(st, (ast.With, ast.Try)):
                self._run(st.body)
                continue
            if isinstance(st, ast.While):
                for m in ast.walk(st):
                    if isinstance(m, ast.Call) and self._is_effect(m):
                        k = self._key(m.func.value)
                        if k in self.state:
                            self.state[k] = UNKNOWN

    def _loop_layouts(self, loop, env, depth):
        """{key: layout contributed by this for loop} - append / extend effects directly in the body and in nested for loops;
        an effect under any other control flow makes the key's layout undetermined."""
        it, env2 = self._bind_iter(loop.iter, loop.target, loop.body, loop, env, depth)
        per_key = {}

        def add(key, lay):
            cur = per_key.get(key, ())
            per_key[key] = UNKNOWN if (cur is UNKNOWN or lay is UNKNOWN) else cur + lay
        for n in loop.body:
            if isinstance(n, ast.Expr) and self._is_effect(n.value):
                eff = self._effect(n.value, n, env2, depth + 1)
                if eff is not None:
                    add(eff[0], eff[1])
            elif isinstance(n, ast.AugAssign) and isinstance(n.op, ast.Add) and self._key(n.target) is not None:
                # X += e inside the loop: the elements of e, like X.extend(e)
                add(self._key(n.target), self.layout_of(n.value, n, env2, depth + 1))
            elif isinstance(n, (ast.Assign, ast.AugAssign)) and any(self._key(t) in self.state for t in (
                    n.targets if isinstance(n, ast.Assign) else [n.target])):
                for t in (n.targets if isinstance(n, ast.Assign) else [n.target]):
                    if self._key(t) in self.state:
                        per_key[self._key(t)] = UNKNOWN          # re-bound inside a loop: not followed
            elif isinstance(n, ast.For) and not n.orelse:
                for key, lay in self._loop_layouts(n, env2, depth + 1).items():
                    add(key, lay)
            elif isinstance(n, (ast.While, ast.If, ast.With, ast.Try, ast.For)):
                for m in ast.walk(n):
                    if isinstance(m, ast.Call) and self._is_effect(m):
                        k = self._key(m.func.value)
                        if k is not None:
                            per_key[k] = UNKNOWN
        out = {}
        for key, body in per_key.items():
            if body is UNKNOWN:
                out[key] = UNKNOWN
            elif len(body) == 1 and body[0][0] == "item":
                out[key] = self._simplify((("each", it, body[0][1]),), depth)
            else:
                out[key] = (("flat", it, body),)
        return out

    def _loop_effects(self, it_node, target, effs, used_in, at, filtered):
        it, env = self._bind_iter(it_node, target, used_in, at, {}, 0)
        per_key = {}
        for call, st in effs:
            key = self._key(call.func.value)
            if key in self.state:
                per_key.setdefault(key, []).append((call, st))
        for key, lst in per_key.items():
            if filtered:
                self.state[key] = UNKNOWN
                continue
            body = ()
            for call, st in lst:
                eff = self._effect(call, st, env, 1)
                if eff is None or eff[1] is UNKNOWN:
                    body = UNKNOWN
                    break
                body += eff[1]
            if body is UNKNOWN:
                self.state[key] = UNKNOWN
            elif len(body) == 1 and body[0][0] == "item":
                self._add(key, self._simplify((("each", it, body[0][1]),), 0))
            else:
                self._add(key, (("flat", it, body),))


def layout(fn, key, prog=None, mi=None, ci=None):
    return Layouts(fn, prog, mi, ci).state.get(key, None)


def show(lay):
    if lay is None:
        return "<not a tracked list>"
    if lay is UNKNOWN:
        return "<order not determined>"
    out = []
    for p in lay:
        if p[0] == "item":
            out.append(p[1])
        elif p[0] == "splice":
            out.append("*" + p[1])
        elif p[0] == "each":
            out.append(f"[{p[2]} for v in {p[1][1]}{' (enumerated)' if p[1][0] == 'enum' else ''}]")
        elif p[0] == "flat":
            out.append(f"concat[{show(p[2])} for v in {p[1][1]}{' (enumerated)' if p[1][0] == 'enum' else ''}]")
        elif p[0] == "rep":
            out.append(f"({show(p[1])}) x {p[2]}")
        elif p[0] == "zipflat":
            out.append("interleave(" + ", ".join(p[1]) + ")")
        elif p[0] == "cond":
            out.append(f"({show(p[2]) or '[]'} if {p[1]} else {show(p[3]) or '[]'})")
    return " ++ ".join(out)
