"""Engine I - loop trip-count algebra.

Counts executions of a callee along a function as a symbolic sum over loop trip
counts (`range(E)`), splitting paths on branches that assign the counters, and
normalises with the integer-division relations
    a % b  = a - b*(a // b)
    a // a = 1          (only under a branch guard that proves a > 0)
A guard `if E != 0:` around a contribution proportional to E is transparent.
"""
from __future__ import annotations
import ast
from .anf import R, Unsupported
from . import anf
from .symx import Expander


class Alt:
    def __init__(self, env, total, guards, done=False):
        self.env, self.total, self.guards, self.done = env, total, guards, done      # done: the path has returned


def count_calls(ex: Expander, stmts, env, weight, guards=()):
    """Returns a list of Alt (one per path split).  weight(call_node, ex, env) -> R or None."""
    alts = [Alt(dict(env), R.const(0), list(guards))]
    for st in stmts:
        nxt = []
        for a in alts:
            if a.done:
                nxt.append(a)             # nothing after a `return` runs on this path
            else:
                nxt.extend(_stmt(ex, st, a, weight))
        alts = nxt
    return alts


def _expr_weight(ex, node, env, weight):
    tot = R.const(0)
    for n in ast.walk(node):
        if isinstance(n, ast.Call):
            w = weight(n, ex, env)
            if w is not None:
                tot = tot + w
    return tot


def _nonneg(v):
    """The count cannot be negative by its form: every term has a non-negative coefficient once x // y is written as
    (x - x % y) / y  (so that  m - k (m // k)  is recognised as  m % k); the atoms are counts (parameters, quotients, remainders)."""
    try:
        mp = {}
        for a in v.all_atoms():
            if a[0] == "fn" and a[1] == "floordiv":
                x, y = anf.REG.get(a[2])
                if y.is_const() and y.const_value() > 0:
                    mp[a] = (x - anf.fn_("mod", x, y)) / y
        for w in ([v] + ([anf.subst(v, mp)] if mp else [])):
            if any(a[0] == "fn" and a[1] not in ("mod", "floordiv", "max", "min", "len", "int", "abs") for a in w.all_atoms()):
                continue
            den_ok = len(w.den) == 1 and all(len(m_) == 0 for m_ in w.den) and all(c_ > 0 for c_ in w.den.values())
            if den_ok and all(c_ >= 0 for c_ in w.num.values()):
                return True
        return False
    except Exception:
        return False


def _range_count(ex, it, env):
    if isinstance(it, ast.Call) and ast.unparse(it.func) == "range" and len(it.args) == 1:
        v = ex.need_r(ex.eval(it.args[0], env))
        # range(E) runs max(E, 0) times: the algebra may use E only where E cannot be negative
        if not _nonneg(v):
            raise Unsupported(f"`{ast.unparse(it)}`: the count `{v}` may be negative (range then runs 0 times, not `{v}` times) - not decided")
        return v
    return None


def _stmt(ex, st, a, weight):
    env = a.env
    if isinstance(st, ast.Assign) and isinstance(st.value, ast.ListComp) and len(st.value.generators) == 1:
        # `_ = [step() for _ in range(n)]`: the comprehension kept in a throw-away name counts like the bare one
        v = st.value
        w1 = _expr_weight(ex, v.elt, env, weight)
        if not w1.is_zero():
            n = _range_count(ex, v.generators[0].iter, env)
            if n is None:
                raise Unsupported(f"comprehension at line {st.lineno} iterates a non-range")
            return [Alt(env, a.total + n * w1, a.guards)]
    if isinstance(st, ast.With):
        # a context manager around the statements (catch_warnings, a timer): its body runs once, in order
        out = []
        for b in count_calls(ex, st.body, env, weight, a.guards):
            out.append(Alt(b.env, a.total + b.total, b.guards, b.done))
        return out
    if isinstance(st, (ast.Assign, ast.AugAssign, ast.AnnAssign)):
        w = _expr_weight(ex, st, env, weight)
        try:
            ex.exec_stmt(st, env)
        except Unsupported:
            for t in ast.walk(st):
                if isinstance(t, ast.Name) and isinstance(t.ctx, ast.Store):
                    env[t.id] = R.sym(f"{t.id}@{st.lineno}")
        return [Alt(env, a.total + w, a.guards)]
    if isinstance(st, ast.Expr):
        v = st.value
        if isinstance(v, ast.ListComp) and len(v.generators) == 1:
            n = _range_count(ex, v.generators[0].iter, env)
            w = _expr_weight(ex, v.elt, env, weight)
            if not w.is_zero():
                if n is None:
                    raise Unsupported(f"comprehension at line {st.lineno} iterates a non-range")
                return [Alt(env, a.total + n * w, a.guards)]
            return [a]
        return [Alt(env, a.total + _expr_weight(ex, v, env, weight), a.guards)]
    if isinstance(st, ast.For):
        n = _range_count(ex, st.iter, env)
        # counters updated by a loop-invariant amount in every iteration (`remaining -= m // k`): one generic iteration changes them by
        # delta, the whole loop by n * delta
        carried = {}
        loop_names = {x.id for x in ast.walk(st.target) if isinstance(x, ast.Name)}
        assigned_in = {x.id for b_ in st.body for x in ast.walk(b_) if isinstance(x, ast.Name) and isinstance(x.ctx, ast.Store)}
        for b_ in st.body:
            if isinstance(b_, ast.AugAssign) and isinstance(b_.op, (ast.Add, ast.Sub)) and isinstance(b_.target, ast.Name) \
                    and isinstance(env.get(b_.target.id), R) \
                    and not any(isinstance(x, ast.Name) and (x.id in loop_names or x.id in assigned_in) for x in ast.walk(b_.value)) \
                    and sum(1 for y in st.body for x in ast.walk(y) if isinstance(x, ast.Name) and x.id == b_.target.id and isinstance(x.ctx, ast.Store)) == 1:
                carried[b_.target.id] = env[b_.target.id]
        inner = count_calls(ex, st.body, env, weight, a.guards)
        if carried and n is not None:
            for b in inner:
                for nm, before in carried.items():
                    after = b.env.get(nm)
                    if isinstance(after, R):
                        b.env[nm] = before + n * (after - before)
        out = []
        if any(b.done for b in inner) or any(isinstance(x, (ast.Break, ast.Continue)) for b_ in st.body for x in ast.walk(b_)
                                             if not isinstance(b_, (ast.For, ast.While))) and any(not b.total.is_zero() for b in inner):
            raise Unsupported(f"loop at line {st.lineno} is left early (return / break / continue): its trip count is not its range")
        for b in inner:
            if b.total.is_zero():
                out.append(Alt(b.env, a.total, b.guards))
            else:
                if n is None:
                    raise Unsupported(f"loop at line {st.lineno} with calls iterates a non-range")
                out.append(Alt(b.env, a.total + n * b.total, b.guards))
        if st.orelse:
            # for .. else: the loop is not left by `break` (checked above), so the else suite runs once after it
            nxt = []
            for b in out:
                for c in count_calls(ex, st.orelse, b.env, weight, b.guards):
                    nxt.append(Alt(c.env, b.total + c.total, c.guards, c.done))
            out = nxt
        return out
    if isinstance(st, ast.If):
        # values known to be > 0 on either arm, evaluated NOW (the arms may re-bind the names the test reads)
        pos_true, pos_false = [], []
        tt = st.test
        if isinstance(tt, ast.Compare) and len(tt.ops) == 1:
            try:
                lv, rv = ex.eval(tt.left, dict(env)), ex.eval(tt.comparators[0], dict(env))
                if isinstance(lv, R) and isinstance(rv, R):
                    op_ = type(tt.ops[0])
                    nonneg = lambda v: v.is_const() and v.const_value() >= 0
                    if op_ is ast.Lt:
                        pos_true += [rv] if nonneg(lv) else []
                    if op_ is ast.Gt:
                        pos_true += [lv] if nonneg(rv) else []
                    if op_ is ast.GtE:
                        pos_false += [rv] if nonneg(lv) else []
                    if op_ is ast.LtE:
                        pos_false += [lv] if nonneg(rv) else []
            except Unsupported:
                pass
        env_b, env_o = dict(env), dict(env)
        env_b["__pos__"] = list(env.get("__pos__", [])) + pos_true
        env_o["__pos__"] = list(env.get("__pos__", [])) + pos_false
        body = count_calls(ex, st.body, env_b, weight, a.guards)
        orelse = count_calls(ex, st.orelse, env_o, weight, a.guards)
        # transparent guard:  if E != 0: <contribution proportional to E>
        t = st.test
        if isinstance(t, ast.Compare) and len(t.ops) == 1 and isinstance(t.ops[0], ast.NotEq) \
                and ast.unparse(t.comparators[0]) == "0" and not st.orelse and len(body) == 1:
            E = ex.need_r(ex.eval(t.left, env))
            contrib = body[0].total            # relative to the enclosing total
            st_ = E.single_term()
            if st_ is not None and len(st_[1]) == 1:
                atom = st_[1][0][0]
                if anf.subst(contrib, {atom: R.const(0)}).is_zero():
                    return [Alt(body[0].env, a.total + contrib, a.guards)]
        touched = _assigned_names(st)
        no_calls = all(b.total.is_zero() for b in body + orelse)
        exits = any(isinstance(x, (ast.Return, ast.Raise)) for x in ast.walk(st))
        if no_calls and not touched and not exits:
            return [a]
        # a test `E != 0` / `E == 0` / `E` on a counter: the arm where E is zero carries that fact (used by the caller to compare totals)
        zero_on = None
        zt = st.test
        try:
            if isinstance(zt, ast.Compare) and len(zt.ops) == 1 and ast.unparse(zt.comparators[0]) in ("0", "0.0"):
                zv = ex.eval(zt.left, dict(env))
                if isinstance(zv, R):
                    zero_on = ("orelse", zv) if isinstance(zt.ops[0], ast.NotEq) else ("body", zv) if isinstance(zt.ops[0], ast.Eq) else None
                    # `E > 0` for a count E that cannot be negative (a remainder, a quotient of counts): not taken means E == 0
                    if zero_on is None and isinstance(zt.ops[0], ast.Gt) and _nonneg(zv):
                        zero_on = ("orelse", zv)
            elif isinstance(zt, ast.Name) and isinstance(env.get(zt.id), R):
                zero_on = ("orelse", env[zt.id])
            elif isinstance(zt, ast.BinOp) and isinstance(zt.op, (ast.Mod, ast.FloorDiv)):
                zv = ex.eval(zt, dict(env))            # `if m % k:` - the truth value of a count
                if isinstance(zv, R):
                    zero_on = ("orelse", zv)
        except Unsupported:
            zero_on = None
        out = []
        for b in body:
            e_ = b.env
            if zero_on and zero_on[0] == "body":
                e_ = dict(e_)
                e_["__zero__"] = list(e_.get("__zero__", [])) + [zero_on[1]]
            out.append(Alt(e_, a.total + b.total, b.guards + [("true", st.test)], b.done))
        for b in orelse:
            e_ = b.env
            if zero_on and zero_on[0] == "orelse":
                e_ = dict(e_)
                e_["__zero__"] = list(e_.get("__zero__", [])) + [zero_on[1]]
            out.append(Alt(e_, a.total + b.total, b.guards + [("false", st.test)], b.done))
        return out
    if isinstance(st, ast.While):
        inner = count_calls(ex, st.body, env, weight, a.guards)
        if any(not (b.total).is_zero() for b in inner):
            raise Unsupported(f"while loop at line {st.lineno} contains counted calls")
        return [a]
    if isinstance(st, ast.Return):
        w = _expr_weight(ex, st.value, env, weight) if st.value is not None else R.const(0)
        return [Alt(env, a.total + w, a.guards, True)]
    if isinstance(st, ast.Raise):
        return []                         # the path ends in an exception: not a completed request
    if isinstance(st, (ast.Pass, ast.Assert)):
        return [a]
    if isinstance(st, ast.Try):
        # the normal path: body, then the `else` suite, then `finally` (which also runs on a path that returned inside the body).  A
        # handler that contains counted calls is outside the algebra (whether it runs depends on exceptions).
        for h_ in st.handlers:
            if any(not b.total.is_zero() for b in count_calls(ex, h_.body, dict(env), weight, a.guards)):
                raise Unsupported(f"exception handler at line {h_.lineno} contains counted calls")
        out = []
        for b in count_calls(ex, st.body, env, weight, a.guards):
            alts = [Alt(b.env, a.total + b.total, b.guards, b.done)]
            if not b.done and st.orelse:
                alts = [Alt(c.env, alts[0].total + c.total, c.guards, c.done) for c in count_calls(ex, st.orelse, b.env, weight, b.guards)]
            if st.finalbody:
                nxt = []
                for c in alts:
                    for d in count_calls(ex, st.finalbody, c.env, weight, c.guards):
                        nxt.append(Alt(d.env, c.total + d.total, d.guards, c.done or d.done))
                alts = nxt
            out.extend(alts)
        return out
    return [a]


def _assigned_names(node):
    return {n.id for n in ast.walk(node) if isinstance(n, ast.Name) and isinstance(n.ctx, ast.Store)}


def apply_div_relations(total: R, guards, ex=None, env=None):
    """a % b -> a - b*(a//b);  a // a -> 1 when a guard `K < a` (K >= 0 literal) holds."""
    positive = [p_ for p_ in (env or {}).get("__pos__", []) if isinstance(p_, R)]      # recorded where the branch was taken
    for pol, test in []:
        if isinstance(test, ast.Compare) and len(test.ops) == 1 and ex is not None:
            l, r, op = test.left, test.comparators[0], test.ops[0]
            big, small = (r, l) if (pol == "true" and isinstance(op, ast.Lt)) or (pol == "false" and isinstance(op, ast.GtE)) else \
                (l, r) if (pol == "true" and isinstance(op, ast.Gt)) or (pol == "false" and isinstance(op, ast.LtE)) else (None, None)
            if big is None:
                continue
            try:
                bv, sv = ex.eval(big, dict(env or {})), ex.eval(small, dict(env or {}))
            except Unsupported:
                continue
            if isinstance(bv, R) and isinstance(sv, R) and sv.is_const() and sv.const_value() >= 0:
                positive.append(bv)
    changed = True
    n = 0
    while changed and n < 10:
        n += 1
        changed = False
        mapping = {}
        for atom in total.all_atoms():
            if atom[0] == "fn" and atom[1] == "mod":
                x, y = anf.REG.get(atom[2])
                mapping[atom] = x - y * anf.fn_("floordiv", x, y)
            elif atom[0] == "fn" and atom[1] == "floordiv":
                x, y = anf.REG.get(atom[2])
                if x.eq(y) and any(x.eq(p_) for p_ in positive):
                    mapping[atom] = R.const(1)
        if mapping:
            new = anf.subst(total, mapping)
            if not new.eq(total):
                changed = True
            total = new
    return total
