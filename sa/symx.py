"""Engine B (expression side) - def-use expansion of Python expressions into the
algebraic normal form of engine C.

An Expander walks the statements of one function in source order, keeping for every
local name its defining expression already expanded (forward substitution of reaching
definitions), and returns the normal form of a requested value.  Nothing is executed:
user callables, random draws, array contents are opaque atoms.  Branches and loops are
never guessed - the rule that owns the obligation names the branch it wants through
the `on_if` / `on_for` hooks; anything else raises Unsupported (exit 2, not a violation).
"""
from __future__ import annotations
import ast
from fractions import Fraction
from . import anf
from .anf import R, Unsupported

NUMPY_ID = {"array", "asarray", "atleast_1d", "float64", "copy", "deepcopy", "squeeze",
            "float", "ascontiguousarray"}


class TupleV:
    def __init__(self, items):
        self.items = list(items)

    def __repr__(self):
        return "(" + ", ".join(map(str, self.items)) + ")"


class ListV(TupleV):
    def __repr__(self):
        return "[" + ", ".join(map(str, self.items)) + "]"


class PoisonV:
    """Value of a name that a skipped statement (outside the algebra) may have assigned or updated in place: reading it is Unsupported."""
    def __init__(self, why):
        self.why = why


def _written_names(st):
    """Local names and `self.x` texts a statement may bind or update in place (targets, in-place operators, mutating method calls)."""
    out = set()

    def base(e):
        while isinstance(e, (ast.Subscript, ast.Attribute)) and not (isinstance(e, ast.Attribute) and isinstance(e.value, ast.Name)
                                                                       and e.value.id in ("self", "cls")):
            e = e.value
        return e
    for n in ast.walk(st):
        tg = []
        if isinstance(n, ast.Assign):
            for t in n.targets:
                tg.extend(t.elts if isinstance(t, (ast.Tuple, ast.List)) else [t])
        elif isinstance(n, (ast.AugAssign, ast.AnnAssign)):
            tg = [n.target]
        elif isinstance(n, (ast.For, ast.comprehension)):
            tg = [x for x in ast.walk(n.target) if isinstance(x, ast.Name)]
        elif isinstance(n, ast.Call) and isinstance(n.func, ast.Attribute) and n.func.attr in (
                "append", "extend", "insert", "pop", "remove", "clear", "sort", "reverse", "fill", "resize", "put", "update"):
            tg = [n.func.value]
        for t in tg:
            b = base(t.value if isinstance(t, ast.Starred) else t)
            if isinstance(b, ast.Name):
                out.add(b.id)
            elif isinstance(b, ast.Attribute):
                out.add(ast.unparse(b))
    return out


class NoneV:
    def __repr__(self):
        return "None"


class StrV:
    def __init__(self, s):
        self.s = s

    def __repr__(self):
        return repr(self.s)


class CmpV:
    """A comparison / boolean expression kept structurally."""
    def __init__(self, op, left, right, node=None):
        self.op, self.left, self.right, self.node = op, left, right, node

    def __repr__(self):
        return f"({self.left} {self.op} {self.right})"


class Returned(Exception):
    def __init__(self, value):
        self.value = value


class Raised(Exception):
    pass


def idx_text(sl, loopvars=()):
    """Canonical text of a subscript: pure slices and loop variables are erased,
    None positions become a row/column tag, constants are kept."""
    elts = sl.elts if isinstance(sl, ast.Tuple) else [sl]
    toks = []
    for e in elts:
        if isinstance(e, ast.Constant) and e.value is None:
            toks.append("N")
        elif isinstance(e, ast.Slice):
            if e.lower is None and e.upper is None and e.step is None:
                toks.append(":")
            else:
                toks.append(ast.unparse(e))
        elif isinstance(e, ast.Name) and e.id in loopvars:
            toks.append(":")
        else:
            toks.append(ast.unparse(e))
    n = len(toks)
    npos = [i for i, t in enumerate(toks) if t == "N"]
    rest = [t for t in toks if t not in (":", "N")]
    tag = ""
    if npos:
        if n >= 2 and npos == [n - 2] and n >= 2 and toks[0] != "N" or (n == 2 and npos == [1]):
            tag = "r"      # varies along the first (row) axis
        elif npos == [0]:
            tag = "c"      # varies along the second (column) axis
        elif n == 3 and npos == [0, 1]:
            tag = ""       # per-dimension vector broadcast over both point axes
        else:
            tag = "N" + ",".join(map(str, npos)) + "/" + str(n)
    parts = []
    if rest:
        parts.append(",".join(rest))
    if tag:
        parts.append("@" + tag)
    return "".join(parts)


class Expander:
    def __init__(self, prog, mi, ci=None, selfname="self", depth=6):
        self.prog = prog
        self.mi = mi
        self.ci = ci
        self.selfname = selfname
        self.depth = depth
        self.loopvars = set()
        self.scalar_names = set()     # sym names that are scalars (never indexed / summed)
        self.array_pred = None        # predicate(atom) -> varies along the reduced axis
        self.n_atom = None            # R standing for the number of reduced elements
        self.attr_overrides = {}      # "self.x" text -> value
        self.opaque_self_attrs = set()
        self.ctor_methods = ("__init__", "pass_spatial_data")
        self.matmul_as_sum = True
        self.call_hook = None         # (expander, node, env) -> value or NotImplemented
        self.on_if = None             # (node, env) -> "body" | "orelse" | "skip"
        self.on_for = None            # (node, env) -> "skip" | "once" | callable
        self.on_while = None
        self.trace = []

    # -------------------------------------------------------------- helpers
    def sym(self, name):
        return R.sym(name)

    def qualified(self, node):
        """numpy.exp etc. for a Name/Attribute callee, via the module's imports."""
        if isinstance(node, ast.Name):
            return self.mi.imports.get(node.id)
        if isinstance(node, ast.Attribute) and isinstance(node.value, ast.Name):
            base = self.mi.imports.get(node.value.id)
            if base:
                return f"{base}.{node.attr}"
        return None

    def is_array_atom(self, a):
        if self.array_pred is not None:
            return self.array_pred(a)
        return a[0] == "sym" and a[1] not in self.scalar_names

    def do_sum(self, x, tag=""):
        if not isinstance(x, R):
            raise Unsupported(f"sum of non-algebraic value {x!r}")
        n = self.n_atom if self.n_atom is not None else R.sym("N")
        return anf.sum_(x, self.is_array_atom, n, tag)

    def index_value(self, v, sl):
        if isinstance(v, (TupleV, ListV)):
            if isinstance(sl, ast.Constant) and isinstance(sl.value, int):
                try:
                    return v.items[sl.value]
                except IndexError:
                    raise Unsupported("constant index out of range")
            if isinstance(sl, ast.UnaryOp) and isinstance(sl.op, ast.USub) and isinstance(sl.operand, ast.Constant):
                return v.items[-sl.operand.value]
            if isinstance(sl, ast.Slice):
                lo = sl.lower.value if isinstance(sl.lower, ast.Constant) else None
                hi = sl.upper.value if isinstance(sl.upper, ast.Constant) else None
                if (sl.lower is None or lo is not None) and (sl.upper is None or hi is not None) and sl.step is None:
                    return type(v)(v.items[lo:hi])
            raise Unsupported(f"index {ast.unparse(sl)} into a literal sequence")
        if isinstance(v, R):
            t = idx_text(sl, self.loopvars)
            if t == "":
                return v
            return self.index_R(v, t)
        raise Unsupported(f"subscript of {v!r}")

    POINTWISE = {"erf", "abs", "tanh", "cos", "sin", "int", "max", "min", "floordiv", "mod"}

    def index_R(self, v, t):
        """v[t] for an elementwise expression: the index distributes over arithmetic and pointwise
        functions and lands on the array atoms; an opaque call result f(..)[t] becomes the atom f[t](..)."""
        mapping = {}
        for a in v.atoms():
            if a[0] == "sym":
                if a[1] not in self.scalar_names and not a[1].startswith("rng."):
                    mapping[a] = R.sym(f"{a[1]}[{t}]")
                elif a[1] in self.scalar_names and a[1].endswith(":]") and t.lstrip("-").isdigit():
                    # a per-dimension vector (`theta[1:]`) is erased of broadcast tags, but ONE fixed component of it (`L[0]`) is not
                    # the generic component: it is an atom of its own
                    mapping[a] = R.sym(f"{a[1]}[{t}]")
            elif a[0] in ("exp", "log", "poly"):
                inner = self.index_R(anf.REG.get(a[1])[0], t)
                mapping[a] = {"exp": anf.exp_, "log": anf.log_, "poly": lambda z: z}[a[0]](inner)
            elif a[0] == "fn":
                args = anf.REG.get(a[2])
                if a[1] in self.POINTWISE:
                    mapping[a] = anf.fn_(a[1], *[self.index_R(x, t) for x in args])
                else:
                    mapping[a] = R.atom(("fn", f"{a[1]}[{t}]", a[2]))
        if not mapping:
            return v
        # top-level substitution only (nested occurrences were handled recursively above)
        out_num, out_den = R.const(0), R.const(0)
        def sub_poly(p):
            tot = R.const(0)
            for m, c in p.items():
                term = R.const(c)
                for a, e in m:
                    term = term * (mapping[a] if a in mapping else R.atom(a)).pow(e)
                tot = tot + term
            return tot
        return sub_poly(v.num).div(sub_poly(v.den))

    # -------------------------------------------------------------- self attributes
    def self_attr(self, attr, env):
        key = f"{self.selfname}.{attr}"
        if key in env:
            return env[key]
        if key in self.attr_overrides:
            return self.attr_overrides[key]
        if attr in self.opaque_self_attrs or self.ci is None:
            return R.sym(key)
        sites = self.prog.self_assignments(self.ci, attr, methods=set(self.ctor_methods))
        if sites and not self.prog.attr_is_frozen(self.ci, attr, self.ctor_methods):
            return R.sym(key)       # reassigned or mutated after construction: stays an opaque atom
        if not sites:
            sites = ctor_setattr_sites(self.prog, self.ci, attr)
        if len(sites) == 1 and self.depth > 0:
            c, fn, st, value = sites[0]
            sub = self.child(c.module, self.ci, fn.args.args[0].arg)
            sub.depth = self.depth - 1
            cenv = sub.param_env(fn, prefix="")
            # constructor-local definitions preceding the assignment are expanded too
            try:
                sub.run_until(fn.body, cenv, st)
                return sub.eval(value, cenv)
            except Unsupported as e:
                if "outside the algebra" in str(e) and "is written by a statement" in str(e):
                    raise               # the definition depends on a skipped in-place update: an opaque atom would hide it
                return R.sym(key)
        return R.sym(key)

    def child(self, mi, ci, selfname):
        e = Expander(self.prog, mi, ci, selfname, self.depth)
        e.scalar_names = self.scalar_names
        e.array_pred = self.array_pred
        e.n_atom = self.n_atom
        e.attr_overrides = self.attr_overrides
        e.opaque_self_attrs = self.opaque_self_attrs
        e.ctor_methods = self.ctor_methods
        e.matmul_as_sum = self.matmul_as_sum
        e.call_hook = self.call_hook
        e.on_if = self.on_if
        e.on_for = self.on_for
        e.loopvars = self.loopvars
        return e

    def param_env(self, fn, prefix="", bind=None):
        env = {}
        args = fn.args
        names = [a.arg for a in args.posonlyargs + args.args + args.kwonlyargs]
        for n in names:
            if n == (fn.args.args[0].arg if fn.args.args else None) and self.ci is not None and n in ("self", "cls"):
                continue
            env[n] = R.sym(prefix + n)
        if bind:
            env.update(bind)
        return env

    # -------------------------------------------------------------- statements
    def run_until(self, stmts, env, stop_stmt):
        """Execute straight-line statements up to (not including) stop_stmt."""
        for st in stmts:
            if st is stop_stmt:
                return True
            if _contains(st, stop_stmt):
                if isinstance(st, ast.If):
                    if _in_block(st.body, stop_stmt):
                        return self.run_until(st.body, env, stop_stmt)
                    return self.run_until(st.orelse, env, stop_stmt)
                if isinstance(st, (ast.For, ast.While, ast.With, ast.Try)):
                    return self.run_until(st.body, env, stop_stmt)
                return True
            try:
                self.exec_stmt(st, env)
            except (Returned, Raised):
                continue
            except Unsupported as e:
                # the statement is skipped - but whatever it may have written is no longer known
                for nm in _written_names(st):
                    if nm not in env or isinstance(env[nm], PoisonV):
                        continue        # a first binding that cannot be expanded leaves the name an opaque atom, as before
                    env[nm] = PoisonV(f"`{nm}` is written by a statement outside the algebra (line {getattr(st, 'lineno', 0)}: {e})")
                continue
        return False

    def run(self, stmts, env):
        """Run a block; returns the returned value or None when the block falls through."""
        try:
            for st in stmts:
                self.exec_stmt(st, env)
        except Returned as r:
            return r.value
        return None

    def exec_block(self, stmts, env):
        for st in stmts:
            self.exec_stmt(st, env)

    def exec_stmt(self, st, env):
        if isinstance(st, ast.Expr):
            if isinstance(st.value, ast.Constant):
                return
            self.exec_effect(st.value, env)
            return
        if isinstance(st, ast.Assign):
            try:
                v = self.eval(st.value, env)
            except Unsupported:
                # `q = pnt[0, :]` - a selection of the generic loop element held in a local: the local is another name for (a part
                # of) that element, opaque like the loop variable itself (rules identify it by its text; evaluating it stays Unsupported)
                names = {n.id for n in ast.walk(st.value) if isinstance(n, ast.Name)}
                sel = st.value
                while isinstance(sel, ast.Subscript):
                    sel = sel.value
                if names and names <= self.loopvars and isinstance(sel, ast.Name) and all(isinstance(t, ast.Name) for t in st.targets) \
                        and not any(t.id in env for t in st.targets):
                    for t in st.targets:
                        self.loopvars.add(t.id)
                    return
                raise
            for t in st.targets:
                self.assign(t, v, env)
            return
        if isinstance(st, ast.AnnAssign):
            if st.value is not None:
                self.assign(st.target, self.eval(st.value, env), env)
            return
        if isinstance(st, ast.AugAssign):
            cur = self.eval(_as_load(st.target), env)
            v = self.eval(st.value, env)
            self.assign(st.target, self.binop(st.op, cur, v), env)
            return
        if isinstance(st, ast.Return):
            raise Returned(self.eval(st.value, env) if st.value is not None else NoneV())
        if isinstance(st, ast.Raise):
            raise Raised()
        if isinstance(st, (ast.Pass, ast.Assert, ast.Import, ast.ImportFrom, ast.Delete, ast.Global)):
            return
        if isinstance(st, ast.If):
            if self.on_if is None:
                # default: a memoising branch (no else; its body stores attributes of self) is followed on its refreshing
                # arm - that the stale arm is only taken for the same arguments is decided by the cache-key obligations
                sn_ = self.selfname
                stores = any(isinstance(t, ast.Attribute) and isinstance(t.ctx, ast.Store) and isinstance(t.value, ast.Name)
                             and t.value.id == sn_ for s_ in st.body for t in ast.walk(s_))
                if stores and not st.orelse:
                    self.exec_block(st.body, env)
                    return
                raise Unsupported(f"branch at line {st.lineno} not selected by the rule")
            choice = self.on_if(st, env)
            if choice == "body":
                self.exec_block(st.body, env)
            elif choice == "orelse":
                self.exec_block(st.orelse, env)
            elif choice == "ignore":
                pass                  # the rule has looked at the branch itself and found it value-preserving
            elif choice == "skip":
                # neither arm is followed: whatever the statement may write is no longer the value the algebra holds (a name bound
                # before and re-bound / updated in an arm - `if Z > 6: Z = 6.0` - is unreadable afterwards; a name first bound
                # inside stays unbound)
                for name in _written_names(st):
                    if name in env and not isinstance(env[name], PoisonV):
                        env[name] = PoisonV(f"`{name}` may be re-bound by the branch at line {st.lineno}, which the rule does not follow")
            else:
                raise Unsupported(f"branch at line {st.lineno}: {choice}")
            return
        if isinstance(st, ast.For):
            if self.on_for is None:
                raise Unsupported(f"loop at line {st.lineno} not handled by the rule")
            choice = self.on_for(st, env)
            if choice == "skip":
                return
            if choice == "once":
                # one generic iteration: the element variable stands for the generic element of the iterated array
                elem_t, idx_t, it = st.target, None, st.iter
                if isinstance(it, ast.Call) and isinstance(it.func, ast.Name) and it.func.id == "enumerate" and len(it.args) == 1 \
                        and isinstance(st.target, ast.Tuple) and len(st.target.elts) == 2:
                    idx_t, elem_t, it = st.target.elts[0], st.target.elts[1], it.args[0]
                bound = False
                if isinstance(elem_t, ast.Name) and not (isinstance(it, ast.Call) and isinstance(it.func, ast.Name) and it.func.id == "range"):
                    try:
                        v = self.eval(it, env)
                        if isinstance(v, R):
                            env[elem_t.id] = v
                            bound = True
                    except Unsupported:
                        pass
                for n in ast.walk(st.target):
                    if isinstance(n, ast.Name) and not (bound and n.id == elem_t.id):
                        self.loopvars.add(n.id)
                # "one generic iteration stands for all" holds only if no value is handed from one iteration to the next: a name bound
                # before the loop and re-bound in it from its own value by a product / quotient / power (`G = G / l**2`) is different in
                # every iteration (sums `T += e` are accumulations the rules deal with explicitly)
                for b_ in st.body:
                    for s2 in ast.walk(b_):
                        carried = None
                        if isinstance(s2, ast.Assign) and len(s2.targets) == 1 and isinstance(s2.targets[0], ast.Name) \
                                and any(isinstance(x, ast.Name) and x.id == s2.targets[0].id for x in ast.walk(s2.value)) \
                                and not (isinstance(s2.value, ast.BinOp) and isinstance(s2.value.op, (ast.Add, ast.Sub))):
                            carried = s2.targets[0].id
                        elif isinstance(s2, ast.AugAssign) and isinstance(s2.target, ast.Name) and isinstance(s2.op, (ast.Mult, ast.Div, ast.Pow, ast.FloorDiv, ast.Mod)):
                            carried = s2.target.id
                        if carried is not None and carried in env and carried not in {x.id for x in ast.walk(st.target) if isinstance(x, ast.Name)}:
                            raise Unsupported(f"`{carried}` is carried from one iteration of the loop at line {st.lineno} to the next "
                                              f"(`{ast.unparse(s2)[:60]}`): a single generic iteration does not describe the loop")
                self.exec_block(st.body, env)
                self.exec_block(st.orelse, env)       # for .. else: the else suite runs after the loop (no `break` in the generic iteration)
                return
            if callable(choice):
                choice(self, st, env)
                return
            raise Unsupported(f"loop at line {st.lineno}: {choice}")
        if isinstance(st, ast.While):
            if self.on_while is None:
                raise Unsupported(f"while at line {st.lineno} not handled by the rule")
            self.on_while(self, st, env)
            return
        if isinstance(st, ast.Try):
            # the normal path: body, then `else`, then `finally`; what a handler may write is no longer the value the algebra holds
            self.exec_block(st.body, env)
            self.exec_block(st.orelse, env)
            for h_ in st.handlers:
                for b_ in h_.body:
                    for name in _written_names(b_):
                        if name in env and not isinstance(env[name], PoisonV):
                            env[name] = PoisonV(f"`{name}` may be re-bound by the exception handler at line {h_.lineno}")
            self.exec_block(st.finalbody, env)
            return
        if isinstance(st, ast.With):
            self.exec_block(st.body, env)
            return
        if isinstance(st, (ast.FunctionDef, ast.ClassDef)):
            return
        if isinstance(st, (ast.Break, ast.Continue)):
            return
        raise Unsupported(f"statement {type(st).__name__} at line {st.lineno}")

    def exec_effect(self, node, env):
        if isinstance(node, ast.Call) and isinstance(node.func, ast.Attribute):
            tgt = node.func.value
            meth = node.func.attr
            if meth in ("append", "extend", "insert"):
                try:
                    base = self.eval(tgt, env)
                except Unsupported:
                    return
                if isinstance(base, ListV):
                    try:
                        self.eval(node.args[-1], env)
                    except Unsupported:
                        # an element outside the modelled subset: the list keeps an opaque marker (never equal to anything)
                        base.items.append(R.sym(f"<unmodelled@{node.lineno}>"))
                        return
                    if meth == "append":
                        base.items.append(self.eval(node.args[0], env))
                    elif meth == "extend":
                        v = self.eval(node.args[0], env)
                        if isinstance(v, (TupleV, ListV)):
                            base.items.extend(v.items)
                        else:
                            # the elements of a sequence that is not literal in the code: one opaque marker (never equal to
                            # anything) - what the list holds in which order is the layout engine's question (sa/seq.py)
                            base.items.append(R.sym(f"<*{ast.unparse(node.args[0])[:60]}@{node.lineno}>"))
                    else:
                        pos = node.args[0]
                        if isinstance(pos, ast.Constant):
                            base.items.insert(pos.value, self.eval(node.args[1], env))
                        else:
                            raise Unsupported("insert at non-constant position")
                return
        # any other call made for its effect: whatever it may update in place is no longer the value the algebra holds
        # (`clip(z, lo, hi, out=z)`, `z.sort()`, `fill_diagonal(K, v)`, `copyto(dst, src)`): reading it later is Unsupported
        if isinstance(node, ast.Call):
            hit = []
            for k in node.keywords:
                if k.arg == "out":
                    hit.extend(x.id for x in ast.walk(k.value) if isinstance(x, ast.Name))
            f = node.func
            nm = f.attr if isinstance(f, ast.Attribute) else f.id if isinstance(f, ast.Name) else None
            if nm in ("fill_diagonal", "copyto", "put", "place", "putmask", "shuffle", "put_along_axis") and node.args:
                b = node.args[0]
                while isinstance(b, (ast.Subscript, ast.Attribute)) and not (isinstance(b, ast.Attribute) and isinstance(b.value, ast.Name)
                                                                               and b.value.id == self.selfname):
                    b = b.value
                if isinstance(b, ast.Name):
                    hit.append(b.id)
            if isinstance(f, ast.Attribute) and nm in ("sort", "fill", "resize", "partition", "itemset", "clip", "round", "put") \
                    and isinstance(f.value, ast.Name) and (nm not in ("clip", "round") or any(k.arg == "out" for k in node.keywords)):
                hit.append(f.value.id)
            # `f(.., out=z)` with z a plain local: z now holds f(..) - the value the same call returns without `out`
            outs = [k for k in node.keywords if k.arg == "out"]
            if len(outs) == 1 and isinstance(outs[0].value, ast.Name) and hit == [outs[0].value.id] and not isinstance(f, ast.Attribute) \
                    and outs[0].value.id in env:
                plain = ast.copy_location(ast.Call(func=node.func, args=node.args, keywords=[k for k in node.keywords if k.arg != "out"]), node)
                try:
                    env[outs[0].value.id] = self.eval(plain, env)
                    return
                except Unsupported:
                    pass
            for name in hit:
                if name in env and not isinstance(env[name], PoisonV):
                    env[name] = PoisonV(f"`{name}` is updated in place by `{ast.unparse(node)[:60]}` (line {getattr(node, 'lineno', 0)}), "
                                        f"a statement outside the algebra")
        return

    def assign(self, t, v, env):
        if isinstance(t, ast.Name):
            env[t.id] = v
        elif isinstance(t, (ast.Tuple, ast.List)):
            if isinstance(v, (TupleV, ListV)) and len(v.items) == len(t.elts):
                for a, b in zip(t.elts, v.items):
                    self.assign(a, b, env)
            elif isinstance(v, R):
                for k, a in enumerate(t.elts):
                    self.assign(a, self.component(v, k), env)
            else:
                raise Unsupported(f"cannot destructure {v!r}")
        elif isinstance(t, ast.Subscript):
            base = None
            try:
                base = self.eval(t.value, env)
            except Unsupported:
                pass
            if isinstance(base, ListV) and _const_index(t.slice) is not None:
                base.items[_const_index(t.slice)] = v
            else:
                env[ast.unparse(t)] = v
                # a masked overwrite of a local that already holds a computed value (`z[abs(z) > 30] = 30`, `x[x > hi] = hi`): some of
                # its entries are replaced depending on the data - the name no longer stands for the value the algebra holds
                masked = any(isinstance(x, ast.Compare) for x in ast.walk(t.slice)) or \
                    (isinstance(t.slice, ast.Name) and isinstance(env.get(t.slice.id), CmpV))
                if masked and isinstance(t.value, ast.Name) and type(base).__name__ == "M" and getattr(base, "terms", None):
                    from .ncf import M as _M
                    env[t.value.id] = _M.atom(f"{t.value.id}<entries where {ast.unparse(t.slice)[:40]} overwritten at line {getattr(t, 'lineno', 0)}>",
                                              base.rank)
                elif masked and isinstance(t.value, ast.Name) and isinstance(base, R) and not base.is_zero():
                    # (a distinct symbol, not a poison: the value IS another one wherever the mask holds - a formula rule that reads it
                    # reports the difference instead of ending undecided)
                    env[t.value.id] = R.sym(f"{t.value.id}<entries where {ast.unparse(t.slice)[:40]} overwritten at line {getattr(t, 'lineno', 0)}>")
        elif isinstance(t, ast.Attribute):
            env[ast.unparse(t)] = v
        elif isinstance(t, ast.Starred):
            raise Unsupported("starred assignment")
        else:
            raise Unsupported(f"assignment target {type(t).__name__}")

    def component(self, v, k):
        st = v.single_term()
        if st is not None and st[0] == 1 and len(st[1]) == 1 and st[1][0][1] == 1:
            a = st[1][0][0]
            if a[0] == "sym":
                return R.sym(f"{a[1]}[{k}]")
            if a[0] == "fn":
                return R.atom(("fn", f"{a[1]}#{k}", a[2]))
        raise Unsupported(f"cannot take component {k} of {v}")

    # -------------------------------------------------------------- expressions
    def _constant_global(self, name, value):
        """`name` is bound once at module level (and nowhere else in the module) to an expression of literals, pi / e and
        log / sqrt / exp of such."""
        binds = 0
        for n in ast.walk(self.mi.tree):
            if isinstance(n, (ast.Assign, ast.AugAssign, ast.AnnAssign)):
                tg = n.targets if isinstance(n, ast.Assign) else [n.target]
                binds += sum(1 for t in tg for x in ast.walk(t) if isinstance(x, ast.Name) and x.id == name and isinstance(x.ctx, ast.Store))
            elif isinstance(n, ast.Global) and name in n.names:
                return False
        if binds != 1:
            return False
        for n in ast.walk(value):
            if isinstance(n, ast.Name):
                q = self.mi.imports.get(n.id, "")
                if not (q.split(".")[0] in ("numpy", "math") and q.split(".")[-1] in ("pi", "e", "log", "sqrt", "exp", "log2", "log10")):
                    return False
            elif isinstance(n, ast.Call):
                if not isinstance(n.func, ast.Name) or n.keywords:
                    return False
            elif not isinstance(n, (ast.Constant, ast.BinOp, ast.UnaryOp, ast.operator, ast.unaryop, ast.Load, ast.expr_context)):
                return False
        return True

    def eval(self, node, env):
        if isinstance(node, ast.Constant):
            v = node.value
            if isinstance(v, bool):
                return R.const(int(v))
            if isinstance(v, int):
                return R.const(v)
            if isinstance(v, float):
                return R.const(Fraction(repr(v)))
            if v is None:
                return NoneV()
            if isinstance(v, str):
                return StrV(v)
            raise Unsupported(f"constant {v!r}")
        if isinstance(node, ast.Name):
            if node.id in env:
                if isinstance(env[node.id], PoisonV):
                    raise Unsupported(env[node.id].why)
                return env[node.id]
            q = self.mi.imports.get(node.id)
            if q in ("numpy.pi", "math.pi"):
                return anf.PI
            if node.id in self.mi.globals and q is None:
                gv = self.mi.globals[node.id]
                if self._constant_global(node.id, gv):
                    # a module-level constant folded out of a formula (LOG_ROOT_TWO_PI = 0.5 * log(2 * pi)): its value
                    try:
                        return self.eval(gv, {})
                    except Unsupported:
                        pass
                return R.sym(f"{self.mi.name}.{node.id}")
            return R.sym(node.id)
        if isinstance(node, (ast.Subscript, ast.Attribute)):
            txt = ast.unparse(node)
            if txt in env:
                if isinstance(env[txt], PoisonV):
                    raise Unsupported(env[txt].why)
                return env[txt]
        if isinstance(node, ast.Attribute):
            return self.eval_attribute(node, env)
        if isinstance(node, ast.Subscript):
            base = self.eval(node.value, env)
            return self.index_value(base, node.slice)
        if isinstance(node, ast.BinOp):
            return self.binop(node.op, self.eval(node.left, env), self.eval(node.right, env), node)
        if isinstance(node, ast.UnaryOp):
            if isinstance(node.op, ast.USub):
                return -self.need_r(self.eval(node.operand, env))
            if isinstance(node.op, ast.UAdd):
                return self.eval(node.operand, env)
            if isinstance(node.op, ast.Not):
                return CmpV("not", self.eval(node.operand, env), None, node)
            if isinstance(node.op, ast.Invert):
                return CmpV("~", self.eval(node.operand, env), None, node)
        if isinstance(node, ast.Call):
            return self.eval_call(node, env)
        if isinstance(node, ast.Tuple):
            return TupleV(self.eval_elts(node.elts, env))
        if isinstance(node, ast.List):
            return ListV(self.eval_elts(node.elts, env))
        if isinstance(node, ast.Compare):
            if len(node.ops) == 1:
                return CmpV(type(node.ops[0]).__name__, self.eval(node.left, env),
                            self.eval(node.comparators[0], env), node)
            return CmpV("chain", [self.eval(x, env) for x in [node.left] + node.comparators],
                        [type(o).__name__ for o in node.ops], node)
        if isinstance(node, ast.BoolOp):
            return CmpV(type(node.op).__name__, [self.eval(v, env) for v in node.values], None, node)
        if isinstance(node, ast.IfExp):
            a = self.eval(node.body, env)
            b = self.eval(node.orelse, env)
            if isinstance(a, R) and isinstance(b, R) and a.eq(b):
                return a
            if self.on_if is not None:
                c = self.on_if(node, env)
                if c == "body":
                    return a
                if c == "orelse":
                    return b
            raise Unsupported(f"conditional expression at line {node.lineno}")
        if isinstance(node, ast.ListComp):
            return self.eval_listcomp(node, env)
        if isinstance(node, ast.JoinedStr):
            return StrV(ast.unparse(node))
        if isinstance(node, ast.Starred):
            raise Unsupported("starred expression")
        if isinstance(node, ast.Lambda):
            raise Unsupported("lambda")
        raise Unsupported(f"expression {type(node).__name__} at line {getattr(node, 'lineno', '?')}")

    def eval_elts(self, elts, env):
        out = []
        for e in elts:
            if isinstance(e, ast.Starred):
                try:
                    v = self.eval(e.value, env)
                except Unsupported:
                    v = None
                if isinstance(v, (TupleV, ListV)):
                    out.extend(v.items)
                else:
                    # the rows of an array spliced into a list: an opaque run of elements (its order is the layout engine's
                    # business; as a value it is never equal to anything else)
                    out.append(R.sym(f"<*{ast.unparse(e.value)}>"))
            else:
                out.append(self.eval(e, env))
        return out

    def eval_listcomp(self, node, env):
        if len(node.generators) != 1 or node.generators[0].ifs:
            raise Unsupported("list comprehension shape")
        g = node.generators[0]
        it = self.eval(g.iter, env)
        if isinstance(it, (TupleV, ListV)):
            out = []
            for item in it.items:
                e2 = dict(env)
                self.assign(g.target, item, e2)
                out.append(self.eval(node.elt, e2))
            return ListV(out)
        raise Unsupported("list comprehension over a non-literal sequence")

    def need_r(self, v):
        if isinstance(v, R):
            return v
        raise Unsupported(f"algebraic value expected, got {v!r}")

    def binop(self, op, a, b, node=None):
        if isinstance(op, ast.Add) and isinstance(a, (ListV, TupleV)) and isinstance(b, (ListV, TupleV)):
            return type(a)(a.items + b.items)
        if isinstance(op, (ast.BitAnd, ast.BitOr, ast.BitXor)):
            return CmpV(type(op).__name__, [a, b], None, node)
        a, b = self.need_r(a), self.need_r(b)
        if isinstance(op, ast.Add):
            return a + b
        if isinstance(op, ast.Sub):
            return a - b
        if isinstance(op, ast.Mult):
            return a * b
        if isinstance(op, ast.Div):
            return a.div(b)
        if isinstance(op, ast.Pow):
            return a.pow(b)
        if isinstance(op, ast.MatMult):
            if self.matmul_as_sum:
                return self.do_sum(a * b, tag="@")
            raise Unsupported("matrix product in scalar algebra")
        if isinstance(op, ast.FloorDiv):
            return anf.fn_("floordiv", a, b)
        if isinstance(op, ast.Mod):
            return anf.fn_("mod", a, b)
        raise Unsupported(f"operator {type(op).__name__}")

    def eval_attribute(self, node, env):
        if isinstance(node.value, ast.Name) and node.value.id == self.selfname and self.ci is not None:
            return self.self_attr(node.attr, env)
        q = self.qualified(node)
        if q in ("numpy.pi", "math.pi"):
            return anf.PI
        base = self.eval(node.value, env)
        if node.attr == "T":
            return base
        if node.attr == "size" and isinstance(base, R):
            return R.sym(f"size({base})")
        if isinstance(base, R):
            st = base.single_term()
            if st is not None and st[0] == 1 and len(st[1]) == 1 and st[1][0][1] == 1 and st[1][0][0][0] == "sym":
                return R.sym(f"{st[1][0][0][1]}.{node.attr}")
        raise Unsupported(f"attribute .{node.attr} of {base!r}")

    # -------------------------------------------------------------- calls
    FUNCS1 = {"exp": anf.exp_, "log": anf.log_, "sqrt": anf.sqrt_, "erf": anf.erf_,
              "erfcx": anf.erfcx_, "log1p": anf.log1p_, "expm1": anf.expm1_, "cos": anf.cos_, "tanh": anf.tanh_,
              "abs": anf.abs_, "absolute": anf.abs_, "fabs": anf.abs_,
              "reciprocal": lambda x: R.const(1) / x}       # as a value; that it keeps an integer dtype is the dtype lint's business

    def eval_call(self, node, env):
        if self.call_hook is not None:
            r = self.call_hook(self, node, env)
            if r is not NotImplemented:
                return r
        f = node.func
        q = self.qualified(f)
        fname = q.split(".")[-1] if q else None
        if isinstance(f, ast.Name) and q is None and f.id == "divmod" and len(node.args) == 2 and not node.keywords and "divmod" not in env:
            # the builtin: (a // b, a % b), the very atoms the operators give
            a_, b_ = self.need_r(self.eval(node.args[0], env)), self.need_r(self.eval(node.args[1], env))
            return TupleV([anf.fn_("floordiv", a_, b_), anf.fn_("mod", a_, b_)])
        if isinstance(f, ast.Name) and q is None and f.id in ("abs", "float", "int", "sum", "len",
                                                              "max", "min", "copy", "deepcopy"):
            fname = f.id
            q = "builtins." + f.id
        args = node.args
        if q and (q.startswith("numpy.") or q.startswith("scipy.") or q.startswith("math.")
                  or q.startswith("builtins.") or q.startswith("copy.")):
            if fname in self.FUNCS1 and len(args) == 1:
                return self.FUNCS1[fname](self.need_r(self.eval(args[0], env)))
            if fname == "logaddexp":
                return anf.logaddexp_(self.need_r(self.eval(args[0], env)), self.need_r(self.eval(args[1], env)))
            if fname in NUMPY_ID or fname in ("copy", "deepcopy"):
                return self.eval(args[0], env)
            if fname in ("power", "float_power") and len(args) == 2:
                return self.need_r(self.eval(args[0], env)).pow(self.need_r(self.eval(args[1], env)))
            # function forms of the arithmetic operators and a few elementary identities (the same values, spelled differently)
            if fname in ("add", "subtract", "multiply", "divide", "true_divide") and len(args) == 2 and not node.keywords:
                a_, b_ = self.need_r(self.eval(args[0], env)), self.need_r(self.eval(args[1], env))
                return {"add": lambda: a_ + b_, "subtract": lambda: a_ - b_, "multiply": lambda: a_ * b_,
                        "divide": lambda: a_.div(b_), "true_divide": lambda: a_.div(b_)}[fname]()
            if fname in ("negative", "square", "cosh", "sinh", "log2", "log10", "exp2", "hypot", "positive") and not node.keywords:
                vs = [self.need_r(self.eval(a, env)) for a in args]
                if fname == "negative" and len(vs) == 1:
                    return -vs[0]
                if fname == "positive" and len(vs) == 1:
                    return vs[0]
                if fname == "square" and len(vs) == 1:
                    return vs[0] * vs[0]
                if fname == "cosh" and len(vs) == 1:
                    return (anf.exp_(vs[0]) + anf.exp_(-vs[0])).div(R.const(2))
                if fname == "sinh" and len(vs) == 1:
                    return (anf.exp_(vs[0]) - anf.exp_(-vs[0])).div(R.const(2))
                if fname == "log2" and len(vs) == 1:
                    return anf.log_(vs[0]).div(anf.log_(R.const(2)))
                if fname == "log10" and len(vs) == 1:
                    return anf.log_(vs[0]).div(anf.log_(R.const(10)))
                if fname == "exp2" and len(vs) == 1:
                    return anf.exp_(vs[0] * anf.log_(R.const(2)))
                if fname == "hypot" and len(vs) == 2:
                    return anf.sqrt_(vs[0] * vs[0] + vs[1] * vs[1])
            if fname in ("zeros", "zeros_like"):
                return R.const(0)
            if fname in ("ones", "ones_like"):
                return R.const(1)
            if fname == "dot" and len(args) == 2:
                return self.do_sum(self.need_r(self.eval(args[0], env)) * self.need_r(self.eval(args[1], env)), tag="@")
            if fname == "sum" and len(args) == 1:
                v = self.eval(args[0], env)
                if isinstance(v, (ListV, TupleV)):
                    out = R.const(0)
                    for it in v.items:
                        out = out + self.need_r(it)
                    return out
                return self.do_sum(v)
            if fname == "len" and len(args) == 1:
                v = self.eval(args[0], env)
                if isinstance(v, (ListV, TupleV)):
                    return R.const(len(v.items))
                # len() of a raw argument (a parameter still bound to itself, not yet squeezed / flattened / validated) is its
                # first-axis length, which is the element count only for 1-D input: kept apart from .size.  For everything the
                # code has already normalised (attributes, converted locals) the two name the same count.
                if isinstance(args[0], ast.Name) and isinstance(v, R) and str(v) == args[0].id:
                    return R.sym(f"len({v})")
                return R.sym(f"size({v})")
            if fname in ("int",) and len(args) == 1:
                return anf.fn_("int", self.need_r(self.eval(args[0], env)))
            if fname in ("max", "min", "maximum", "minimum"):
                vals = [self.need_r(self.eval(a, env)) for a in args]
                return anf.fn_(fname[:3], *vals)
            vals = []
            for a in args:
                v = self.eval(a, env)
                vals.append(v if isinstance(v, R) else R.sym(repr(v)))
            return anf.fn_(q, *vals)
        # method calls
        if isinstance(f, ast.Attribute):
            # self.method(...)
            if isinstance(f.value, ast.Name) and f.value.id == self.selfname and self.ci is not None:
                c, fn = self.prog.find_method(self.ci, f.attr)
                if fn is not None:
                    try:
                        return self.inline(c.module, self.ci, fn, node, env)
                    except Unsupported:
                        # a helper outside the modelled subset stays an opaque function of its arguments
                        return self.opaque_call(f"{self.selfname}.{f.attr}", node, env)
                # callable slot (user function)
                return self.opaque_call(f"{self.selfname}.{f.attr}", node, env)
            meth = f.attr
            if meth in ("sum",):
                base = self.eval(f.value, env)
                axis = next((k.value for k in node.keywords if k.arg == "axis"), None)
                tag = f"ax{ast.unparse(axis)}" if axis is not None else ""
                return self.do_sum(base, tag=tag)
            if meth in ("copy", "squeeze", "flatten", "astype", "ravel"):
                return self.eval(f.value, env)
            if meth == "dot" and len(args) == 1:
                return self.do_sum(self.need_r(self.eval(f.value, env)) * self.need_r(self.eval(args[0], env)), tag="@")
            if meth in ("max", "min", "mean", "std") and not args:
                base = self.need_r(self.eval(f.value, env))
                # the axis is part of the function: x.mean(axis=0) (one value per column) is not x.mean() (one number)
                kw_ = {k_.arg: ast.unparse(k_.value) for k_ in node.keywords if k_.arg in ("axis", "keepdims", "ddof")}
                tag_ = "[" + ",".join(f"{a_}={v_}" for a_, v_ in sorted(kw_.items())) + "]" if kw_ else ""
                return anf.fn_(meth + tag_, base)
            # rng draws and other opaque method calls
            return self.opaque_call(ast.unparse(f), node, env)
        if isinstance(f, ast.Name):
            if f.id in self.mi.functions:
                return self.inline(self.mi, None, self.mi.functions[f.id], node, env)
            if f.id in env and isinstance(env[f.id], R):
                return self.opaque_call(f.id, node, env)
            if q and q.startswith("inference."):
                modname, _, fn_name = q.rpartition(".")
                m2 = self.prog.modules.get(modname)
                if m2 and fn_name in m2.functions:
                    return self.inline(m2, None, m2.functions[fn_name], node, env)
            return self.opaque_call(f.id, node, env)
        raise Unsupported(f"call {ast.unparse(f)}")

    def opaque_call(self, name, node, env):
        vals = []
        for a in node.args:
            v = self.eval(a, env)
            vals.append(v if isinstance(v, R) else R.sym(repr(v)))
        for k in node.keywords:
            v = self.eval(k.value, env)
            vals.append(v if isinstance(v, R) else R.sym(repr(v)))
        if ".rng." in name or name.startswith("rng."):
            # every syntactic draw site is an independent opaque value
            return R.sym(f"rng.{name.split('.')[-1]}@{node.lineno}")
        return anf.fn_(name, *vals)

    def inline(self, mi, ci, fn, call, env):
        if self.depth <= 0:
            raise Unsupported(f"inlining depth exceeded at {fn.name}")
        params = [a.arg for a in fn.args.args]
        is_method = ci is not None and not any(
            ast.unparse(d) == "staticmethod" for d in fn.decorator_list)
        selfname = params[0] if is_method and params else self.selfname
        if is_method:
            params = params[1:]
        bind = {}
        for p, a in zip(params, call.args):
            bind[p] = self.eval(a, env)
        for k in call.keywords:
            if k.arg in params:
                bind[k.arg] = self.eval(k.value, env)
        defaults = fn.args.defaults
        for p, d in zip(params[len(params) - len(defaults):], defaults):
            if p not in bind:
                bind[p] = self.eval(d, {})
        for p in params:
            if p not in bind:
                raise Unsupported(f"argument {p} of {fn.name} not bound")
        sub = self.child(mi, ci, selfname)
        sub.depth = self.depth - 1
        sub.on_while = self.on_while
        # attribute stores on self made by the caller stay visible
        for k, v in env.items():
            if k.startswith(self.selfname + ".") and selfname == self.selfname:
                bind[k] = v
        res = sub.run(fn.body, bind)
        if res is None:
            return NoneV()
        return res


def ctor_setattr_sites(prog, ci, attr):
    """`setattr(self, NAME, V)` in a base constructor, where NAME is a parameter that a
    subclass binds to the constant string `attr` in its super().__init__(...) call."""
    out = []
    mro = prog.mro(ci)
    for k, c in enumerate(mro):
        fn = c.methods.get("__init__")
        if fn is None:
            continue
        sn = fn.args.args[0].arg
        params = [a.arg for a in fn.args.args[1:]]
        for call in ast.walk(fn):
            if not (isinstance(call, ast.Call) and isinstance(call.func, ast.Name)
                    and call.func.id == "setattr" and len(call.args) == 3):
                continue
            tgt, name, val = call.args
            if not (isinstance(tgt, ast.Name) and tgt.id == sn):
                continue
            if isinstance(name, ast.Constant) and name.value == attr:
                out.append((c, fn, _stmt_of(fn, call), val))
            elif isinstance(name, ast.Name) and name.id in params:
                pos = params.index(name.id)
                for sub in mro[:k]:
                    sfn = sub.methods.get("__init__")
                    if sfn is None:
                        continue
                    for sc in ast.walk(sfn):
                        if isinstance(sc, ast.Call) and ast.unparse(sc.func).startswith("super(") \
                                and ast.unparse(sc.func).endswith(".__init__"):
                            a = sc.args[pos] if len(sc.args) > pos else next(
                                (kw.value for kw in sc.keywords if kw.arg == name.id), None)
                            if isinstance(a, ast.Constant) and a.value == attr:
                                out.append((c, fn, _stmt_of(fn, call), val))
    return out


def _stmt_of(fn, node):
    for st in ast.walk(fn):
        if isinstance(st, ast.stmt) and any(n is node for n in ast.iter_child_nodes(st)):
            return st
        if isinstance(st, ast.Expr) and st.value is node:
            return st
    return None


def _contains(st, target):
    return any(n is target for n in ast.walk(st))


def _in_block(block, target):
    return any(_contains(s, target) for s in block)


def _as_load(t):
    import copy
    t2 = copy.deepcopy(t)
    for n in ast.walk(t2):
        if hasattr(n, "ctx"):
            n.ctx = ast.Load()
    return t2


def _const_index(sl):
    if isinstance(sl, ast.Constant) and isinstance(sl.value, int):
        return sl.value
    if isinstance(sl, ast.UnaryOp) and isinstance(sl.op, ast.USub) and isinstance(sl.operand, ast.Constant):
        return -sl.operand.value
    return None


def parse_expr(text):
    return ast.parse(text, mode="eval").body


def ref_eval(text, env=None, scalars=(), array_pred=None, n_atom=None):
    """Evaluate a reference formula written as a Python expression string."""
    class _M:
        imports = {"pi": "numpy.pi", "exp": "numpy.exp", "log": "numpy.log", "sqrt": "numpy.sqrt",
                   "erf": "scipy.special.erf", "erfcx": "scipy.special.erfcx",
                   "logaddexp": "numpy.logaddexp", "cos": "numpy.cos", "tanh": "numpy.tanh",
                   "log1p": "numpy.log1p", "Sum": "numpy.sum"}
        functions = {}
        globals = {}
        name = "<ref>"
    ex = Expander(None, _M, None)
    ex.scalar_names = set(scalars)
    ex.array_pred = array_pred
    ex.n_atom = n_atom
    return ex.eval(parse_expr(text), dict(env or {}))
