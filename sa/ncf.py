"""Engine D - non-commutative (matrix) normal form.

Values are polynomials {word: Fraction} over matrix / vector atoms; a word is a tuple of
factors (name, transposed).  Rank is tracked (0 scalar, 1 vector = column, 2 matrix) so that
numpy's 1-D semantics of `@` are modelled.  Identities used (each exact):
  (AB)^T = B^T A^T;  symmetric atoms ignore transposition;  I is the unit;
  solve_triangular(L, B, lower=True) = L^-1 B;  solve_triangular(L.T, B) = L^-T B;
  solve(X, B) = inv(X) B  with inv(X) an atom named by the canonical form of X;
  (v**2).sum() = v^T v;  (A * B.T).sum() = tr(A B);  a[:,None]*b[None,:] = a b^T;
  traces and scalar words are canonicalised up to cyclic rotation / transposition;
  log(diagonal(L)).sum() is the opaque scalar  hld(L)  (half the log-determinant).
Elementwise (Hadamard) algebra is not modelled here: it is delegated to engine C through
opaque atoms.
"""
from __future__ import annotations
from fractions import Fraction
from .anf import Unsupported

F0, F1 = Fraction(0), Fraction(1)


class M:
    """Non-commutative polynomial with rank."""
    __slots__ = ("terms", "rank")

    def __init__(self, terms, rank):
        self.terms = {w: c for w, c in terms.items() if c != 0}
        self.rank = rank

    @staticmethod
    def atom(name, rank, symmetric=False):
        if symmetric:
            SYMMETRIC.add(name)
        return M({((name, False),): F1}, rank)

    @staticmethod
    def scalar(c):
        return M({(): Fraction(c)}, 0)

    @staticmethod
    def eye():
        return M({(): F1}, 2)

    def __add__(self, o):
        o = lift(o)
        if self.rank != o.rank and not (self.is_zero() or o.is_zero()):
            # numpy broadcasting of a scalar over a matrix is not linear algebra
            raise Unsupported(f"sum of rank {self.rank} and rank {o.rank} values")
        d = dict(self.terms)
        for w, c in o.terms.items():
            d[w] = d.get(w, F0) + c
        return M(d, max(self.rank, o.rank))

    __radd__ = __add__

    def __neg__(self):
        return M({w: -c for w, c in self.terms.items()}, self.rank)

    def __sub__(self, o):
        return self + (-lift(o))

    def __rsub__(self, o):
        return lift(o) + (-self)

    def scale(self, c):
        return M({w: k * Fraction(c) for w, k in self.terms.items()}, self.rank)

    def is_zero(self):
        return not self.terms

    def T(self):
        if self.rank < 2:
            return self
        return M({transpose_word(w): c for w, c in self.terms.items()}, 2)

    def matmul(self, o):
        o = lift(o)
        a, b = self, o
        if a.rank == 0 or b.rank == 0:
            return a.times_scalar(b) if b.rank == 0 else b.times_scalar(a)
        if a.rank == 2 and b.rank == 2:
            return M(_mul(a.terms, b.terms), 2)
        if a.rank == 2 and b.rank == 1:
            return M(_mul(a.terms, b.terms), 1)
        if a.rank == 1 and b.rank == 2:
            # v @ A  ==  (A^T v) as a column
            return M(_mul(b.T().terms, a.terms), 1)
        # vector . vector -> scalar  v^T w
        return scalarise(_mul(_row(a.terms), b.terms))

    def times_scalar(self, s):
        """self * s where s has rank 0 (only purely numeric scalars multiply matrices here)."""
        if s.rank != 0:
            raise Unsupported("times_scalar with a non-scalar")
        if set(s.terms) <= {()}:
            return self.scale(s.terms.get((), F0))
        if set(self.terms) <= {()}:
            return M({w: c * self.terms.get((), F0) for w, c in s.terms.items()}, max(self.rank, 0))
        raise Unsupported("product of a symbolic scalar word with another word")

    def _merge(self):
        return M(dict(self.terms), self.rank)

    def eq(self, o):
        o = lift(o)
        return (self - o).is_zero() if self.rank == o.rank or self.is_zero() or o.is_zero() else False

    def __str__(self):
        if not self.terms:
            return "0"
        parts = []
        for w, c in sorted(self.terms.items(), key=lambda t: str(t[0])):
            body = word_str(w) or "I"
            parts.append(body if c == 1 else f"{c}*{body}")
        return " + ".join(parts)

    __repr__ = __str__


SYMMETRIC = set()


def lift(x):
    if isinstance(x, M):
        return x
    if isinstance(x, (int, Fraction)):
        return M.scalar(x)
    if isinstance(x, float):
        return M.scalar(Fraction(repr(x)))
    raise Unsupported(f"cannot lift {type(x).__name__} into the matrix algebra")


def word_str(w):
    return "·".join(n + ("ᵀ" if t else "") for n, t in w)


def _flip(f):
    n, t = f
    if n in SYMMETRIC or n.startswith("<"):
        return (n, False)
    if n == "Linv":
        return ("LinvT", False)
    if n == "LinvT":
        return ("Linv", False)
    return (n, not t)


def transpose_word(w):
    return tuple(_flip(f) for f in reversed(w))


def _row(terms):
    """Terms of a column vector, transposed into row words."""
    return {transpose_word(w): c for w, c in terms.items()}


def _mul(t1, t2):
    out = {}
    for w1, c1 in t1.items():
        for w2, c2 in t2.items():
            w = simplify(w1 + w2)
            out[w] = out.get(w, F0) + c1 * c2
    return out


def simplify(w):
    """Cancel adjacent inverse pairs  L^-1 L, L L^-1, inv(X) X (not generally available) ..."""
    out = []
    for f in w:
        if out and _cancels(out[-1], f):
            out.pop()
        else:
            out.append(f)
    return tuple(out)


CANCEL = {("Linv", "L"), ("L", "Linv"), ("LinvT", "LT"), ("LT", "LinvT")}


def _cancels(a, b):
    na = a[0] + ("T" if a[1] and a[0] == "L" else "")
    nb = b[0] + ("T" if b[1] and b[0] == "L" else "")
    return (na, nb) in CANCEL


def canon_scalar(w):
    """A scalar word equals its transpose."""
    t = transpose_word(w)
    return min(w, t, key=str)


def scalarise(terms):
    """Scalar-valued words: a word equals its transpose; coefficients of identified words add up."""
    out = {}
    for w, c in terms.items():
        k = canon_scalar(w)
        out[k] = out.get(k, F0) + c
    return M(out, 0)


def trace(m: M):
    """tr of a square-matrix valued polynomial: cyclic rotations and transposition identified."""
    out = {}
    for w, c in m.terms.items():
        cands = []
        for base in (w, transpose_word(w)):
            for k in range(max(len(base), 1)):
                cands.append(base[k:] + base[:k])
        cw = min(cands, key=str)
        key = (("tr", False),) + cw
        out[key] = out.get(key, F0) + c
    return M(out, 0)


def quad_to_trace(m: M):
    """Rewrite scalar words  v^T W v'  as  tr(W v' v^T)  so that they compare with traces: not needed
    by the current rules; kept for completeness."""
    return m
