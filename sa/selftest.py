"""Checker self-test (thorough tier).

For every property a table of single-site edits of the *current* source is applied in memory
(the edited module replaces the parsed one in a copy of the program model; nothing is written to
/repo and nothing is executed): `mutants` must make the property's rules report a new failing
obligation, `neutral` rewrites (behaviour-preserving: renamed locals, commuted / re-associated
arithmetic, temporaries introduced or removed, equivalent spellings) must leave the set of failing
obligations unchanged.  An edit whose anchor text is no longer present is skipped and counted as such.
Generic neutral operators (alpha-renaming of locals, commuting products) are applied to the files a
property is anchored in.
"""
from __future__ import annotations
import ast, json, os, copy
from .report import Ob, AnalysisError, VERIF

CASES = os.path.join(VERIF, "sa", "selftest_cases.json")


def _failing(obs):
    return {(o.rule, o.construct, o.detail) for o in obs if not o.ok}


def _run_variant(mod, prog, rel, text):
    try:
        tree = ast.parse(text)
    except SyntaxError:
        return "syntax", None
    p2 = prog.with_tree(rel, tree)
    try:
        obs, floors, meta = mod.run(p2, "quick")
    except AnalysisError as e:
        return "analysis-error", str(e)
    except Exception as e:              # a crash of the analyser on a variant is a self-test failure
        return "crash", repr(e)
    return "ok", obs


class _Commute(ast.NodeTransformer):
    """a * b -> b * a for numeric-looking products (never for @, never when an operand is a list/str literal)."""
    def __init__(self):
        self.n = 0

    def visit_BinOp(self, node):
        self.generic_visit(node)
        if isinstance(node.op, ast.Mult) and not any(isinstance(x, (ast.List, ast.Tuple, ast.Constant)) and
                                                      isinstance(getattr(x, "value", None), str) for x in (node.left, node.right)) \
                and not any(isinstance(x, (ast.List, ast.Tuple, ast.ListComp)) for x in (node.left, node.right)):
            self.n += 1
            return ast.BinOp(left=node.right, op=node.op, right=node.left)
        return node


class _Rename(ast.NodeTransformer):
    """Alpha-renaming of the local variables of every function (parameters, attributes, globals and names
    captured by nested lambdas / comprehensions of an enclosing scope are left alone)."""
    def __init__(self):
        self.n = 0

    def visit_FunctionDef(self, fn):
        params = {a.arg for a in fn.args.posonlyargs + fn.args.args + fn.args.kwonlyargs}
        if fn.args.vararg:
            params.add(fn.args.vararg.arg)
        if fn.args.kwarg:
            params.add(fn.args.kwarg.arg)
        nested = [n for n in ast.walk(fn) if isinstance(n, (ast.FunctionDef, ast.Lambda)) and n is not fn]
        nested_names = {x.id for n in nested for x in ast.walk(n) if isinstance(x, ast.Name)}
        stored = {n.id for n in ast.walk(fn) if isinstance(n, ast.Name) and isinstance(n.ctx, ast.Store)}
        declared = {x for n in ast.walk(fn) if isinstance(n, (ast.Global, ast.Nonlocal)) for x in n.names}
        locals_ = stored - params - nested_names - declared - {"_"}
        if locals_:
            for n in ast.walk(fn):
                if isinstance(n, ast.Name) and n.id in locals_:
                    n.id = n.id + "_rn"
                    self.n += 1
        return fn


class _Extract(ast.NodeTransformer):
    """Hoist the first positional argument of the outermost call of a simple statement into a fresh temporary placed
    just before the statement (evaluation order is unchanged: the callee expression is a plain name / attribute chain)."""
    def __init__(self, every=1):
        self.n = 0
        self.k = 0
        self.every = every

    @staticmethod
    def _plain(f):
        while isinstance(f, ast.Attribute):
            f = f.value
        return isinstance(f, ast.Name)

    def _process(self, body):
        out = []
        for st in body:
            for arm in ("body", "orelse", "finalbody"):
                sub = getattr(st, arm, None)
                if isinstance(sub, list) and sub and isinstance(sub[0], ast.stmt) and not isinstance(st, (ast.FunctionDef, ast.ClassDef)):
                    setattr(st, arm, self._process(sub))
            for h in getattr(st, "handlers", []) or []:
                h.body = self._process(h.body)
            val = st.value if isinstance(st, (ast.Assign, ast.Return, ast.AugAssign)) else None
            if isinstance(val, ast.Call) and self._plain(val.func) and val.args \
                    and isinstance(val.args[0], (ast.BinOp, ast.Call, ast.Subscript)) \
                    and not any(isinstance(x, (ast.Lambda, ast.Yield, ast.Await, ast.NamedExpr)) for x in ast.walk(val.args[0])):
                self.k += 1
                if self.k % self.every == 0:
                    name = f"_tmp{self.n}"
                    self.n += 1
                    out.append(ast.Assign(targets=[ast.Name(id=name, ctx=ast.Store())], value=val.args[0], lineno=st.lineno, col_offset=st.col_offset))
                    val.args[0] = ast.Name(id=name, ctx=ast.Load())
            out.append(st)
        return out

    def visit_FunctionDef(self, fn):
        self.generic_visit(fn)
        fn.body = self._process(fn.body)
        return fn


class _InlineTemps(ast.NodeTransformer):
    """`t = <call-free expression>` immediately followed by a simple statement that reads t exactly once, with t used
    nowhere else in the function: the temporary is removed and its value written in place."""
    def __init__(self):
        self.n = 0

    def visit_FunctionDef(self, fn):
        self.generic_visit(fn)
        counts = {}
        for x in ast.walk(fn):
            if isinstance(x, ast.Name):
                counts[x.id] = counts.get(x.id, 0) + 1
        fn.body = self._process(fn.body, counts)
        return fn

    def _process(self, body, counts):
        out = []
        i = 0
        while i < len(body):
            st = body[i]
            for arm in ("body", "orelse", "finalbody"):
                sub = getattr(st, arm, None)
                if isinstance(sub, list) and sub and isinstance(sub[0], ast.stmt) and not isinstance(st, (ast.FunctionDef, ast.ClassDef)):
                    setattr(st, arm, self._process(sub, counts))
            nxt = body[i + 1] if i + 1 < len(body) else None
            if isinstance(st, ast.Assign) and len(st.targets) == 1 and isinstance(st.targets[0], ast.Name) \
                    and counts.get(st.targets[0].id) == 2 and not any(isinstance(x, (ast.Call, ast.Lambda, ast.ListComp, ast.GeneratorExp)) for x in ast.walk(st.value)) \
                    and isinstance(nxt, (ast.Assign, ast.Return, ast.Expr)) and nxt.value is not None \
                    and not any(isinstance(x, (ast.Lambda, ast.ListComp, ast.GeneratorExp, ast.IfExp, ast.BoolOp, ast.DictComp, ast.SetComp)) for x in ast.walk(nxt.value)):
                name = st.targets[0].id
                uses = [x for x in ast.walk(nxt.value) if isinstance(x, ast.Name) and x.id == name and isinstance(x.ctx, ast.Load)]
                if len(uses) == 1:
                    val = st.value

                    class Sub(ast.NodeTransformer):
                        def visit_Name(self, x):
                            return val if x.id == name and isinstance(x.ctx, ast.Load) else x
                    nxt.value = Sub().visit(nxt.value)
                    self.n += 1
                    i += 1
                    continue
            out.append(st)
            i += 1
        return out


def generic_neutral(prog, rel):
    """(label, module text) variants of one file produced by generic behaviour-preserving operators."""
    out = []
    src = open(os.path.join(prog.root, rel)).read()
    tree = ast.parse(src)
    t2 = copy.deepcopy(tree)
    c = _Commute()
    t2 = c.visit(t2)
    ast.fix_missing_locations(t2)
    if c.n:
        out.append((f"commute {c.n} products", ast.unparse(t2)))
    t3 = copy.deepcopy(tree)
    r = _Rename()
    for node in ast.walk(t3):
        if isinstance(node, ast.FunctionDef):
            r.visit_FunctionDef(node)
    if r.n:
        out.append((f"alpha-rename locals ({r.n} occurrences)", ast.unparse(t3)))
    t4 = copy.deepcopy(tree)
    e = _Extract()
    t4 = e.visit(t4)
    ast.fix_missing_locations(t4)
    if e.n:
        out.append((f"hoist {e.n} call arguments into temporaries", ast.unparse(t4)))
    t5 = copy.deepcopy(tree)
    it = _InlineTemps()
    t5 = it.visit(t5)
    ast.fix_missing_locations(t5)
    if it.n:
        out.append((f"inline {it.n} single-use temporaries", ast.unparse(t5)))
    # re-formatting: unparse / re-parse drops comments, blank lines and parentheses
    out.append(("reformat (ast round trip)", ast.unparse(tree)))
    return out


def _patched_program(prog, patch_path):
    """Program for a scratch copy of the tree with one patch applied (None if it does not apply)."""
    import shutil, subprocess, tempfile
    from .model import Program
    tmp = tempfile.mkdtemp(prefix="sa_selftest_")
    try:
        shutil.copytree(os.path.join(prog.root, "inference"), os.path.join(tmp, "inference"),
                        ignore=shutil.ignore_patterns("__pycache__"))
        r = subprocess.run(["patch", "-p1", "-s", "--no-backup-if-mismatch", "-i", patch_path], cwd=tmp, capture_output=True)
        if r.returncode != 0:
            return None
        p2 = Program.load(tmp)
        p2.root = prog.root          # rules that re-read files use the model's trees, not the path
        return p2
    except Exception:
        return None
    finally:
        shutil.rmtree(tmp, ignore_errors=True)


def _external(pid, mod, prog, base_fail):
    import glob
    out = {"seeded_total": 0, "seeded_missed": [], "neutral_total": 0, "neutral_noisy": [], "skipped": 0}
    for meta in sorted(glob.glob(os.path.join(VERIF, "seeded", "*", "meta.json"))):
        try:
            m = json.load(open(meta))
        except Exception:
            continue
        who = m.get("detected_by", [m.get("breaks_property")])
        if pid not in who:
            continue
        p2 = _patched_program(prog, os.path.join(os.path.dirname(meta), "patch.diff"))
        if p2 is None:
            out["skipped"] += 1
            continue
        out["seeded_total"] += 1
        try:
            res, _, _ = mod.run(p2, "quick")
            fired = bool(_failing(res) - base_fail)
        except AnalysisError:
            # a change the algebra cannot express: the check fails closed (exit 2), which is recorded as such in the meta
            fired = m.get("expected") == "analysis-error"
        except Exception:
            fired = False
        if not fired:
            out["seeded_missed"].append(m.get("id"))
    for patch in sorted(glob.glob(os.path.join(VERIF, "neutral", "*", "patch.diff"))):
        tag = os.path.basename(os.path.dirname(patch))
        p2 = _patched_program(prog, patch)
        if p2 is None:
            out["skipped"] += 1
            continue
        out["neutral_total"] += 1
        try:
            res, _, _ = mod.run(p2, "quick")
            if _failing(res) != base_fail:
                out["neutral_noisy"].append({"refactoring": tag, "reports": str(sorted(_failing(res) - base_fail)[:2])[:300]})
        except AnalysisError as e:
            out["neutral_noisy"].append({"refactoring": tag, "reports": f"analysis-error: {e}"[:300]})
        except Exception as e:
            out["neutral_noisy"].append({"refactoring": tag, "reports": f"crash: {e!r}"[:300]})
    return out


def run(pid, mod, prog):
    cases = json.load(open(CASES)) if os.path.exists(CASES) else {}
    mine = cases.get(pid, {})
    base_status, base_obs = "ok", None
    try:
        base_obs, _, _ = mod.run(prog, "quick")
    except AnalysisError as e:
        raise
    base_fail = _failing(base_obs)
    obs, info = [], []
    killed = total = skipped = 0
    survivors = []
    for case in mine.get("mutants", []):
        rel, old, new = case["file"], case["old"], case["new"]
        path = os.path.join(prog.root, rel)
        src = open(path).read()
        if src.count(old) != 1:
            skipped += 1
            continue
        total += 1
        status, res = _run_variant(mod, prog, rel, src.replace(old, new))
        fired = status == "ok" and bool(_failing(res) - base_fail)
        if fired:
            killed += 1
        else:
            survivors.append({"file": rel, "old": old[:80], "new": new[:80], "status": status})
    n_silent = n_total = 0
    noisy = []
    variants = []
    for case in mine.get("neutral", []):
        rel, old, new = case["file"], case["old"], case["new"]
        src = open(os.path.join(prog.root, rel)).read()
        if src.count(old) != 1:
            skipped += 1
            continue
        variants.append((rel, f"{old[:50]!r} -> {new[:50]!r}", src.replace(old, new)))
    for rel in mine.get("generic_neutral_files", []):
        for label, text in generic_neutral(prog, rel):
            variants.append((rel, label, text))
    for rel, label, text in variants:
        n_total += 1
        status, res = _run_variant(mod, prog, rel, text)
        if status == "ok" and _failing(res) == base_fail:
            n_silent += 1
        else:
            extra = sorted(_failing(res) - base_fail)[:2] if status == "ok" else status
            noisy.append({"file": rel, "variant": label, "reports": str(extra)[:300]})
    # ---- committed patches from independent authors: seeded/<id> must be reported, neutral/<id> must change nothing.
    # Each patch is applied to a scratch copy of the tree under the system temp directory (removed at once); a patch that
    # no longer applies to the current tree is skipped and counted.
    ext = _external(pid, mod, prog, base_fail)
    if ext["seeded_missed"]:
        info.append(f"SELFTEST {pid}: seeded changes not reported: {ext['seeded_missed']}")
    if ext["neutral_noisy"]:
        info.append(f"SELFTEST {pid}: verdict changed on behaviour-preserving refactorings: {ext['neutral_noisy'][:3]}")
    # self-test outcomes describe the checker, not the repository: they are reported as evidence / INFO and
    # never as a violation of the property
    if survivors:
        info.append(f"SELFTEST {pid}: {len(survivors)} of {total} seeded edits were not reported: {survivors[:3]}")
    if noisy:
        info.append(f"SELFTEST {pid}: verdict changed on {len(noisy)} of {n_total} behaviour-preserving rewrites: {noisy[:3]}")
    return {"obs": obs, "info": info,
            "extra": {"selftest_survivors": survivors[:5], "selftest_noisy_neutral": noisy[:5], "mutants_total": total, "mutants_killed": killed, "neutral_variants_total": n_total,
                      "neutral_variants_silent": n_silent, "selftest_cases_skipped_anchor_changed": skipped,
                      "seeded_patches_total": ext["seeded_total"], "seeded_patches_reported": ext["seeded_total"] - len(ext["seeded_missed"]),
                      "refactoring_patches_total": ext["neutral_total"], "refactoring_patches_silent": ext["neutral_total"] - len(ext["neutral_noisy"]),
                      "patches_skipped_do_not_apply": ext["skipped"]}}
