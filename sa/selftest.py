"""Checker self-test (thorough tier): slot-driven in-memory AST mutants that each rule
must report, and behaviour-preserving rewrites on which it must stay silent.
Nothing is written to /repo and nothing is executed."""
from __future__ import annotations


def run(pid, mod, prog):
    if hasattr(mod, "selftest"):
        return mod.selftest(prog)
    return {"obs": [], "extra": {"selftest": "no self-test operators registered for this property yet"}, "info": []}
