"""AST -> matrix normal form (engine D front end).  Subclass of the scalar Expander: statements,
environments, self-attribute inlining and method inlining are shared; expressions evaluate to ncf.M."""
from __future__ import annotations
import ast
from fractions import Fraction
from .symx import Expander, TupleV, ListV, NoneV, StrV, PoisonV
from .anf import Unsupported
from . import ncf
from .ncf import M


class DiagIdx:
    """The value of numpy.diag_indices(n) / diag_indices_from(X): the index pair of the main diagonal."""
    def __repr__(self):
        return "<diag-indices>"


class MExpander(Expander):
    def __init__(self, prog, mi, ci=None, selfname="self", depth=6):
        super().__init__(prog, mi, ci, selfname, depth)
        self.atoms = {}            # text -> (name, rank, symmetric)   explicit atom table supplied by the rule
        self.call_atoms = None     # (expander, node, env) -> M / TupleV / NotImplemented
        self.chol = {}             # name of a cholesky factor -> M it factorises
        self.problems = []         # triangular solves with the wrong triangle etc.

    def child(self, mi, ci, selfname):
        e = MExpander(self.prog, mi, ci, selfname, self.depth)
        e.atoms, e.call_atoms, e.chol, e.problems = self.atoms, self.call_atoms, self.chol, self.problems
        e.opaque_self_attrs = self.opaque_self_attrs
        e.ctor_methods = self.ctor_methods
        e.on_if, e.on_for = self.on_if, self.on_for
        e.attr_overrides = self.attr_overrides
        return e

    def param_env(self, fn, prefix="", bind=None):
        env = super().param_env(fn, prefix=prefix, bind=bind)
        for k in list(env):
            if k in self.atoms:     # parameters the rule declared as matrix atoms
                del env[k]
        return env

    def need_m(self, v):
        if isinstance(v, M):
            return v
        raise Unsupported(f"matrix value expected, got {v!r}")

    # ------------------------------------------------------------------ expressions
    def eval(self, node, env):
        txt = ast.unparse(node) if isinstance(node, (ast.Name, ast.Attribute, ast.Subscript, ast.Call)) else None
        if txt is not None and txt in env:
            if isinstance(env[txt], PoisonV):
                raise Unsupported(env[txt].why)
            if not (txt in self.atoms and not isinstance(env[txt], M)):
                return env[txt]
            # a declared matrix atom bound, in a constructor, to the (scalar-symbol) argument it was given: the atom stands
        if txt is not None and txt in self.atoms:
            name, rank, sym = self.atoms[txt]
            return M.atom(name, rank, sym)
        if isinstance(node, ast.Constant):
            if isinstance(node.value, (int, float)) and not isinstance(node.value, bool):
                return M.scalar(Fraction(repr(node.value)) if isinstance(node.value, float) else node.value)
            if node.value is None:
                return NoneV()
            if isinstance(node.value, bool):
                return M.scalar(int(node.value))
            if isinstance(node.value, str):
                return StrV(node.value)
        if isinstance(node, ast.Name):
            raise Unsupported(f"unbound matrix name `{node.id}`")
        if isinstance(node, ast.UnaryOp) and isinstance(node.op, ast.USub):
            return -self.need_m(self.eval(node.operand, env))
        if isinstance(node, ast.BinOp):
            return self.mbinop(node, env)
        if isinstance(node, ast.Attribute):
            if isinstance(node.value, ast.Name) and node.value.id == self.selfname and self.ci is not None:
                return self.self_attr(node.attr, env)
            base = self.eval(node.value, env)
            if node.attr == "T":
                return self.need_m(base).T()
            raise Unsupported(f"attribute .{node.attr} in matrix context")
        if isinstance(node, ast.Subscript):
            base = self.eval(node.value, env)
            if isinstance(base, (TupleV, ListV)):
                return self.index_value(base, node.slice)
            ix = None
            if isinstance(node.slice, (ast.Name, ast.Attribute, ast.Call)):
                try:
                    ix = self.eval(node.slice, env)
                except Unsupported:
                    ix = None
            return self.mindex(base, node.slice, ix)
        if isinstance(node, ast.Call):
            return self.mcall(node, env)
        if isinstance(node, ast.Tuple):
            return TupleV([self.eval(e, env) for e in node.elts])
        if isinstance(node, ast.List):
            return ListV([self.eval(e, env) for e in node.elts])
        if isinstance(node, ast.ListComp):
            return self.eval_listcomp(node, env)
        raise Unsupported(f"matrix expression {type(node).__name__}: {ast.unparse(node)}")

    def self_attr(self, attr, env):
        key = f"{self.selfname}.{attr}"
        if key in env:
            return env[key]
        if key in self.atoms:
            name, rank, sym = self.atoms[key]
            return M.atom(name, rank, sym)
        return super().self_attr(attr, env)

    def sym(self, name):
        raise Unsupported(f"opaque scalar `{name}` in matrix context")

    def exec_stmt(self, st, env):
        # X[diag-indices] += v / -= v : only the main diagonal changes, X +- Diag(v)
        if isinstance(st, ast.AugAssign) and isinstance(st.target, ast.Subscript) and isinstance(st.op, (ast.Add, ast.Sub)):
            try:
                ix = self.eval(st.target.slice, env)
            except Unsupported:
                ix = None
            if isinstance(ix, DiagIdx):
                cur = self.need_m(self.eval(st.target.value, env))
                v = self.need_m(self.eval(st.value, env))
                if v.rank == 0:
                    d = M.eye().times_scalar(v)
                elif len(v.terms) == 1 and list(v.terms.values()) == [1] and len(next(iter(v.terms))) == 1 \
                        and next(iter(v.terms))[0][0].startswith("diagonal("):
                    name = next(iter(v.terms))[0][0]
                    d = M.atom("diagpart(" + name[len("diagonal("):-1] + ")", 2, True)
                elif v.rank == 1 and len(v.terms) == 1 and list(v.terms.values()) == [1]:
                    d = M.atom(f"diag({ncf.word_str(next(iter(v.terms)))})", 2, True)
                else:
                    raise Unsupported(f"diagonal update with `{ast.unparse(st.value)}`")
                self.assign(st.target.value, cur + d if isinstance(st.op, ast.Add) else cur - d, env)
                return
        return super().exec_stmt(st, env)

    def mindex(self, base, sl, ix=None):
        if isinstance(ix, DiagIdx):
            b = self.need_m(base)
            if b.rank != 2:
                raise Unsupported("diagonal index of a non-matrix")
            return M.atom(f"diagonal({b})", 1)
        base = self.need_m(base)
        t = ast.unparse(sl)
        # x[0] of a length-1 vector / x[0, 0] of a 1x1 matrix: the scalar itself
        if t in ("0", "(0, 0)", "0, 0"):
            if base.rank in (1, 2):
                return ncf.scalarise(base.terms)
            return base
        # v[:, None] / v[None, :] handled in products (outer); standalone keeps the vector
        if t in ("(slice(None, None, None), None)", ":, None", "(:, None)"):
            return M(dict(base.terms), 2) if base.rank == 1 else base
        if t in ("(None, slice(None, None, None))", "None, :", "(None, :)"):
            return M(ncf._row(base.terms), 2) if base.rank == 1 else base
        raise Unsupported(f"index [{t}] in matrix context")

    def mbinop(self, node, env):
        op = node.op
        if isinstance(op, ast.MatMult):
            return self.need_m(self.eval(node.left, env)).matmul(self.need_m(self.eval(node.right, env)))
        if isinstance(op, (ast.Add, ast.Sub)):
            a, b = self.need_m(self.eval(node.left, env)), self.need_m(self.eval(node.right, env))
            return a + b if isinstance(op, ast.Add) else a - b
        if isinstance(op, ast.Mult):
            av, bv = self.eval(node.left, env), self.eval(node.right, env)
            # scalar * array([e_1, .., e_k]) (an array built from a list of scalars): every entry scaled
            for lv_, sv_ in ((av, bv), (bv, av)):
                if isinstance(lv_, ListV) and not isinstance(sv_, (ListV, TupleV)):
                    sc = self.need_m(sv_)
                    if sc.rank == 0:
                        return ListV([self.need_m(x).times_scalar(sc) if self.need_m(x).rank == 0 else self.need_m(x).times_scalar(sc)
                                      for x in lv_.items])
            a, b = self.need_m(av), self.need_m(bv)
            if a.rank == 0 or b.rank == 0:
                return a.times_scalar(b) if b.rank == 0 else b.times_scalar(a)
            # outer product a[:, None] * b[None, :]
            la, lb = ast.unparse(node.left), ast.unparse(node.right)
            if a.rank == 2 and b.rank == 2:
                # outer product of two vectors written with broadcasting: column (..[:, None]) times row (..[None, :])
                if la.endswith("[:, None]") and lb.endswith("[None, :]"):
                    return M(ncf._mul(a.terms, b.terms), 2)
                if la.endswith("[None, :]") and lb.endswith("[:, None]"):
                    return M(ncf._mul(b.terms, a.terms), 2)
            raise Unsupported(f"elementwise product `{ast.unparse(node)}` in matrix context")
        if isinstance(op, ast.Div):
            b = self.need_m(self.eval(node.right, env))
            if b.rank == 0 and set(b.terms) <= {()} and b.terms.get((), 0) != 0:
                return self.need_m(self.eval(node.left, env)).scale(1 / b.terms[()])
            raise Unsupported("division in matrix context")
        if isinstance(op, ast.Pow):
            raise Unsupported(f"power `{ast.unparse(node)}` in matrix context")
        raise Unsupported(f"operator {type(op).__name__} in matrix context")

    def mcall(self, node, env):
        if self.call_atoms is not None:
            r = self.call_atoms(self, node, env)
            if r is not NotImplemented:
                return r
        f = node.func
        q = self.qualified(f)
        short = q.split(".")[-1] if q else (f.id if isinstance(f, ast.Name) else None)
        # log(diagonal(L).prod()) / log(prod(diagonal(L))): algebraically the half log-determinant, numerically not -
        # the product of n diagonal entries leaves the floating-point range for a few hundred points
        if short == "log" and len(node.args) == 1:
            a0 = node.args[0]
            dg = None
            if isinstance(a0, ast.Call) and isinstance(a0.func, ast.Attribute) and a0.func.attr == "prod" and not a0.args:
                dg = a0.func.value
            elif isinstance(a0, ast.Call) and ast.unparse(a0.func) == "prod" and len(a0.args) == 1:
                dg = a0.args[0]
            if isinstance(dg, ast.Call) and ast.unparse(dg.func) in ("diagonal", "diag") and dg.args:
                Lm = self.need_m(self.eval(dg.args[0], env))
                self.problems.append(f"`{ast.unparse(node)}` takes the logarithm of a product of all diagonal entries: the product under- or "
                                     f"overflows for a few hundred data points (the score becomes +-inf); the log-determinant must be "
                                     f"accumulated as a sum of logarithms")
                return M.atom(f"hld({Lm})", 0)
        # X.sum() forms
        if isinstance(f, ast.Attribute) and f.attr == "sum" and not node.args:
            inner = f.value
            if isinstance(inner, ast.BinOp) and isinstance(inner.op, ast.Pow) and ast.unparse(inner.right) == "2":
                v = self.need_m(self.eval(inner.left, env))            # (v**2).sum() = v^T v
                if v.rank == 2:
                    return ncf.scalarise(ncf._mul(v.T().terms, v.terms))
                return v.matmul(v)
            if isinstance(inner, ast.BinOp) and isinstance(inner.op, ast.Mult):
                a = self.need_m(self.eval(inner.left, env))
                b = self.need_m(self.eval(inner.right, env))
                if a.rank == 2 and b.rank == 2:                         # (A * B.T).sum() = tr(A B)
                    return ncf.trace(M(ncf._mul(a.terms, b.T().terms), 2))
                if a.rank == 1 and b.rank == 1:                         # (a * b).sum() = a^T b
                    return a.matmul(b)
                if {a.rank, b.rank} == {1, 2}:
                    # (S * v).sum(axis=1) = S v (one entry per row);  (S * v).sum() = 1^T S v (a single number)
                    S, v = (a, b) if a.rank == 2 else (b, a)
                    axis = next((k.value for k in node.keywords if k.arg == "axis"), None)
                    if axis is not None and ast.unparse(axis) in ("1", "-1"):
                        return S.matmul(v)
                    if axis is None:
                        return M.atom("ones", 1).matmul(S.matmul(v))
                    raise Unsupported(f"reduction `{ast.unparse(node)}` over axis {ast.unparse(axis)}")
            if isinstance(inner, ast.Call) and ast.unparse(inner.func) == "log" and inner.args \
                    and isinstance(inner.args[0], ast.Call) and ast.unparse(inner.args[0].func) in ("diagonal", "diag"):
                Lm = self.need_m(self.eval(inner.args[0].args[0], env))   # log(diagonal(L)).sum()
                return M.atom(f"hld({Lm})", 0)
            raise Unsupported(f"reduction `{ast.unparse(node)}` in matrix context")
        if isinstance(f, ast.Attribute) and f.attr == "dot" and len(node.args) == 1:
            return self.need_m(self.eval(f.value, env)).matmul(self.need_m(self.eval(node.args[0], env)))
        if short == "dot" and len(node.args) == 2:
            return self.need_m(self.eval(node.args[0], env)).matmul(self.need_m(self.eval(node.args[1], env)))
        if short == "outer" and len(node.args) == 2 and not node.keywords:
            a = self.need_m(self.eval(node.args[0], env))
            b = self.need_m(self.eval(node.args[1], env))
            if a.rank == 1 and b.rank == 1:
                return M(ncf._mul(a.terms, ncf._row(b.terms)), 2)        # a b^T
            raise Unsupported(f"`{ast.unparse(node)}` with operands of rank {a.rank}, {b.rank}")
        if short in ("eye", "identity"):
            return M.eye()
        if short in ("diag_indices", "diag_indices_from"):
            return DiagIdx()
        if short == "cholesky" and len(node.args) >= 1:
            # resolved callee decides the triangle: numpy.linalg.cholesky is lower; scipy.linalg.cholesky is
            # upper unless lower=True is passed
            lower_kw = next((k.value for k in node.keywords if k.arg == "lower"), None)
            if q is None or not (q.startswith("numpy.linalg") or q.startswith("scipy.linalg")):
                raise Unsupported(f"cholesky resolves to `{q}`")
            if q.startswith("scipy.linalg") and not (lower_kw is not None and ast.unparse(lower_kw) == "True"):
                self.problems.append(f"`{ast.unparse(node)}` resolves to {q}, which returns the UPPER factor by default, "
                                     f"but the code treats the result as the lower factor L (L L^T = X)")
            X = self.need_m(self.eval(node.args[0], env))
            self.chol["L"] = X
            return M.atom("L", 2)
        if short == "solve_triangular":
            extra = [k.arg for k in node.keywords if k.arg not in ("lower", "check_finite", "overwrite_b")]
            if extra or len(node.args) != 2:
                raise Unsupported(f"triangular solve with arguments {extra or len(node.args)}: `{ast.unparse(node)}`")
            A = node.args[0]
            B = self.need_m(self.eval(node.args[1], env))
            lower = next((k.value for k in node.keywords if k.arg == "lower"), None)
            lower_true = lower is not None and ast.unparse(lower) == "True"
            Am = self.need_m(self.eval(A, env))
            if Am.eq(M.atom("L", 2)):
                if not lower_true:
                    self.problems.append(f"`{ast.unparse(node)}`: the Cholesky factor is lower-triangular but lower=True is not passed")
                inv = M.atom("Linv", 2)
            elif Am.eq(M.atom("L", 2).T()):
                if lower_true:
                    self.problems.append(f"`{ast.unparse(node)}`: L.T is upper-triangular but lower=True is passed")
                inv = M.atom("LinvT", 2)
            else:
                raise Unsupported(f"triangular solve with `{ast.unparse(A)}`")
            return inv.matmul(B) if B.rank > 0 else inv
        if short == "solve" and len(node.args) == 2:
            X = self.need_m(self.eval(node.args[0], env))
            B = self.need_m(self.eval(node.args[1], env))
            kws = {k.arg: k.value for k in node.keywords}
            extra = set(kws) - {"assume_a", "sym_pos", "check_finite", "overwrite_a", "overwrite_b", "lower"}
            if extra or "transposed" in kws:
                raise Unsupported(f"`{ast.unparse(node)[:80]}`: keyword(s) {sorted(extra)} of solve are outside the algebra")
            structured = ("assume_a" in kws and ast.unparse(kws["assume_a"]).strip("'\"") not in ("gen", "general")) or \
                         ("sym_pos" in kws and ast.unparse(kws["sym_pos"]) != "False")
            if structured and not X.T().eq(X):
                # the solver is told the matrix is symmetric / positive definite and reads one triangle only: for a matrix that is
                # not symmetric in normal form the result is the inverse of ANOTHER matrix - a distinct atom, equal to nothing else
                return M.atom(f"inv_assumed_symmetric({X})", 2).matmul(B)
            return M.atom(f"inv({X})", 2).matmul(B)
        if short in ("concatenate", "hstack") and len(node.args) == 1 and isinstance(node.args[0], (ast.List, ast.Tuple)) and not node.keywords:
            # the pieces laid end to end, kept apart (which slice of the result each piece fills is the caller's question)
            tv = TupleV([self.eval(x, env) for x in node.args[0].elts])
            tv.concat = True
            return tv
        if short in ("array", "asarray", "copy", "squeeze"):
            v = self.eval(node.args[0], env)
            if short == "array" and isinstance(v, ListV) and len(v.items) == 1 and isinstance(v.items[0], M) \
                    and v.items[0].rank == 1 and isinstance(node.args[0], ast.Name):
                # array(list of vectors): the stacked matrix whose generic row is that vector
                return M({(("STACK", False),) + ncf.transpose_word(w): c for w, c in v.items[0].terms.items()}, 2)
            return v
        if isinstance(f, ast.Attribute) and f.attr in ("copy", "squeeze") and not node.args:
            return self.eval(f.value, env)
        # X.item(): the single entry of a one-entry array - the scalar X[0] / X[0, 0]
        if isinstance(f, ast.Attribute) and f.attr == "item" and not node.args and not node.keywords:
            b = self.need_m(self.eval(f.value, env))
            return ncf.scalarise(b.terms) if b.rank in (1, 2) else b
        # v.reshape(-1, 1) / v.reshape(1, -1): the column / row view of a vector, as v[:, None] / v[None, :]
        if isinstance(f, ast.Attribute) and f.attr == "reshape" and not node.keywords:
            shp = node.args[0].elts if len(node.args) == 1 and isinstance(node.args[0], (ast.Tuple, ast.List)) else node.args
            st_ = [ast.unparse(x) for x in shp]
            if st_ in (["-1", "1"], ["1", "-1"]):
                b = self.need_m(self.eval(f.value, env))
                if b.rank == 1:
                    return M(dict(b.terms), 2) if st_ == ["-1", "1"] else M(ncf._row(b.terms), 2)
        if short == "diag" and len(node.args) == 1:
            v = self.need_m(self.eval(node.args[0], env))
            if v.rank == 1 and len(v.terms) == 1 and list(v.terms.values()) == [1]:
                name = f"diag({ncf.word_str(next(iter(v.terms)))})"
                return M.atom(name, 2, True)
        if short in ("diagonal", "diag"):
            raise Unsupported(f"`{ast.unparse(node)}` (diagonal extraction) in matrix context")
        if short in ("zeros", "zeros_like", "empty", "empty_like"):
            return M({}, 2)      # (the dtype such a buffer inherits is the dtype-hazard lint's question, not the algebra's)
        # self.method(...) inlining
        if isinstance(f, ast.Attribute) and isinstance(f.value, ast.Name) and f.value.id == self.selfname and self.ci is not None:
            c, fn = self.prog.find_method(self.ci, f.attr)
            if fn is not None:
                return self.inline(c.module, self.ci, fn, node, env)
        raise Unsupported(f"call `{ast.unparse(node)}` in matrix context")

    def binop(self, op, a, b, node=None):
        # AugAssign path
        if isinstance(a, M) and isinstance(b, M):
            if isinstance(op, ast.Add):
                return a + b
            if isinstance(op, ast.Sub):
                return a - b
            if isinstance(op, ast.MatMult):
                return a.matmul(b)
        return super().binop(op, a, b, node)
