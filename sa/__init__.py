"""Static-analysis framework for inference-tools (see /verif/DESIGN.md)."""
