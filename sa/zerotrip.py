"""Zero-trip analysis: what a function does when a loop body never runs.

Definite assignment of locals (a `for` / `while` body may execute zero times, so names bound only
inside it are *possibly undefined* afterwards) and definite non-emptiness of list-valued locals (a
list appended to only inside such a loop may still be empty).  Early returns of the form
`if n < 1: return` / `if n <= 0` / `if n == 0` / `if not n` make `n` known-positive afterwards, and a
loop over `range(n)` with n known-positive runs at least once.
"""
from __future__ import annotations
import ast
import builtins

BUILTINS = set(dir(builtins))


class State:
    def __init__(self, defined, nonempty, positive):
        self.defined, self.nonempty, self.positive = set(defined), set(nonempty), set(positive)

    def copy(self):
        return State(self.defined, self.nonempty, self.positive)

    def meet(self, o):
        return State(self.defined & o.defined, self.nonempty & o.nonempty, self.positive & o.positive)


def analyse(fn, module_names=()):
    """Returns (possibly_undefined reads, possibly-empty concatenations) as lists of (lineno, text)."""
    params = {a.arg for a in fn.args.posonlyargs + fn.args.args + fn.args.kwonlyargs}
    if fn.args.vararg:
        params.add(fn.args.vararg.arg)
    if fn.args.kwarg:
        params.add(fn.args.kwarg.arg)
    local_names = {n.id for n in ast.walk(fn) if isinstance(n, ast.Name) and isinstance(n.ctx, ast.Store)}
    comp_names = set()
    for n in ast.walk(fn):
        if isinstance(n, (ast.ListComp, ast.GeneratorExp, ast.SetComp, ast.DictComp)):
            for g in n.generators:
                comp_names |= {x.id for x in ast.walk(g.target) if isinstance(x, ast.Name)}
    undefined, empties = [], []

    def reads(expr, st, skip=()):
        for n in ast.walk(expr):
            if isinstance(n, ast.Name) and isinstance(n.ctx, ast.Load):
                if n.id in params or n.id in st.defined or n.id in skip:
                    continue
                if n.id in local_names and n.id not in comp_names:
                    undefined.append((n.lineno, n.id))
            if isinstance(n, ast.Call) and isinstance(n.func, ast.Name) and n.func.id in ("concatenate", "vstack", "hstack", "stack") \
                    and n.args and isinstance(n.args[0], ast.Name):
                if n.args[0].id not in st.nonempty:
                    empties.append((n.lineno, f"{n.func.id}({n.args[0].id})"))

    def nonempty_value(v, st):
        if isinstance(v, (ast.List, ast.Tuple)):
            return len(v.elts) > 0
        if isinstance(v, ast.IfExp):
            return nonempty_value(v.body, st) and nonempty_value(v.orelse, st)
        if isinstance(v, ast.Name):
            return v.id in st.nonempty
        return False

    def positive_guard(test):
        """Names that are >= 1 when `test` is False."""
        out = set()
        if isinstance(test, ast.Compare) and len(test.ops) == 1 and isinstance(test.left, ast.Name):
            op, r = test.ops[0], test.comparators[0]
            try:
                v = ast.literal_eval(r)
            except Exception:
                return out
            if (isinstance(op, ast.Lt) and v >= 1) or (isinstance(op, ast.LtE) and v >= 0) or (isinstance(op, ast.Eq) and v == 0):
                # `n == 0` excludes only zero; with range() a negative n also gives zero trips
                if not isinstance(op, ast.Eq):
                    out.add(test.left.id)
        return out

    def block(stmts, st):
        for s in stmts:
            st = stmt(s, st)
            if st is None:
                return None
        return st

    def stmt(s, st):
        if isinstance(s, ast.Assign):
            reads(s.value, st)
            for t in s.targets:
                for n in ast.walk(t):
                    if isinstance(n, ast.Name) and isinstance(n.ctx, ast.Store):
                        st.defined.add(n.id)
                        st.nonempty.discard(n.id)
                        if isinstance(t, ast.Name) and nonempty_value(s.value, st):
                            st.nonempty.add(n.id)
                    elif isinstance(n, ast.Name):
                        reads(n, st)
            return st
        if isinstance(s, ast.AugAssign):
            reads(s.value, st)
            reads(ast.Name(id=s.target.id, ctx=ast.Load(), lineno=s.lineno, col_offset=0), st) if isinstance(s.target, ast.Name) else reads(s.target, st)
            return st
        if isinstance(s, ast.AnnAssign):
            if s.value is not None:
                reads(s.value, st)
                if isinstance(s.target, ast.Name):
                    st.defined.add(s.target.id)
            return st
        if isinstance(s, ast.Expr):
            reads(s.value, st)
            v = s.value
            if isinstance(v, ast.Call) and isinstance(v.func, ast.Attribute) and v.func.attr in ("append", "extend", "insert") \
                    and isinstance(v.func.value, ast.Name) and v.func.attr == "append":
                st.nonempty.add(v.func.value.id)
            return st
        if isinstance(s, ast.Return):
            if s.value is not None:
                reads(s.value, st)
            return None
        if isinstance(s, ast.Raise):
            return None
        if isinstance(s, ast.If):
            reads(s.test, st)
            a = block(s.body, st.copy())
            b = block(s.orelse, st.copy())
            if a is None and b is None:
                return None
            if a is None:
                b.positive |= positive_guard(s.test)
                return b
            if b is None:
                return a
            return a.meet(b)
        if isinstance(s, ast.For):
            reads(s.iter, st)
            at_least_once = False
            it = s.iter
            if isinstance(it, ast.Call) and isinstance(it.func, ast.Name) and it.func.id == "range" and len(it.args) == 1 \
                    and isinstance(it.args[0], ast.Name) and it.args[0].id in st.positive:
                at_least_once = True
            inner = st.copy()
            for n in ast.walk(s.target):
                if isinstance(n, ast.Name):
                    inner.defined.add(n.id)
            res = block(s.body, inner)
            if at_least_once and res is not None:
                st = res
            if s.orelse:
                st = block(s.orelse, st) or st
            return st
        if isinstance(s, ast.While):
            reads(s.test, st)
            infinite = isinstance(s.test, ast.Constant) and s.test.value is True
            res = block(s.body, st.copy())
            if infinite and res is not None:
                st = res
            return st
        if isinstance(s, ast.Try):
            res = block(s.body, st.copy())
            for h in s.handlers:
                block(h.body, st.copy())
            return res if res is not None else st
        if isinstance(s, ast.With):
            return block(s.body, st)
        for child in ast.iter_child_nodes(s):
            if isinstance(child, ast.expr):
                reads(child, st)
        return st

    block(fn.body, State(set(), set(), set()))
    # de-duplicate
    undefined = sorted(set(undefined))
    empties = sorted(set(empties))
    return undefined, empties
