"""Engine B (control side) - syntax-directed path / event enumeration.

A rule supplies a classifier mapping simple statements (and, optionally, whole compound
statements) to events; the enumerator returns every event sequence through the function
for loops unrolled 0..k times, with break / continue / return / raise / for-else honoured.
Paths are sets of tuples, so identical sequences are merged.  Nothing is executed and
branch conditions are not interpreted (every syntactic path is kept: an infeasible path
can only add obligations, so rules built on this are written to hold on all of them).
"""
from __future__ import annotations
import ast

NORMAL, BREAK, CONTINUE, RETURN, RAISE = "normal", "break", "continue", "return", "raise"
MAX_PATHS = 20000


class PathExplosion(Exception):
    pass


class Enumerator:
    def __init__(self, classify, compound=None, inline=None, unroll=1, depth=3):
        self.classify = classify      # simple stmt / expr node -> list of events
        self.compound = compound      # compound stmt -> list of events, or None to descend
        self.inline = inline          # ast.Call -> (FunctionDef) or None
        self.unroll = unroll
        self.depth = depth

    # a "path" is (events tuple, status)
    def block(self, stmts, depth=None):
        depth = self.depth if depth is None else depth
        paths = {((), NORMAL)}
        for st in stmts:
            nxt = set()
            tails = None
            for ev, status in paths:
                if status != NORMAL:
                    nxt.add((ev, status))
                    continue
                if tails is None:
                    tails = self.stmt(st, depth)
                for ev2, st2 in tails:
                    nxt.add((ev + ev2, st2))
            paths = nxt
            if len(paths) > MAX_PATHS:
                raise PathExplosion(f"more than {MAX_PATHS} paths at line {st.lineno}")
        return paths

    def expr_events(self, node, depth):
        """Events of an expression / simple statement, with resolved callees inlined."""
        out = {((), NORMAL)}
        calls = []
        if self.inline is not None and depth > 0:
            for n in _calls_in_order(node):
                fn = self.inline(n)
                if fn is not None:
                    calls.append((n, fn))
        own = tuple(self.classify(node))
        if not calls:
            return {(own, NORMAL)}
        for n, fn in calls:
            sub = self.block(fn.body, depth - 1)
            nxt = set()
            for ev, status in out:
                for ev2, st2 in sub:
                    if st2 == RAISE:
                        nxt.add((ev + ev2, RAISE))
                    else:
                        nxt.add((ev + ev2, NORMAL))
            out = nxt
        return {(ev + own, st) if st == NORMAL else (ev, st) for ev, st in out}

    def stmt(self, st, depth):
        if self.compound is not None and isinstance(st, (ast.For, ast.While, ast.If, ast.Try, ast.With)):
            ev = self.compound(st)
            if ev is not None:
                return {(tuple(ev), NORMAL)}
        if isinstance(st, ast.Return):
            res = self.expr_events(st, depth) if st.value is not None else {((), NORMAL)}
            return {(ev, RETURN if s == NORMAL else s) for ev, s in res}
        if isinstance(st, ast.Raise):
            return {((), RAISE)}
        if isinstance(st, ast.Break):
            return {((), BREAK)}
        if isinstance(st, ast.Continue):
            return {((), CONTINUE)}
        if isinstance(st, ast.If):
            t = self.expr_events(st.test, depth)
            out = set()
            for branch in (st.body, st.orelse):
                sub = self.block(branch, depth)
                for ev, s in t:
                    if s != NORMAL:
                        out.add((ev, s))
                        continue
                    for ev2, s2 in sub:
                        out.add((ev + ev2, s2))
            return out
        if isinstance(st, (ast.For, ast.While)):
            return self.loop(st, depth)
        if isinstance(st, ast.Try):
            out = set(self.block(st.body + st.orelse, depth))
            if st.finalbody:
                fin = self.block(st.finalbody, depth)
                out = {(ev + ev2, s if s != NORMAL else s2) for ev, s in out for ev2, s2 in fin}
            return out
        if isinstance(st, ast.With):
            return self.block(st.body, depth)
        if isinstance(st, (ast.FunctionDef, ast.ClassDef, ast.Pass, ast.Import, ast.ImportFrom, ast.Global)):
            return {((), NORMAL)}
        # a list comprehension used for effect is a loop over its element expression
        if isinstance(st, ast.Expr) and isinstance(st.value, ast.ListComp):
            return self.comp_loop(st.value, depth)
        return self.expr_events(st, depth)

    def comp_loop(self, lc, depth):
        body = self.expr_events(lc.elt, depth)
        return self._iterate(body, set(), {((), NORMAL)}, infinite=False)

    def loop(self, st, depth):
        body = self.block(st.body, depth)
        orelse = self.block(st.orelse, depth) if st.orelse else {((), NORMAL)}
        infinite = isinstance(st, ast.While) and isinstance(st.test, ast.Constant) and st.test.value is True
        head = self.expr_events(st.iter if isinstance(st, ast.For) else st.test, depth)
        res = self._iterate(body, None, orelse, infinite)
        return {(h + ev, s) for h, hs in head for ev, s in res} if head != {((), NORMAL)} else res

    def _iterate(self, body, _unused, orelse, infinite):
        """Compose 0..unroll iterations (1..unroll for `while True`)."""
        out = set()
        # paths that completed k full iterations and are still looping
        live = {()}
        lo = 1 if infinite else 0
        for k in range(0, self.unroll + 1):
            if k >= lo and not infinite:
                # loop ends normally after k iterations -> else clause runs
                for ev in live:
                    for ev2, s2 in orelse:
                        out.add((ev + ev2, s2))
            if k == self.unroll:
                if infinite:
                    # paths still looping after the unroll bound are abandoned (bounded exploration)
                    pass
                break
            nxt = set()
            for ev in live:
                for ev2, s2 in body:
                    if s2 in (NORMAL, CONTINUE):
                        nxt.add(ev + ev2)
                    elif s2 == BREAK:
                        out.add((ev + ev2, NORMAL))
                    else:
                        out.add((ev + ev2, s2))
            live = nxt
            if len(live) + len(out) > MAX_PATHS:
                raise PathExplosion("loop unrolling")
        return out

    def function(self, fn):
        """All paths of a function; fall-through is a return."""
        return {(ev, RETURN if s == NORMAL else s) for ev, s in self.block(fn.body)}


def _calls_in_order(node):
    """Call nodes in (approximate) evaluation order: arguments before the call itself."""
    out = []

    def visit(n):
        for c in ast.iter_child_nodes(n):
            visit(c)
        if isinstance(n, ast.Call):
            out.append(n)
    visit(node)
    return out


def count(events, kind):
    return sum(1 for e in events if e[0] == kind)


def fmt(events):
    return "[" + "; ".join(f"{e[0]}@{e[1]}" + (f"({e[2]})" if len(e) > 2 and e[2] else "") for e in events) + "]"
