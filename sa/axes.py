"""Engine H - axis-order typing.

Every array value gets a tuple of AXIS LABELS ("P" = query points, "D" = dimensions, "N" = data points ...).  The engine follows
the numpy operations the repository's vectorised code uses - indexing with None / slices / integers, iteration, list building and
`array` / `stack`, broadcasting arithmetic, `@`, `.T`, reductions with `axis=`, `reshape`, `einsum`, triangular solves - and
reports the places where labels that do not belong together are combined:

  * a row-major `reshape` whose target, read axis by axis, is not the source's axes in the same order (a merged axis (D, P)
    split again as (P, D) puts every entry into the cell of another (point, dimension) pair - shapes agree, values do not);
  * an `einsum` whose letter stands for two different labels;
  * element-wise arithmetic or a contraction between two different known labels.

It is a type system, not an evaluator: nothing is executed, sizes are never numbers, an operation the table does not know makes
the value UNKNOWN (no verdict for what depends on it).  Labels come from the caller (the roles of the function's inputs).
"""
from __future__ import annotations
import ast

ONE = "1"            # an axis of length one (inserted by None / newaxis, kept by [i:i+1] ...)


class Arr:
    def __init__(self, axes):
        self.axes = tuple(axes)          # each: str label | ONE | None (unknown) | ("merge", (labels...))

    def __repr__(self):
        return "(" + ", ".join(show(a) for a in self.axes) + ")"


class ListOf:
    def __init__(self, label, elem):
        self.label, self.elem = label, elem

    def __repr__(self):
        return f"[{self.elem} for each {show(self.label)}]"


class Tup:
    def __init__(self, items):
        self.items = list(items)

    def __repr__(self):
        return "<" + ", ".join(map(repr, self.items)) + ">"


class Dim:
    """an integer that is the length of an axis"""
    def __init__(self, label):
        self.label = label

    def __repr__(self):
        return f"len[{show(self.label)}]"


UNKNOWN = None


def show(a):
    if a is None:
        return "?"
    if isinstance(a, tuple) and a and a[0] == "merge":
        return "x".join(show(x) for x in a[1])
    return str(a)


def atoms(a):
    """atomic labels of an axis, in row-major order"""
    if isinstance(a, tuple) and a and a[0] == "merge":
        out = []
        for x in a[1]:
            out.extend(atoms(x))
        return out
    return [a]


def merge(labels):
    labels = [l for l in labels if l != ONE]
    if not labels:
        return ONE
    if len(labels) == 1:
        return labels[0]
    flat = []
    for l in labels:
        flat.extend(atoms(l))
    return ("merge", tuple(flat))


def join(a, b):
    """type of a value that may be either: equal types, or a scalar next to an array (broadcast-compatible) - else unknown"""
    if a is UNKNOWN or b is UNKNOWN:
        return UNKNOWN
    if repr(a) == repr(b):
        return a
    if a == "scalar" and isinstance(b, Arr):
        return b
    if b == "scalar" and isinstance(a, Arr):
        return a
    return UNKNOWN


class Typer:
    def __init__(self, env, call_types=None, attr_types=None, selfname="self", methods=None, depth=0):
        self.methods = methods or {}         # name -> FunctionDef of the receiver's own methods (typed through their bodies)
        self.depth = depth
        self.env = dict(env)                 # name / text -> value
        self.call_types = call_types or (lambda typer, node: NotImplemented)
        self.attr_types = attr_types or {}   # "self.x" -> value
        self.selfname = selfname
        self.problems = []                   # (lineno, text, message)
        self.typed = 0

    # ------------------------------------------------------------------ helpers
    def problem(self, node, msg):
        self.problems.append((getattr(node, "lineno", 0), ast.unparse(node)[:100], msg))

    def unify(self, a, b, node, what):
        """label of an axis on which two operands meet"""
        if a == ONE:
            return b
        if b == ONE:
            return a
        if a is None or b is None:
            return a if b is None else b
        if atoms(a) == atoms(b):
            return a
        self.problem(node, f"{what}: an axis labelled {show(a)} meets an axis labelled {show(b)}")
        return None

    def broadcast(self, x, y, node):
        if isinstance(x, Arr) and not x.axes:
            x = "scalar"
        if isinstance(y, Arr) and not y.axes:
            y = "scalar"
        if x == "scalar" and y == "scalar":
            return "scalar"
        if not isinstance(x, Arr) or not isinstance(y, Arr):
            return x if isinstance(x, Arr) and y == "scalar" else y if isinstance(y, Arr) and x == "scalar" else UNKNOWN
        a, b = list(x.axes), list(y.axes)
        n = max(len(a), len(b))
        a = [ONE] * (n - len(a)) + a
        b = [ONE] * (n - len(b)) + b
        return Arr([self.unify(p, q, node, "element-wise operation") for p, q in zip(a, b)])

    # ------------------------------------------------------------------ expressions
    def ev(self, e):
        v = self._ev(e)
        if v is not UNKNOWN:
            self.typed += 1
        return v

    def _ev(self, e):
        t = ast.unparse(e)
        if t in self.env:
            return self.env[t]
        if t in self.attr_types:
            return self.attr_types[t]
        if isinstance(e, ast.Constant):
            return "scalar" if isinstance(e.value, (int, float)) and not isinstance(e.value, bool) else UNKNOWN
        if isinstance(e, ast.Name):
            return UNKNOWN
        if isinstance(e, ast.UnaryOp):
            return self.ev(e.operand)
        if isinstance(e, ast.BinOp):
            if isinstance(e.op, ast.MatMult):
                return self.matmul(self.ev(e.left), self.ev(e.right), e)
            l, r = self.ev(e.left), self.ev(e.right)
            if l == "scalar" and r == "scalar":
                return "scalar"
            if isinstance(l, Dim) or isinstance(r, Dim):
                return "scalar"
            if isinstance(e.op, ast.Pow) and r == "scalar":
                return l
            return self.broadcast(l, r, e)
        if isinstance(e, ast.Attribute):
            base = self.ev(e.value)
            if e.attr == "T" and isinstance(base, Arr):
                return Arr(tuple(reversed(base.axes)))
            if e.attr == "shape" and isinstance(base, Arr):
                return Tup([Dim(a) for a in base.axes])
            if e.attr == "size" and isinstance(base, Arr):
                return Dim(merge(list(base.axes)))
            return UNKNOWN
        if isinstance(e, ast.Subscript):
            return self.index(self.ev(e.value), e.slice, e)
        if isinstance(e, ast.Tuple):
            return Tup([self.ev(x) for x in e.elts])
        if isinstance(e, ast.List):
            items = [self.ev(x) for x in e.elts]
            if items and all(i is not UNKNOWN for i in items):
                j = items[0]
                for i in items[1:]:
                    j = join(j, i)
                if j is not UNKNOWN and (j == "scalar" or isinstance(j, Arr)):
                    return ListOf(None, j)
            return Tup(items)
        if isinstance(e, ast.Starred):
            return self.ev(e.value)
        if isinstance(e, (ast.ListComp, ast.GeneratorExp)):
            return self.comp(e)
        if isinstance(e, ast.IfExp):
            a, b = self.ev(e.body), self.ev(e.orelse)
            return a if repr(a) == repr(b) else UNKNOWN
        if isinstance(e, ast.Call):
            return self.call(e)
        return UNKNOWN

    def index(self, base, sl, node):
        if isinstance(base, Tup):
            if isinstance(sl, ast.Constant) and isinstance(sl.value, int) and -len(base.items) <= sl.value < len(base.items):
                return base.items[sl.value]
            return UNKNOWN
        if isinstance(base, ListOf):
            if isinstance(sl, ast.Slice):
                return base
            return base.elem
        if not isinstance(base, Arr):
            return UNKNOWN
        parts = list(sl.elts) if isinstance(sl, ast.Tuple) else [sl]
        axes = list(base.axes)
        out, k = [], 0
        if any(isinstance(p, ast.Constant) and p.value is Ellipsis for p in parts):
            return UNKNOWN
        for p in parts:
            if isinstance(p, ast.Constant) and p.value is None:
                out.append(ONE)
                continue
            if k >= len(axes):
                return UNKNOWN
            if isinstance(p, ast.Slice):
                full = p.lower is None and p.upper is None and p.step is None
                out.append(axes[k] if full else None)
                k += 1
            else:
                v = self.ev(p)
                if isinstance(v, Arr) and v.axes:           # fancy index: the selected axis takes the index array's axes
                    out.extend(v.axes)
                elif v is UNKNOWN and len(axes) == 1 and not isinstance(p, ast.Constant):
                    out.append(None)             # `theta[slc]`: an integer or a slice object - a vector of unknown length at most
                k += 1                           # an integer (or unknown scalar) drops the axis
        out.extend(axes[k:])
        return Arr(out)

    def comp(self, e):
        if len(e.generators) != 1:
            return UNKNOWN
        g = e.generators[0]
        it = self.ev(g.iter)
        saved = dict(self.env)
        label = UNKNOWN
        try:
            label, elem = self.iterate(it)
            self.bind(g.target, elem)
            v = self.ev(e.elt)
        finally:
            self.env = saved
        return ListOf(label, v)

    def iterate(self, it):
        if isinstance(it, Arr) and it.axes:
            return it.axes[0], Arr(it.axes[1:])
        if isinstance(it, ListOf):
            return it.label, it.elem
        return None, UNKNOWN

    def bind(self, target, v):
        if isinstance(target, ast.Name):
            self.env[target.id] = v
        elif isinstance(target, (ast.Tuple, ast.List)):
            items = v.items if isinstance(v, Tup) and len(v.items) == len(target.elts) else [UNKNOWN] * len(target.elts)
            for t_, x in zip(target.elts, items):
                self.bind(t_, x)
        elif isinstance(target, (ast.Attribute, ast.Subscript)):
            self.env[ast.unparse(target)] = v

    def matmul(self, a, b, node):
        if not isinstance(a, Arr) or not isinstance(b, Arr) or not a.axes or not b.axes:
            return UNKNOWN
        if len(b.axes) == 1:
            self.unify(a.axes[-1], b.axes[0], node, "matrix product")
            return Arr(a.axes[:-1])
        if len(a.axes) == 1:
            self.unify(a.axes[0], b.axes[-2], node, "matrix product")
            return Arr(b.axes[:-2] + b.axes[-1:])
        self.unify(a.axes[-1], b.axes[-2], node, "matrix product")
        la, lb = list(a.axes[:-2]), list(b.axes[:-2])
        n = max(len(la), len(lb))
        la, lb = [ONE] * (n - len(la)) + la, [ONE] * (n - len(lb)) + lb
        lead = [self.unify(p_, q_, node, "matrix product (stacked)") for p_, q_ in zip(la, lb)]
        return Arr(tuple(lead) + (a.axes[-2], b.axes[-1]))

    def dims_of(self, args):
        """target dimensions of a reshape: list of labels / -1 / None"""
        flat = []
        for a in args:
            if isinstance(a, ast.Starred):
                v = self.ev(a.value)
                if isinstance(v, Tup):
                    flat.extend(x.label if isinstance(x, Dim) else None for x in v.items)
                else:
                    return None
                continue
            if isinstance(a, (ast.Tuple, ast.List)):
                sub = self.dims_of(a.elts)
                if sub is None:
                    return None
                flat.extend(sub)
                continue
            if isinstance(a, ast.UnaryOp) and isinstance(a.op, ast.USub) and isinstance(a.operand, ast.Constant) and a.operand.value == 1:
                flat.append(-1)
                continue
            if isinstance(a, ast.Constant) and a.value == 1:
                flat.append(ONE)
                continue
            v = self.ev(a)
            if isinstance(v, Tup):
                flat.extend(x.label if isinstance(x, Dim) else None for x in v.items)
            else:
                flat.append(v.label if isinstance(v, Dim) else None)
        return flat

    def reshape(self, src, dims, node):
        if not isinstance(src, Arr) or dims is None:
            return UNKNOWN
        s_atoms = [x for a in src.axes for x in atoms(a) if x != ONE]
        if any(x is None for x in s_atoms):
            return Arr([d if d not in (-1,) else None for d in dims])
        # expand the target: known dims consume their atoms, the single -1 takes what is left in between
        t_known = [x for d in dims if d not in (-1, None, ONE) for x in atoms(d)]
        if dims.count(-1) + sum(1 for d in dims if d is None) > 1:
            return Arr([d if d != -1 else None for d in dims])
        if sorted(map(str, t_known)) != sorted(map(str, [x for x in s_atoms if x in t_known])) or any(x not in s_atoms for x in t_known):
            # the target names axes the source does not have: sizes may still agree, nothing to say about order
            return Arr([d if d != -1 else None for d in dims])
        rest = list(s_atoms)
        for x in t_known:
            rest.remove(x)
        # sequence of atoms of the target in order, with the wildcard standing for `rest` (in source order)
        t_seq = []
        for d in dims:
            if d == -1 or d is None:
                t_seq.extend(rest)
            elif d != ONE:
                t_seq.extend(atoms(d))
        if t_seq != s_atoms:
            self.problem(node, "reshape re-reads the entries in row-major order: the source's axes are ("
                         + ", ".join(map(show, s_atoms)) + ") but the target reads them as (" + ", ".join(map(show, t_seq))
                         + ") - same sizes, but every entry lands in the cell of another index combination")
        out = []
        for d in dims:
            if d == -1 or d is None:
                out.append(merge(rest) if rest else ONE)
            else:
                out.append(d)
        return Arr(out)

    def call(self, e):
        r = self.call_types(self, e)
        if r is not NotImplemented:
            return r
        f = e.func
        name = f.attr if isinstance(f, ast.Attribute) else f.id if isinstance(f, ast.Name) else None
        kw = {k.arg: k.value for k in e.keywords if k.arg}
        # the receiver's own methods: typed through their bodies
        if isinstance(f, ast.Attribute) and isinstance(f.value, ast.Name) and f.value.id == self.selfname and name in self.methods \
                and self.depth < 3 and not any(isinstance(a, ast.Starred) for a in e.args):
            fn = self.methods[name]
            static = any(ast.unparse(d) == "staticmethod" for d in fn.decorator_list)
            ps = [a.arg for a in (fn.args.args if static else fn.args.args[1:])]
            sub = Typer({}, self.call_types, self.attr_types, "self" if static or not fn.args.args else fn.args.args[0].arg, self.methods,
                        self.depth + 1)
            for p_, a in zip(ps, e.args):
                sub.env[p_] = self.ev(a)
            for k_, v_ in kw.items():
                if k_ in ps:
                    sub.env[k_] = self.ev(v_)
            rets = sub.run(fn.body)
            self.problems.extend(sub.problems)
            self.typed += sub.typed
            kinds = {repr(r) for _, r in rets}
            return rets[0][1] if len(kinds) == 1 else UNKNOWN
        # methods of arrays
        if isinstance(f, ast.Attribute):
            base = self.ev(f.value)
            if isinstance(base, Arr):
                if name == "reshape":
                    return self.reshape(base, self.dims_of(e.args), e)
                if name in ("copy", "astype", "conj", "round", "clip"):
                    return base
                if name == "squeeze" and not e.args and not kw:
                    return Arr([a for a in base.axes if a != ONE])
                if name in ("sum", "mean", "prod", "max", "min", "std", "var", "any", "all"):
                    ax = kw.get("axis", e.args[0] if e.args else None)
                    if ax is None:
                        return "scalar"
                    try:
                        k = ast.literal_eval(ax)
                    except Exception:
                        return UNKNOWN
                    if isinstance(k, int) and -len(base.axes) <= k < len(base.axes):
                        axes = list(base.axes)
                        del axes[k]
                        return Arr(axes)
                    return UNKNOWN
                if name == "dot" and len(e.args) == 1:
                    return self.matmul(base, self.ev(e.args[0]), e)
                if name in ("flatten", "ravel"):
                    return Arr([merge(list(base.axes))])
                if name == "diagonal":
                    return Arr(base.axes[:1]) if len(base.axes) == 2 else UNKNOWN
            if isinstance(base, ListOf) and name == "append":
                return UNKNOWN
        args = [self.ev(a) for a in e.args if not isinstance(a, ast.Starred)]
        if name in ("exp", "log", "sqrt", "abs", "absolute", "square", "negative", "erf", "erfc", "erfcx", "sin", "cos", "tanh", "log1p", "expm1",
                    "copy", "ascontiguousarray", "asarray", "real", "sign", "isfinite") and args:
            a = args[0]
            if isinstance(a, (ListOf, Tup)) and name in ("asarray",):
                return self.stack(a, 0, e)
            return a
        if name == "array" and args:
            a = args[0]
            return self.stack(a, 0, e) if isinstance(a, (ListOf, Tup)) else a
        if name in ("stack",) and args:
            try:
                k = ast.literal_eval(kw.get("axis", e.args[1] if len(e.args) > 1 else ast.Constant(value=0)))
            except Exception:
                return UNKNOWN
            return self.stack(args[0], k, e)
        if name in ("dot", "matmul") and len(args) == 2:
            return self.matmul(args[0], args[1], e)
        if name == "outer" and len(args) == 2 and all(isinstance(a, Arr) and len(a.axes) == 1 for a in args):
            return Arr([args[0].axes[0], args[1].axes[0]])
        if name in ("solve_triangular", "solve", "cho_solve") and len(args) >= 2:
            a, b = args[0], args[1]
            if isinstance(a, Arr) and isinstance(b, Arr) and len(a.axes) == 2 and b.axes:
                self.unify(a.axes[1], b.axes[0], e, "linear solve")
                return Arr((a.axes[1],) + tuple(b.axes[1:]))
            return UNKNOWN
        if name == "diag" and args and isinstance(args[0], Arr):
            a = args[0]
            return Arr([a.axes[0], a.axes[0]]) if len(a.axes) == 1 else Arr(a.axes[:1]) if len(a.axes) == 2 else UNKNOWN
        if name in ("diagonal",) and args and isinstance(args[0], Arr) and len(args[0].axes) == 2:
            return Arr(args[0].axes[:1])
        if name in ("eye", "identity") and e.args:
            d = self.ev(e.args[0])
            return Arr([d.label, d.label]) if isinstance(d, Dim) else Arr([None, None])
        if name in ("zeros", "ones", "empty", "full") and e.args:
            dims = self.dims_of([e.args[0]])
            return Arr(dims) if dims is not None and -1 not in dims else UNKNOWN
        if name in ("zeros_like", "ones_like", "empty_like", "full_like") and args:
            return args[0]
        if name == "reshape" and len(e.args) >= 2:
            return self.reshape(args[0], self.dims_of(e.args[1:]), e)
        if name in ("transpose",) and len(args) == 1 and isinstance(args[0], Arr) and len(e.args) == 1:
            return Arr(tuple(reversed(args[0].axes)))
        if name in ("squeeze",) and args and isinstance(args[0], Arr):
            return Arr([a for a in args[0].axes if a != ONE])
        if name == "sum" and isinstance(f, ast.Name) and args and isinstance(args[0], ListOf):
            return args[0].elem          # builtin sum of a sequence of equally shaped arrays
        if name in ("sum", "mean", "prod") and args and isinstance(args[0], Arr):
            ax = kw.get("axis", e.args[1] if len(e.args) > 1 else None)
            if ax is None:
                return "scalar"
            try:
                k = ast.literal_eval(ax)
                axes = list(args[0].axes)
                del axes[k]
                return Arr(axes)
            except Exception:
                return UNKNOWN
        if name == "einsum" and e.args and isinstance(e.args[0], ast.Constant) and isinstance(e.args[0].value, str):
            return self.einsum(e.args[0].value, [self.ev(a) for a in e.args[1:]], e)
        if name in ("len",) and args and isinstance(args[0], Arr) and args[0].axes:
            return Dim(args[0].axes[0])
        if name in ("float", "int"):
            return "scalar"
        if name in ("zip",):
            its = [self.iterate(a) for a in args]
            labs = [l for l, _ in its if l is not None]
            return ListOf(labs[0] if labs else None, Tup([x for _, x in its]))
        if name == "enumerate" and args:
            l, x = self.iterate(args[0])
            return ListOf(l, Tup(["scalar", x]))
        if name == "range":
            d = self.ev(e.args[-1]) if e.args else UNKNOWN
            return ListOf(d.label if isinstance(d, Dim) else None, "scalar")
        return UNKNOWN

    def stack(self, seq, k, node):
        if isinstance(seq, ListOf) and isinstance(seq.elem, Arr):
            axes = list(seq.elem.axes)
            if k < 0:
                k = len(axes) + 1 + k
            if 0 <= k <= len(axes):
                axes.insert(k, seq.label)
                return Arr(axes)
        if isinstance(seq, ListOf) and seq.elem == "scalar":
            return Arr([seq.label])
        if isinstance(seq, Tup) and seq.items and all(isinstance(x, Arr) for x in seq.items):
            axes = list(seq.items[0].axes)
            axes.insert(k if k >= 0 else len(axes) + 1 + k, None)
            return Arr(axes)
        return UNKNOWN

    def einsum(self, spec, ops, node):
        if "->" not in spec or "." in spec:
            return UNKNOWN
        lhs, out = spec.replace(" ", "").split("->")
        subs = lhs.split(",")
        if len(subs) != len(ops):
            return UNKNOWN
        m = {}
        for s_, o in zip(subs, ops):
            if not isinstance(o, Arr) or len(o.axes) != len(s_):
                return UNKNOWN
            for ch, ax in zip(s_, o.axes):
                if ch in m:
                    m[ch] = self.unify(m[ch], ax, node, f"einsum letter `{ch}`")
                else:
                    m[ch] = ax
        return Arr([m.get(ch) for ch in out])

    # ------------------------------------------------------------------ statements
    def run(self, stmts):
        rets = []
        self._block(stmts, rets)
        return rets

    def _block(self, stmts, rets):
        for st in stmts:
            if isinstance(st, ast.Assign):
                v = self.ev(st.value)
                for t in st.targets:
                    self.bind(t, v)
            elif isinstance(st, ast.AugAssign) and isinstance(st.target, ast.Subscript) and isinstance(st.target.value, ast.Name) \
                    and isinstance(self.env.get(st.target.value.id), ListOf):
                lst = self.env[st.target.value.id]
                nv = self.broadcast(lst.elem, self.ev(st.value), st)
                self.env[st.target.value.id] = ListOf(lst.label, join(lst.elem, nv))
            elif isinstance(st, ast.AugAssign):
                cur = self.ev(st.target)
                v = self.ev(st.value)
                if isinstance(st.op, ast.MatMult):
                    nv = self.matmul(cur, v, st)
                else:
                    nv = self.broadcast(cur, v, st) if isinstance(cur, Arr) or isinstance(v, Arr) else cur
                self.bind(st.target, nv if nv is not UNKNOWN else cur)
            elif isinstance(st, ast.Expr):
                c = st.value
                if isinstance(c, ast.Call) and isinstance(c.func, ast.Attribute) and c.func.attr == "append" and c.args \
                        and isinstance(c.func.value, ast.Name):
                    nm = c.func.value.id
                    elem = self.ev(c.args[0])
                    cur = self.env.get(nm)
                    label = self.env.get("@loop-label")
                    if isinstance(cur, Tup) and not cur.items or cur is None:
                        self.env[nm] = ListOf(label, elem)
                    elif isinstance(cur, ListOf):
                        self.env[nm] = ListOf(cur.label if cur.label is not None else label, join(cur.elem, elem))
                else:
                    self.ev(c)
            elif isinstance(st, ast.Return):
                rets.append((st, self.ev(st.value) if st.value is not None else UNKNOWN))
            elif isinstance(st, ast.For):
                label, elem = self.iterate(self.ev(st.iter))
                self.bind(st.target, elem)
                outer = self.env.get("@loop-label")
                self.env["@loop-label"] = label
                self._block(st.body, rets)
                self.env["@loop-label"] = outer
            elif isinstance(st, ast.If):
                before = dict(self.env)
                self._block(st.body, rets)
                a = self.env
                self.env = dict(before)
                self._block(st.orelse, rets)
                b = self.env
                self.env = {k: (a[k] if k in a and k in b and repr(a[k]) == repr(b[k]) else UNKNOWN) for k in set(a) | set(b)}
            elif isinstance(st, (ast.With, ast.Try)):
                self._block(st.body, rets)
