"""C16 - GP derivative predictions are the derivatives of the GP prediction (tier S + F + M).

Decides: the predicted mean gradient is the kernel term plus the mean function's own spatial
gradient, which is the symbolic derivative of that mean function's value; the kernel's
derivative terms are the derivatives of the kernel; the gradient covariance combines a
rank-2 prior term with the Gram term; the variance derivative has the closed form.
Does not decide: numerical agreement with finite differences.
"""
from __future__ import annotations
import ast
from fractions import Fraction
from ..model import qual
from ..symx import Expander, TupleV, ListV
from ..ncf import M
from .. import ncf, anf
from ..anf import R, Unsupported
from .common import memo_obligations, refresh_obligation, dtype_hazard_obligations, purity_obligations, struct_ob, formula_ob, guard, last_return, U
from .gpm import gp_expander, refs, mob, REL
from ..report import AnalysisError
from ..term import Resolver, pmatch

COV = "inference/gp/covariance.py"
MEAN = "inference/gp/mean.py"
FLOORS = {"returned-as-computed": 2, "state-refreshed": 1, "float-arithmetic": 3, "mean-gradient-depends": 2, "mean-gradient-form": 3, "kernel-derivative-terms": 2,
          "gradient-cov-rank": 1, "variance-derivative-form": 1, "gradient-mean-form": 2, "arguments-not-mutated": 12, "axis-order": 2}


def _roles(fn):
    """Roles from the shape of the return statement: the mean-derivative and (co)variance-derivative results are either lists
    filled by `.append(value)` and returned as `array(list)`, or arrays filled row by row `name[i, :] = value`.
    Returns [(result name, value expression, statement)] for position 0 (mean) and 1 (variance / covariance)."""
    ret = last_return(fn)
    if ret is None or not isinstance(ret.value, ast.Tuple) or len(ret.value.elts) != 2:
        raise AnalysisError(f"anchor vanished: {fn.name} does not return (mean derivative, variance derivative)")
    out = []
    for e in ret.value.elts:
        name = None
        for n in ast.walk(e):
            if isinstance(n, ast.Name) and n.id not in ("array", "sqrt", "abs", "stack", "squeeze"):
                name = n.id
        if name is None:
            raise AnalysisError(f"anchor vanished: result name in the return of {fn.name}")
        vals = []
        for st in ast.walk(fn):
            if isinstance(st, ast.Expr) and isinstance(st.value, ast.Call) and U(st.value.func) == f"{name}.append" and st.value.args:
                vals.append((st.value.args[0], st))
            elif isinstance(st, ast.Assign) and isinstance(st.targets[0], ast.Subscript) and U(st.targets[0].value) == name:
                vals.append((st.value, st))
        if len(vals) != 1:
            raise AnalysisError(f"anchor vanished: single per-point value of `{name}` in {fn.name} ({len(vals)} found)")
        out.append((name, vals[0][0], vals[0][1]))
    return out


SHAPE_ONLY = {"array", "asarray", "stack", "vstack", "squeeze", "copy", "atleast_1d", "atleast_2d", "reshape", "tuple", "list"}


def _returned_as_computed(c, fn):
    """What gradient() / spatial_derivatives() hand back is the per-point values collected, re-shaped at most: a gradient mean, a
    gradient covariance (whose off-diagonal entries are legitimately negative) and a variance derivative (any sign) admit no
    element-wise map - abs, sqrt, clip, maximum - between the formula and the caller."""
    ret = last_return(fn)
    bad = []
    for k, e in enumerate(ret.value.elts if isinstance(ret.value, ast.Tuple) else [ret.value]):
        v = e
        while True:
            if isinstance(v, ast.Name):
                break
            if isinstance(v, ast.Call):
                f = v.func
                nm = f.attr if isinstance(f, ast.Attribute) else f.id if isinstance(f, ast.Name) else None
                if nm in SHAPE_ONLY:
                    v = f.value if isinstance(f, ast.Attribute) and not (isinstance(f.value, ast.Name) and f.value.id in ("np", "numpy")) \
                        else (v.args[0] if v.args else None)
                    if v is None:
                        break
                    continue
                bad.append((k, f"{nm}(..)", U(e)))
                break
            if isinstance(v, ast.Attribute) and v.attr == "T":
                v = v.value
                continue
            if isinstance(v, ast.Subscript):
                v = v.value
                continue
            bad.append((k, type(v).__name__, U(e)))
            break
    # the names handed back are the lists the per-point loop filled: between that loop and the return none of them is re-bound to a
    # function of itself (a clean-up pass over the collected values is the same element-wise map in another place)
    ret_names = {x.id for x in ast.walk(ret.value) if isinstance(x, ast.Name)}
    loops_ = [l_ for l_ in fn.body if isinstance(l_, (ast.For, ast.While))]
    if loops_:
        after = fn.body[fn.body.index(loops_[-1]) + 1:]
        for st_ in after:
            if isinstance(st_, (ast.Assign, ast.AugAssign)):
                tg_ = st_.targets[0] if isinstance(st_, ast.Assign) else st_.target
                b_ = tg_
                while isinstance(b_, ast.Subscript):
                    b_ = b_.value
                if isinstance(b_, ast.Name) and b_.id in ret_names:
                    v_ = st_.value
                    e_ = v_
                    while True:
                        if isinstance(e_, ast.Call) and isinstance(e_.func, ast.Name) and e_.func.id in ("array", "asarray", "stack", "vstack", "squeeze") \
                                and len(e_.args) >= 1:
                            e_ = e_.args[0]
                        elif isinstance(e_, ast.Call) and isinstance(e_.func, ast.Attribute) and e_.func.attr in SHAPE_ONLY:
                            e_ = e_.func.value
                        elif isinstance(e_, ast.Attribute) and e_.attr == "T":
                            e_ = e_.value
                        else:
                            break
                    shape_only = isinstance(st_, ast.Assign) and isinstance(tg_, ast.Name) and isinstance(e_, ast.Name) and e_.id == b_.id
                    if not shape_only:
                        bad.append((sorted(ret_names).index(b_.id), "a statement after the per-point loop", U(st_)))
    msg = ""
    if bad:
        k, what, text = bad[0]
        msg = (f"result {k} is returned as `{text[:120]}`: `{what}` changes the values between the formula and the caller (a gradient "
               f"covariance has negative off-diagonal entries, a variance derivative has either sign)")
    return struct_ob("returned-as-computed", qual(c, fn), not bad, msg, c.module.relpath, ret.lineno,
                     slots={"returned": U(ret.value)[:200]})


def run(prog, tier):
    # axis order of the vectorised forms first: a definite scramble stands even when the per-point rules below cannot read a
    # restructured predictor
    # "at all query points, single and batched": the points the derivative predictors work on are the caller's, normalised by
    # process_points without exchanging their axes - the clause C16 shares with C02, decided there
    from .common import borrow
    qn = [o for o in borrow(prog, tier, "C02", {"query-normalisation"}, "query-points-as-given",
                            "the derivative predictors are evaluated at the caller's points (row = point) only if process_points keeps the axes")
          if any(k_ in o.construct for k_ in ("process_points", ".gradient", ".spatial_derivatives"))]
    from .axrules import gp_axis_obligations
    ax = qn + gp_axis_obligations(prog, "axis-order", ["gradient", "spatial_derivatives"])
    # every kernel / mean evaluation of the two derivative predictors gets its own part of the hyper-parameter vector
    from .gpm import routing_obligations
    ax = ax + [o for o in routing_obligations(prog, "GpRegressor", "hyperparameter-routing", REL)
               if o.construct.endswith(".gradient") or o.construct.endswith(".spatial_derivatives")]
    # a derivative prediction reads the regressor's state and changes none of it: everything a method updates in place is its
    # own scratch, not an object kept on the regressor / handed back by a mean or kernel method from its state or its arguments
    from .common import scratch_owned_obligations
    ax = ax + scratch_owned_obligations(prog, "scratch-owned", [prog.cls("GpRegressor")],
                                        "a derivative prediction changes an array the regressor keeps (hyper-parameters, data, "
                                        "factors): every later prediction is computed from the changed state")
    try:
        obs, floors, meta = _run_main(prog, tier)
    except AnalysisError:
        if any(not o.ok for o in ax):
            return ax, {}, {"explanation": "axes scrambled in / stored state changed by a derivative predictor; remaining rules not evaluated"}
        raise
    return ax + obs, floors, meta


def _run_main(prog, tier):
    obs, info = [], []
    for mname in ("gradient", "spatial_derivatives"):
        c_, fn_ = prog.method("GpRegressor", mname)
        obs.append(_returned_as_computed(c_, fn_))

    # ---------------------------------------------------------------- the mean function enters both predictors
    for mname, var in (("gradient", "mean"), ("spatial_derivatives", "dmu_dx")):
        c, fn = prog.method("GpRegressor", mname)
        roles = _roles(fn)
        rz0 = Resolver(fn, prog, c.module, c)
        mt = U(rz0.term(roles[0][1], roles[0][2]))
        ok = "self.mean.gradient(" in mt or "self.mean(" in mt
        why = f"per-point mean derivative `{mt[:200]}`"
        obs.append(struct_ob("mean-gradient-depends", qual(c, fn), ok,
                             f"the predicted mean gradient must depend on the mean function (a non-constant mean contributes its own "
                             f"spatial gradient): {why}", REL, fn.lineno))

    # ---------------------------------------------------------------- matrix forms of both mean derivatives and the variance derivative
    for mname, var in (("gradient", "mean"), ("spatial_derivatives", "dmu_dx")):
        c, fn = prog.method("GpRegressor", mname)
        ci, ex = gp_expander(prog)
        ex.on_for = lambda node, env: "once"
        base_hook = ex.call_atoms

        qstate = {"q": None}

        def hook(e, node, env, base_hook=base_hook, qstate=qstate):
            f = U(node.func)
            if f == "self.cov.gradient_terms" and node.args:
                qstate["q"] = U(node.args[0])      # the query point of this iteration
            if f == "self.mean.gradient":
                if len(node.args) == 2 and U(node.args[1]) != "self.mean_hyperpars":
                    return M.atom(f"dm<{U(node.args[0])};{U(node.args[1])}>", 1)      # the mean of other hyper-parameters
                qstate.setdefault("mean_args", []).append(U(node.args[0]) if node.args else "?")
                return M.atom("dmq", 1)
            return base_hook(e, node, env)
        ex.call_atoms = hook
        # elementwise products with the weights are opaque Hadamard atoms
        orig = ex.mbinop

        def mbinop(node, env, orig=orig, ex=ex):
            if isinstance(node.op, ast.Mult):
                t = U(node)
                if t == "K_qx * self.alpha":
                    return M.atom("KqxA", 2)              # K_qx o alpha  (1 x n)
                if t in ("A * K_qx", "A * K_qx[None, :]"):
                    return M.atom("AK", 2)                # A o K_qx      (d x n)
            return orig(node, env)
        ex.mbinop = mbinop
        roles = _roles(fn)
        env = {fn.args.args[1].arg: M.atom("points", 2)}
        for nm_, _, st_ in roles:
            if isinstance(st_, ast.Expr):
                env[nm_] = ListV([])
        cov_stmt = roles[1][2] if mname == "gradient" else None
        cov_names = {n_.id for n_ in ast.walk(roles[1][1]) if isinstance(n_, ast.Name)} if mname == "gradient" else set()

        def without_cov(stmts):
            out = []
            for s_ in stmts:
                # the covariance of the gradient is decided separately (rank rule): its statements are left out here
                if s_ is cov_stmt or (mname == "gradient" and isinstance(s_, ast.Assign) and isinstance(s_.targets[0], ast.Name)
                                      and s_.targets[0].id in cov_names and s_.targets[0].id in ("covariance",)):
                    continue
                if mname == "gradient" and isinstance(s_, ast.AugAssign) and isinstance(s_.target, ast.Name) and s_.target.id in cov_names \
                        and s_.target.id in ("covariance",):
                    continue        # an in-place step of the covariance computation: decided by the rank rule, like its first statement
                if isinstance(s_, ast.For):
                    s_ = ast.For(target=s_.target, iter=s_.iter, body=without_cov(s_.body), orelse=s_.orelse, lineno=s_.lineno, col_offset=0)
                out.append(s_)
            return out
        guard(lambda: ex.exec_block(without_cov([s for s in fn.body if not isinstance(s, ast.Return)]), env))
        def role_value(k_):
            if isinstance(roles[k_][2], ast.Expr):
                lst = env.get(roles[k_][0])
                return lst.items[0] if isinstance(lst, ListV) and len(lst.items) == 1 else None
            return env.get(U(roles[k_][2].targets[0]))
        got = role_value(0)
        # numpy broadcasting of the (d,) mean gradient against the (d,1) kernel term is written dm[:, None]
        want = M.atom("At", 2).matmul(M.atom("KqxA", 2).T()) + M(dict(M.atom("dmq", 1).terms), 2)
        o_ = mob("gradient-mean-form", qual(c, fn), got, want, fn.lineno,
                 "mean derivative = A (K_qx o alpha)^T + grad m(q)")
        margs = qstate.get("mean_args", [])
        if o_.ok and not (margs and all(a == qstate["q"] for a in margs)):
            o_ = struct_ob("gradient-mean-form", qual(c, fn), False,
                           f"the mean function's gradient is evaluated at `{margs}` but the kernel terms of the same prediction are "
                           f"evaluated at `{qstate['q']}`: every query point needs the mean gradient at that very point", REL, fn.lineno)
        obs.append(o_)
        if mname == "spatial_derivatives":
            r = refs()
            dv = role_value(1)
            want_v = M.atom("AK", 2).matmul(r["Kinv"]).matmul(M.atom("Kqx", 2).T()).scale(-2)
            obs.append(mob("variance-derivative-form", qual(c, fn), dv, want_v, fn.lineno,
                           "variance derivative = -2 (A o K_qx) K^-1 K_xq"))
        else:
            # covariance = diag(R) - Q^T Q with R the vector of prior gradient variances
            cdef = [roles[1][2]]
            ok, why = False, "no covariance value"
            if len(cdef) == 1:
                v = roles[1][1]
                rz_ = Resolver(fn, prog, c.module, c)
                vt = rz_.term(v, cdef[0])
                why = U(v)
                G = "self.cov.gradient_terms(*_)"
                ok = any(pmatch(vt, pt) is not None for pt in (
                    f"diag(_g[1]) - solve_triangular(self.L, (_g[0] * _k).T, lower=True).T @ solve_triangular(self.L, (_g[0] * _k).T, lower=True)",
                    f"diag(_g[1]) - (solve_triangular(self.L, (_g[0] * _k).T, lower=True).T @ solve_triangular(self.L, (_g[0] * _k).T, lower=True))"))
                ok = ok and len([n_ for n_ in ast.walk(fn) if isinstance(n_, ast.Call) and U(n_.func) == "self.cov.gradient_terms"]) == 1
            obs.append(struct_ob("gradient-cov-rank", qual(c, fn), ok,
                                 f"the gradient covariance must be diag(prior gradient variances) - Q^T Q with Q = L^-1 (A o K_qx)^T; a "
                                 f"length-d vector minus a d x d matrix broadcasts row-wise and is not symmetric: `{why}`",
                                 REL, fn.lineno, tier="H"))

    # ---------------------------------------------------------------- mean functions: gradient is the derivative of the value
    anf.reset()
    for mc in prog.subclasses("MeanFunction"):
        cfn = mc.methods.get("__call__")
        gfn = mc.methods.get("gradient")
        if cfn is None:
            continue
        if gfn is None:
            obs.append(struct_ob("mean-gradient-form", f"{mc.module.name}.{mc.name}.gradient", False,
                                 f"{mc.name} defines no spatial gradient, so derivative predictions cannot include its contribution",
                                 MEAN, mc.node.lineno))
            continue
        ex = Expander(prog, mc.module, mc)
        ex.opaque_self_attrs = {"x_mean", "lin_slc", "quad_slc", "n_data"}
        ex.array_pred = lambda a: a[0] == "sym" and not a[1].startswith("theta[0]")
        ex.n_atom = R.sym("d")
        q = R.sym("q")
        val = guard(lambda: ex.run(cfn.body, {cfn.args.args[1].arg: q, cfn.args.args[2].arg: R.sym("theta")}))
        ex2 = Expander(prog, mc.module, mc)
        ex2.opaque_self_attrs = set(ex.opaque_self_attrs)
        grad = guard(lambda: ex2.run(gfn.body, {gfn.args.args[1].arg: q, gfn.args.args[2].arg: R.sym("theta")}))
        want = anf.diff(val, ("sym", "q"), pointwise_sum=True)
        # `+ zeros(q.size)` only fixes the shape
        obs.append(formula_ob("mean-gradient-form", qual(mc, gfn), grad, want, MEAN, gfn.lineno,
                              what=f"spatial gradient of {mc.name} = d(value)/d(q) component-wise"))

    # ---------------------------------------------------------------- kernel derivative terms
    anf.reset()
    for kc in prog.subclasses("CovarianceFunction"):
        gt = kc.methods.get("gradient_terms")
        if gt is None:
            continue
        call = kc.methods.get("__call__")
        ex = Expander(prog, kc.module, kc)
        ex.scalar_names = {"theta[0]", "theta[1:]", "theta[2:]", "theta[1]"}
        ex.array_pred = lambda a: a[0] == "sym" and a[1] not in ("theta[0]",)
        ex.n_atom = R.sym("d")
        theta = R.sym("theta")
        K = guard(lambda: ex.run(call.body, {call.args.args[1].arg: R.sym("U"), call.args.args[2].arg: R.sym("V"),
                                             call.args.args[3].arg: theta}))
        ua = [a for a in K.all_atoms() if a[0] == "sym" and a[1].startswith("U")]
        va = [a for a in K.all_atoms() if a[0] == "sym" and a[1].startswith("V")]
        if len(ua) != 1 or len(va) != 1:
            raise AnalysisError(f"{kc.name}.__call__: cannot identify the two point-set atoms ({ua}, {va})")
        UA, VA = ua[0], va[0]
        dlogk = anf.diff(anf.log_(K), UA, pointwise_sum=True)
        d2 = anf.diff(anf.diff(K, UA, pointwise_sum=True), VA, pointwise_sum=True)
        Qs, Xs = R.sym("Q"), R.sym("X")
        try:
            wantA = anf.subst(dlogk, {UA: Qs, VA: Xs})
            wantR = anf.subst(d2, {VA: R.atom(UA)})
        except Unsupported as e:
            # the kernel (or its second mixed derivative) is singular where the two points coincide: no finite prior gradient
            # covariance exists, whatever gradient_terms returns
            obs.append(struct_ob("kernel-derivative-terms", qual(kc, gt) + "[R]", False,
                                 f"the kernel `{str(K)[:160]}` has no finite mixed second derivative at coincident points ({e})", COV, gt.lineno, tier="F"))
            continue
        ex2 = Expander(prog, kc.module, kc)
        ex2.scalar_names = {"theta[0]", "theta[1:]", "theta[2:]", "theta[1]", "Q", "X"}
        res = guard(lambda: ex2.run(gt.body, {gt.args.args[1].arg: Qs, gt.args.args[2].arg: Xs, gt.args.args[3].arg: theta}))
        if not (isinstance(res, TupleV) and len(res.items) == 2):
            raise AnalysisError(f"{kc.name}.gradient_terms does not return two values")
        obs.append(formula_ob("kernel-derivative-terms", qual(kc, gt) + "[A]", res.items[0], wantA, COV, gt.lineno,
                              what="A = d log k(q, x) / d q (per dimension)"))
        obs.append(formula_ob("kernel-derivative-terms", qual(kc, gt) + "[R]", res.items[1], wantR, COV, gt.lineno,
                              what="R = d^2 k(q, q') / dq dq' at q = q' (per dimension)"))
        ret = last_return(gt)
        # as a resolved term: the transpose may be applied where the value is built, or at the return
        rt_ = Resolver(gt, prog, kc.module, kc).return_terms()
        t0_ = rt_[0].elts[0] if len(rt_) == 1 and isinstance(rt_[0], ast.Tuple) and rt_[0].elts else None
        okT = t0_ is not None and ((isinstance(t0_, ast.Attribute) and t0_.attr == "T") or
                                   (isinstance(t0_, ast.Call) and U(t0_.func).split(".")[-1] == "transpose"))
        if not okT:
            obs.append(struct_ob("kernel-derivative-terms", qual(kc, gt) + "[layout]", False,
                                 "the first returned term must be transposed to (dimensions x points), the layout the regressor multiplies with",
                                 COV, gt.lineno))

    # derivative helpers of every mean / kernel leave their arguments (query point, hyper-parameters) untouched
    hier = []
    for b in ("CovarianceFunction", "MeanFunction"):
        hier += [prog.cls(b)] + prog.subclasses(b)
    obs.extend(purity_obligations(prog, "arguments-not-mutated", hier, methods=("gradient", "gradient_terms", "__call__")))
    obs.extend(purity_obligations(prog, "arguments-not-mutated", [prog.cls("GpRegressor")], methods=("gradient", "spatial_derivatives")))

    obs.extend(dtype_hazard_obligations(prog, "float-arithmetic", ['inference/gp/regression.py', 'inference/gp/mean.py', 'inference/gp/covariance.py']))
    from .common import call_order_obligations
    obs.extend(call_order_obligations(prog, "arguments-in-order", ['inference/gp/regression.py', 'inference/gp/mean.py', 'inference/gp/covariance.py']))
    from .common import identity_memo_obligations
    obs.extend(identity_memo_obligations(prog, "result-keyed-on-values", ['inference/gp/regression.py', 'inference/gp/mean.py', 'inference/gp/covariance.py']))

    obs.append(refresh_obligation(prog, "state-refreshed", "GpRegressor", "set_hyperparameters"))

    obs.extend(memo_obligations(prog, "cache-key", [c for b in ("CovarianceFunction", "MeanFunction") for c in [prog.cls(b)] + prog.subclasses(b)] + [prog.cls("GpRegressor")]))

    meta = {
        "explanation": "Must-depend rule (transitive def-use) for the mean function's contribution; matrix normal form of both mean "
                       "derivatives and of the variance derivative with Hadamard products as opaque atoms; the mean functions' "
                       "gradient methods are compared with the symbolic derivative of their own __call__; the kernel's "
                       "gradient_terms are compared with d log k / dq and d^2 k / dq dq'|q=q' obtained by differentiating the "
                       "kernel's own __call__ (index-generic, every dimension at once); the gradient covariance must be "
                       "diag(R) - Q^T Q.",
        "assumptions": ["numpy broadcasting / linear algebra semantics"],
        "info": info,
    }
    return obs, FLOORS, meta
