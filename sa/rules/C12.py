"""C12 - GaussianKDE is a faithful, normalised Gaussian kernel-density estimate (tier F + U + S).

Decides: kernel, normaliser and CDF term are the Gaussian ones for bandwidth h; pdf and cdf use
the same region / slice tables built from the same cut-off; the truncation the constants imply
is bounded in closed form; every formula is dimensionally homogeneous and shift-covariant for
all three bandwidth modes (units typing).
Does not decide: monotonicity / normalisation numerically; the tree's integer look-up table.
"""
from __future__ import annotations
import ast
import math
from fractions import Fraction
from ..model import qual
from ..symx import Expander
from ..anf import R, Unsupported
from .. import anf, units
from ..units import Lin, Log, Tup, TOP, BOOL, num
from .common import struct_ob, formula_ob, guard, last_return, U
from ..report import AnalysisError, Ob

REL = "inference/pdf/kde.py"
FLOORS = {"kernel-form": 2, "region-tables": 3, "truncation-bound": 1, "units": 3, "units-result-types": 3}

EXPECTED = {"__call__": "Lin(-1,0)", "cdf": "Lin(0,0)", "attr:h": "Lin(1,0)", "attr:mode": "Lin(1,1)"}


def units_obligations(prog, rel, cname, configs, public, expected, rule_prefix="units"):
    """Run the units engine for each constructor configuration; one obligation per configuration for
    'no typing violation', one for 'public results have the covariant types'."""
    out = []
    for label, ctor in configs:
        anf.reset()
        u, it, obj, res = units.analyse_estimator(prog, rel, cname, ctor, public)
        ci = prog.cls(cname)
        msg = ""
        if u.violations:
            v = u.violations[0]
            msg = (f"{len(u.violations)} typing violation(s); first: line {v.line} `{v.text}`: {v.detail}")
        out.append(Ob(rule_prefix, f"{ci.module.name}.{cname}[{label}]", not u.violations, msg=msg, file=rel,
                      line=u.violations[0].line if u.violations else ci.node.lineno, tier="U",
                      detail=";".join(sorted({f"{v.kind}:{v.text}" for v in u.violations}))[:300],
                      slots={"expressions_typed": u.stats["expressions"], "calls_typed": u.stats["calls"],
                             "violations": [(v.kind, v.line, v.text) for v in u.violations][:6]}))
        bad = []
        for k, want in expected.items():
            got = res.get(k)
            if got is None or got is TOP:
                continue
            if repr(got).rstrip("c") != want and not _tuple_match(got, want):
                bad.append(f"{k}: inferred {got!r}, covariant type is {want}")
        # markers W / NL must not reach a public result
        for k, got in res.items():
            if "W" in repr(got).replace("Top", "") or "NL" in repr(got):
                bad.append(f"{k}: result of type {got!r} is not affine in a data shift")
        out.append(Ob(rule_prefix + "-result-types", f"{ci.module.name}.{cname}[{label}]", not bad, msg="; ".join(bad), file=rel,
                      line=ci.node.lineno, tier="U", slots={"results": {k: repr(v) for k, v in res.items()}}))
    return out


def _tuple_match(got, want):
    return repr(got).replace("c)", ")").replace("c,", ",") == want


def run(prog, tier):
    obs = []
    ci = prog.cls("GaussianKDE")
    init = ci.methods["__init__"]

    # ---------------------------------------------------------------- kernel-form
    anf.reset()
    for mname, what in (("__call__", "pdf"), ("cdf", "cdf")):
        fn = ci.methods[mname]
        ex = Expander(prog, ci.module, ci)
        ex.opaque_self_attrs = {"h", "sample", "slices", "cdf_offsets", "tree"}
        ex.ctor_methods = ("__init__",)
        ex.on_for = lambda node, env: "once"
        ex.on_if = lambda node, env: "skip"
        ex.array_pred = lambda a: a[0] == "sym" and a[1].startswith("self.sample")
        ex.n_atom = R.sym("n_kept")
        env = {fn.args.args[1].arg: R.sym("x")}
        body = [s for s in fn.body if not isinstance(s, ast.Return)]
        guard(lambda: ex.exec_block(body, env))
        loop = [l for l in fn.body if isinstance(l, ast.For)]
        if len(loop) != 1:
            raise AnalysisError(f"anchor vanished: region loop in GaussianKDE.{mname}")
        h = R.sym("self.h")
        N = R.sym("size(self.sample)")
        xs = [a for a in (env.get("dx") or R.const(0)).atoms() if a[0] == "sym"]
        dx = env.get("dx")
        if dx is None or len(xs) != 2:
            raise AnalysisError(f"anchor vanished: dx = x - sample in GaussianKDE.{mname}")
        is_arr = lambda a: a[0] == "sym" and a[1].startswith("self.sample")
        if what == "pdf":
            got = env.get("pdf[g]")
            norm = guard(lambda: ex.self_attr("norm", {}))
            # len(self.sample) and self.sample.size name the same count
            norm = anf.subst(norm, {a: N for a in norm.all_atoms() if a[0] == "sym" and a[1].startswith("size(")})
            got = got * norm if isinstance(got, R) else None
            want = anf.sum_(anf.exp_(-(dx * dx) / (2 * h * h)) / (N * h * anf.sqrt_(2 * anf.PI)), is_arr, R.sym("n_kept"), "ax1")
            aug = [s for s in fn.body if isinstance(s, ast.AugAssign) and U(s) == "pdf *= self.norm"]
            o = formula_ob("kernel-form", qual(ci, fn), got, want, REL, fn.lineno,
                           what="density = sum over kept samples of exp(-(x-s)^2 / 2h^2) / (N h sqrt(2 pi))")
            if o.ok and len(aug) != 1:
                o = struct_ob("kernel-form", qual(ci, fn), False, "the kernel sums are not multiplied by self.norm exactly once", REL, fn.lineno)
            obs.append(o)
        else:
            got = env.get("cdf[g]")
            off = R.sym("self.cdf_offsets")          # indexed by the region of the query point (loop index erased)
            want = anf.sum_((1 + anf.erf_(dx / (anf.sqrt_(R.const(2)) * h))) / (2 * N), is_arr, R.sym("n_kept"), "ax1") + off
            obs.append(formula_ob("kernel-form", qual(ci, fn), got, want, REL, fn.lineno,
                                  what="cdf = sum over kept samples of (1 + erf((x-s)/(sqrt2 h))) / 2N + (samples dropped below)/N"))

    # ---------------------------------------------------------------- region tables
    txt = U(init)
    c1 = ("lwr_inds = searchsorted(self.sample, mids - self.cutoff)" in txt
          and "upr_inds = searchsorted(self.sample, mids + self.cutoff)" in txt
          and "self.slices = [slice(l, u) for l, u in zip(lwr_inds, upr_inds)]" in txt
          and "self.cdf_offsets = lwr_inds / self.sample.size" in txt)
    obs.append(struct_ob("region-tables", qual(ci, init) + "[slices]", c1,
                         "slices must run from searchsorted(sample, mid - cutoff) to searchsorted(sample, mid + cutoff) and the cdf "
                         "offsets must be the same lower indices divided by the sample size", REL, init.lineno))
    c2 = ("mids = linspace(self.sample[0], self.sample[-1], 2 ** n + 1)" in txt and "mids = 0.5 * (mids[1:] + mids[:-1])" in txt
          and "self.tree = BinaryTree(n, (self.sample[0], self.sample[-1]))" in txt)
    bt = prog.cls("BinaryTree")
    btxt = U(bt.methods["__init__"])
    c2 = c2 and "self.edges = linspace(limits[0], limits[1], 2 ** self.n + 1)" in btxt and "self.n = layers" in btxt
    obs.append(struct_ob("region-tables", qual(ci, init) + "[mids]", c2,
                         "region mid-points must be the mid-points of the very edges the tree uses (same end points, 2**n + 1 edges)",
                         REL, init.lineno))
    both = []
    for mname in ("__call__", "cdf"):
        t = U(ci.methods[mname])
        both.append("regions, index_groups = self.tree.region_groups(x)" in t and "self.sample[None, self.slices[r]]" in t
                    and "for r, g in zip(regions, index_groups)" in t and "x[g, None]" in t)
    obs.append(struct_ob("region-tables", f"{ci.module.name}.GaussianKDE[pdf/cdf siblings]", all(both),
                         "pdf and cdf must group the query points with the same tree look-up and use the same slice table", REL,
                         ci.node.lineno))

    # ---------------------------------------------------------------- truncation bound
    anf.reset()
    ex = Expander(prog, ci.module, ci)
    ex.opaque_self_attrs = {"h", "sample"}
    src = {U(s.targets[0]): s.value for s in ast.walk(init) if isinstance(s, ast.Assign) and len(s.targets) == 1}
    ok, why = False, ""
    try:
        cutoff = ex.eval(src["self.cutoff"], {})
        c = anf.proportional(cutoff, R.sym("self.h"))
        nval = ex.eval(src["n"], {})
        rng = R.sym("self.sample[-1]") - R.sym("self.sample[0]")
        base = anf.fn_("int", anf.log_(rng.div(R.sym("self.h"))).div(anf.log_(R.const(2))))
        k0 = nval - base
        if c is not None and k0.is_const() and k0.const_value() >= 0:
            k0v = k0.const_value()
            bound = math.exp(-0.5 * (float(c) - 2.0 ** (-float(k0v))) ** 2)
            ok = bound <= 1e-2 and c > 0
            why = (f"cutoff = {c} h; n = int(log2(range/h)) + {k0v}, so a region is narrower than 2^(1-{k0v}) h and every dropped kernel is farther "
                   f"than ({c} - 2^-{k0v}) h from the query point: relative weight <= exp(-({c} - 2^-{k0v})^2 / 2) = {bound:.3g} (required <= 1e-2)")
        else:
            why = f"cutoff/h = {c}; n - int(log2(range/h)) = {k0}"
    except (KeyError, Unsupported) as e:
        why = f"cannot extract the constants: {e}"
    obs.append(struct_ob("truncation-bound", qual(ci, init), ok,
                         "the truncation implied by the cut-off and the number of regions must be explicitly bounded: " + why,
                         REL, init.lineno, tier="F", slots={"derivation": why}))

    # ---------------------------------------------------------------- units for the three bandwidth modes
    S = Lin(1, 1)
    configs = [("rule-of-thumb bandwidth", {"args": [S], "kws": {}}),
               ("cross-validated bandwidth", {"args": [S], "kws": {"cross_validation": BOOL}}),
               ("user bandwidth", {"args": [S], "kws": {"bandwidth": Lin(1, 0)}})]
    public = {"__call__": [S], "cdf": [S], "__attr__": ["h", "mode"]}
    obs.extend(units_obligations(prog, REL, "GaussianKDE", configs, public, EXPECTED))

    meta = {
        "explanation": "Normal-form equality of the pdf / cdf summands with the Gaussian kernel and its integral for bandwidth h "
                       "(self.norm, self.q inlined); structural agreement of the slice / offset / mid-point tables used by both "
                       "evaluators; a closed-form truncation bound evaluated from the extracted literals (constant folding, not "
                       "execution); units-of-measure / shift typing of the whole class for the three bandwidth modes: the density has "
                       "type X^-1, the cdf is a pure number, bandwidths are X^1 and shift-free, locations move with the data.",
        "assumptions": ["numpy searchsorted / linspace semantics; scipy erf"],
    }
    return obs, FLOORS, meta
