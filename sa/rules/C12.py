"""C12 - GaussianKDE is a faithful, normalised Gaussian kernel-density estimate (tier F + U + S).

Decides: kernel, normaliser and CDF term are the Gaussian ones for bandwidth h; pdf and cdf use
the same region / slice tables built from the same cut-off; the truncation the constants imply
is bounded in closed form; every formula is dimensionally homogeneous and shift-covariant for
all three bandwidth modes (units typing).
Does not decide: monotonicity / normalisation numerically; the tree's integer look-up table.
"""
from __future__ import annotations
import ast
import copy
import math
from fractions import Fraction
from ..model import qual
from ..symx import Expander
from ..anf import R, Unsupported
from .. import anf, units
from ..units import Lin, Log, Tup, TOP, BOOL, num
from .common import stored_state_obligations, memo_obligations, dtype_hazard_obligations, struct_ob, formula_ob, guard, last_return, U
from ..report import AnalysisError, Ob
from ..term import Resolver, pmatch, find_all, abstract, anf_of

REL = "inference/pdf/kde.py"
FLOORS = {"order-restored": 2, "sample-stays-sorted": 8, "every-group-stored": 2, "float-arithmetic": 1, "region-provenance": 2, "kernel-form": 2, "region-tables": 3, "truncation-bound": 1, "units": 3, "units-result-types": 3, "region-lookup": 2, "table-domain": 1}

EXPECTED = {"__call__": "Lin(-1,0)", "cdf": "Lin(0,0)", "attr:h": "Lin(1,0)", "attr:mode": "Lin(1,1)"}


def units_obligations(prog, rel, cname, configs, public, expected, rule_prefix="units"):
    """Run the units engine for each constructor configuration; one obligation per configuration for
    'no typing violation', one for 'public results have the covariant types'."""
    out = []
    for label, ctor in configs:
        anf.reset()
        u, it, obj, res = units.analyse_estimator(prog, rel, cname, ctor, public)
        ci = prog.cls(cname)
        msg = ""
        if u.violations:
            v = u.violations[0]
            msg = (f"{len(u.violations)} typing violation(s); first: line {v.line} `{v.text}`: {v.detail}")
        out.append(Ob(rule_prefix, f"{ci.module.name}.{cname}[{label}]", not u.violations, msg=msg, file=rel,
                      line=u.violations[0].line if u.violations else ci.node.lineno, tier="U",
                      detail=";".join(sorted({f"{v.kind}:{v.text}" for v in u.violations}))[:300],
                      slots={"expressions_typed": u.stats["expressions"], "calls_typed": u.stats["calls"],
                             "violations": [(v.kind, v.line, v.text) for v in u.violations][:6]}))
        bad = []
        for k, want in expected.items():
            got = res.get(k)
            if got is None or got is TOP:
                continue
            if repr(got).rstrip("c") != want and not _tuple_match(got, want):
                bad.append(f"{k}: inferred {got!r}, covariant type is {want}")
        # markers W / NL must not reach a public result
        for k, got in res.items():
            if "W" in repr(got).replace("Top", "") or "NL" in repr(got):
                bad.append(f"{k}: result of type {got!r} is not affine in a data shift")
        out.append(Ob(rule_prefix + "-result-types", f"{ci.module.name}.{cname}[{label}]", not bad, msg="; ".join(bad), file=rel,
                      line=ci.node.lineno, tier="U", slots={"results": {k: repr(v) for k, v in res.items()}}))
    return out


def _tuple_match(got, want):
    return repr(got).replace("c)", ")").replace("c,", ",") == want


def _perm_names(fn):
    """Locals bound to an argsort (a sorting permutation)."""
    out = set()
    for st in ast.walk(fn):
        if isinstance(st, ast.Assign) and len(st.targets) == 1 and isinstance(st.targets[0], ast.Name) and isinstance(st.value, ast.Call):
            f = st.value.func
            if (isinstance(f, ast.Name) and f.id == "argsort") or (isinstance(f, ast.Attribute) and f.attr == "argsort"):
                out.add(st.targets[0].id)
    return out


def _post_factor(prog, ci, fn, loop, res):
    """Value (elementwise, as a function of RES = the array filled by the region loop) of what the function returns; indexing by a
    sorting permutation and storing through one are value-preserving re-orderings and are looked through."""
    perms = _perm_names(fn)
    after = fn.body[fn.body.index(loop) + 1:]

    class Look(ast.NodeTransformer):
        def visit_Subscript(self, n):
            self.generic_visit(n)
            if isinstance(n.slice, ast.Name) and n.slice.id in perms and isinstance(n.ctx, ast.Load):
                return n.value
            if isinstance(n.slice, ast.Call) and U(n.slice.func).split(".")[-1] == "argsort":
                return n.value
            return n
    stmts = []
    for st in after:
        st = copy.deepcopy(st)
        if isinstance(st, ast.Assign) and len(st.targets) == 1 and isinstance(st.targets[0], ast.Subscript) \
                and isinstance(st.targets[0].slice, ast.Name) and st.targets[0].slice.id in perms and isinstance(st.targets[0].value, ast.Name):
            st = ast.copy_location(ast.Assign(targets=[ast.Name(id=st.targets[0].value.id, ctx=ast.Store())], value=st.value), st)
        # any other store INTO the result (a mask, an index set, a slice) changes the value of some entries: not a factor
        tg_ = st.targets if isinstance(st, ast.Assign) else [st.target] if isinstance(st, ast.AugAssign) else []
        if any(isinstance(t_, ast.Subscript) and isinstance(t_.value, ast.Name) and t_.value.id == res for t_ in tg_):
            return None
        stmts.append(ast.fix_missing_locations(Look().visit(st)))
    ex = Expander(prog, ci.module, ci)
    ex.opaque_self_attrs = {"norm"}
    ex.on_if = lambda node, env: "skip"
    env = {res: R.sym("RES")}
    try:
        for st in stmts:
            if isinstance(st, ast.Return):
                v = st.value
                while isinstance(v, ast.IfExp):
                    v = v.body
                # `values[0]` (the single-point form of the result) is the same value, element-wise
                while isinstance(v, ast.Subscript) and isinstance(v.slice, ast.Constant) and v.slice.value == 0:
                    v = v.value
                return ex.need_r(ex.eval(v, env))
            ex.exec_stmt(st, env)
    except Unsupported:
        return None
    return None


def _order_restored(prog, ci, fn):
    """If the query points are sorted first (x = x[order]), the values must be handed back in the caller's order: stored through
    the same permutation (`out[order] = values`) or indexed by its inverse (`values[argsort(order)]`).  Indexing the values by the
    sorting permutation itself applies it a second time."""
    xp = fn.args.args[1].arg
    perms = _perm_names(fn)
    used = [p_ for p_ in perms if any(isinstance(st, ast.Assign) and isinstance(st.targets[0], ast.Name) and st.targets[0].id == xp
                                      and isinstance(st.value, ast.Subscript) and U(st.value.slice) == p_ for st in ast.walk(fn))]
    if not used:
        return struct_ob("order-restored", qual(ci, fn), True, "", REL, fn.lineno, slots={"sorted_first": False})
    p_ = used[0]
    stores = [st for st in ast.walk(fn) if isinstance(st, ast.Assign) and isinstance(st.targets[0], ast.Subscript)
              and U(st.targets[0].slice) == p_]
    inv = [n for n in ast.walk(fn) if isinstance(n, ast.Subscript) and isinstance(n.ctx, ast.Load)
           and U(n.slice) in (f"argsort({p_})", f"{p_}.argsort()")]
    again = [n for n in ast.walk(fn) if isinstance(n, ast.Subscript) and isinstance(n.ctx, ast.Load) and U(n.slice) == p_
             and U(n.value) != xp]
    ok = bool(stores or inv) and not again
    msg = ""
    if again:
        msg = (f"the query points are sorted with `{p_}` and the values are then read back as `{U(again[0])}`: that applies the sorting "
               f"permutation a second time instead of its inverse, so every value is returned against another point (except for "
               f"already sorted or exactly reversed input)")
    elif not ok:
        msg = f"the query points are sorted with `{p_}` but the values are never put back in the caller's order"
    return struct_ob("order-restored", qual(ci, fn), ok, msg, REL, fn.lineno, slots={"sorted_first": True, "permutation": p_})


EMPTY = ("_a.start == _a.stop", "_a.stop == _a.start", "_a.stop <= _a.start", "_a.start >= _a.stop", "_a.stop - _a.start == 0",
         "_a.stop - _a.start <= 0", "_a.stop - _a.start < 1", "not _a.start < _a.stop", "not _a.stop > _a.start",
         "not _a.start != _a.stop")
NONEMPTY = ("_a.start != _a.stop", "_a.stop != _a.start", "_a.start < _a.stop", "_a.stop > _a.start", "_a.stop - _a.start > 0",
            "_a.stop - _a.start >= 1", "_a.stop - _a.start != 0", "not _a.start == _a.stop", "not _a.stop == _a.start")


def _every_group_stored(prog, ci, fn):
    """The region loop stores one value per group of query points into a zero-filled result.  An iteration that skips its store
    leaves the fill value, which is only right if the value the store would have written is the fill value under the skip
    condition: with no kept sample every reduction over the kept samples is 0, and whatever else the summand adds (the cdf's
    offset of samples dropped below the region) must still be written."""
    loops = [l for l in fn.body if isinstance(l, ast.For)]
    if len(loops) != 1:
        raise AnalysisError(f"anchor vanished: region loop in GaussianKDE.{fn.name}")
    loop = loops[0]
    rz = Resolver(fn, prog, ci.module, ci)
    stores = [s_ for s_ in ast.walk(loop) if isinstance(s_, (ast.Assign, ast.AugAssign))
              and isinstance((s_.targets[0] if isinstance(s_, ast.Assign) else s_.target), ast.Subscript)]
    if len(stores) != 1:
        raise AnalysisError(f"anchor vanished: per-group store in GaussianKDE.{fn.name} ({len(stores)} stores)")
    store = stores[0]
    # skip conditions: (test, skip-when-true) on the way to the store
    skips = []

    def find(body, conds):
        for st in body:
            if st is store:
                return conds, True
            if isinstance(st, ast.If):
                exits = lambda blk: any(isinstance(x, (ast.Continue, ast.Break)) for x in blk)
                r = find(st.body, conds + [(st.test, False)])
                if r[1]:
                    return r
                r = find(st.orelse, conds + [(st.test, True)])
                if r[1]:
                    return r
                if exits(st.body):
                    conds = conds + [(st.test, True)]
                if exits(st.orelse):
                    conds = conds + [(st.test, False)]
            elif isinstance(st, (ast.For, ast.While, ast.With, ast.Try)):
                r = find(st.body, conds)
                if r[1]:
                    return r
        return conds, False
    conds, found = find(loop.body, [])
    if not found:
        raise AnalysisError(f"anchor vanished: per-group store not reached in GaussianKDE.{fn.name}")
    construct = qual(ci, fn)
    if not conds:
        return struct_ob("every-group-stored", construct, True, "", REL, loop.lineno, slots={"skips": 0})
    # the slice of kept samples in the summand
    val = rz.term(store.value, store)
    kept = [U(n.slice.elts[-1]) for n in ast.walk(val) if isinstance(n, ast.Subscript) and U(n.value) == "self.sample"
            and isinstance(n.slice, ast.Tuple)]
    kept += [U(n.slice) for n in ast.walk(val) if isinstance(n, ast.Subscript) and U(n.value) == "self.sample" and not isinstance(n.slice, ast.Tuple)]
    if not kept:
        raise AnalysisError(f"anchor vanished: kept-sample slice in the summand of GaussianKDE.{fn.name}")
    for test, skip_when_true in conds:
        t = rz.term(test, rz.stmt_of(test) if hasattr(rz, "stmt_of") else None)
        pats = EMPTY if skip_when_true else NONEMPTY
        b = None
        for pt in pats:
            b = pmatch(t, pt)
            if b is not None:
                break
        if b is None:
            # emptiness of the kept-sample window itself: `w.size == 0`, `len(w) == 0`, `not w.size` (and the negations)
            wpats_e = ("_w.size == 0", "len(_w) == 0", "not _w.size", "_w.size < 1", "_w.shape[0] == 0")
            wpats_n = ("_w.size != 0", "_w.size > 0", "len(_w) > 0", "len(_w) != 0", "_w.size", "_w.size >= 1")
            for pt in (wpats_e if skip_when_true else wpats_n):
                bw = pmatch(t, pt)
                if bw is not None:
                    wn = ast.parse(bw["_w"], mode="eval").body
                    if isinstance(wn, ast.Subscript) and U(wn.value) == "self.sample":
                        sl_ = wn.slice.elts[-1] if isinstance(wn.slice, ast.Tuple) else wn.slice
                        b = {"_a": U(sl_)}
                        break
        if b is None or b["_a"] not in kept:
            raise AnalysisError(f"every-group-stored: the region loop of GaussianKDE.{fn.name} skips its store under `{U(test)}`, which is not "
                                f"recognised as `no kept sample` - the skipped value cannot be decided")

    class Z(ast.NodeTransformer):
        def visit_Call(self, node):
            if isinstance(node.func, ast.Attribute) and node.func.attr == "sum" and any(
                    isinstance(n, ast.Subscript) and U(n.value) == "self.sample" for n in ast.walk(node.func.value)):
                return ast.Constant(0)
            return self.generic_visit(node)
    resid = ast.fix_missing_locations(Z().visit(ast.parse(U(val), mode="eval").body))
    ab, seen = abstract(resid, [("self.cdf_offsets[_r]", "OFF")])
    try:
        zero = anf_of(ab).eq(R.const(0))
        shown = U(resid)
    except Unsupported as e:
        raise AnalysisError(f"every-group-stored: residual `{U(resid)[:120]}` outside the algebra: {e}")
    return struct_ob("every-group-stored", construct, zero,
                     f"groups whose region keeps no sample are skipped (`{U(conds[0][0])}`) and keep the fill value 0, but the value of "
                     f"the summand with no kept sample is `{shown}`, which is not 0: the cumulative function drops to 0 inside every "
                     f"gap of the sample wider than the cut-off", REL, loop.lineno, slots={"skips": len(conds), "residual": shown})


def _table_domains(prog):
    """The window bounds, the cdf offsets and the evaluators must speak about ONE array: the bounds of a region's window are
    positions in the array the evaluators slice with them, and an offset `searchsorted(A, lower cut) / B.size` is the fraction of
    entries below the window only if it counts entries of the array whose size it is divided by."""
    ci = prog.cls("GaussianKDE")
    init = ci.methods["__init__"]
    rz = Resolver(init, prog, ci.module, ci, inline_self=True)
    terms = {}
    for st in ast.walk(init):
        if isinstance(st, ast.Assign) and len(st.targets) == 1 and isinstance(st.targets[0], ast.Attribute) and U(st.targets[0].value) == "self":
            terms.setdefault(st.targets[0].attr, []).append(rz.term(st.value, st))

    def searched(t):
        return {U(n.args[0]) for n in ast.walk(t) if isinstance(n, ast.Call) and U(n.func).split(".")[-1] == "searchsorted" and n.args
                and not isinstance(n.func, ast.Attribute)} | \
               {U(n.func.value) for n in ast.walk(t) if isinstance(n, ast.Call) and isinstance(n.func, ast.Attribute) and n.func.attr == "searchsorted"
                and U(n.func.value) not in ("np", "numpy")}
    out = []
    sl, off = terms.get("slices", []), terms.get("cdf_offsets", [])
    if len(sl) != 1 or len(off) != 1:
        return out
    a1 = searched(sl[0])
    why = []
    # the offsets: a count of entries below, divided by a size
    o = off[0]
    if isinstance(o, ast.BinOp) and isinstance(o.op, ast.Div):
        a3 = searched(o.left)
        den = o.right
        a4 = None
        if isinstance(den, ast.Attribute) and den.attr == "size":
            a4 = U(den.value)
        elif isinstance(den, ast.Call) and U(den.func) == "len" and den.args:
            a4 = U(den.args[0])
        elif isinstance(den, ast.Subscript) and isinstance(den.value, ast.Attribute) and den.value.attr == "shape":
            a4 = U(den.value.value)
        if len(a3) == 1 and a4 is not None and isinstance(o.left, ast.Call) and U(o.left.func).split(".")[-1] == "searchsorted":
            if next(iter(a3)) != a4:
                why.append(f"the cdf offsets count the entries of `{next(iter(a3))[:80]}` below each window but divide by the number of "
                           f"entries of `{a4[:80]}`")
            if a1 and a3 != a1:
                why.append(f"the cdf offsets are positions in `{next(iter(a3))[:80]}` while the windows are positions in `{sorted(a1)[0][:80]}`")
    # the evaluators: which array is sliced with the windows
    for mname in ("__call__", "cdf"):
        fm = ci.methods.get(mname)
        if fm is None:
            continue
        rm = Resolver(fm, prog, ci.module, ci)
        for n in ast.walk(fm):
            if isinstance(n, ast.Subscript) and any(isinstance(x, ast.Subscript) and U(x.value) == "self.slices" for x in ast.walk(n.slice)) \
                    and isinstance(n.value, ast.Attribute) and U(n.value.value) == "self":
                vals = terms.get(n.value.attr, [])
                if len(vals) == 1 and len(a1) == 1 and U(vals[0]) != next(iter(a1)):
                    why.append(f"{mname} slices `{U(n.value)}` = `{U(vals[0])[:80]}` with windows that are positions in `{next(iter(a1))[:80]}`")
    out.append(struct_ob("table-domain", qual(ci, init), not why,
                         "window bounds, cdf offsets and evaluators must index / count / normalise by the same array: " + "; ".join(why),
                         REL, init.lineno, slots={"searched": sorted(a1)}, tier="F"))
    return out


def run(prog, tier):
    dom = _table_domains(prog)
    try:
        obs, floors, meta = _run_main(prog, tier)
    except AnalysisError:
        # a definite violation beats an analysis that cannot proceed
        if any(not o.ok for o in dom):
            return dom, {}, {"explanation": "table domains disagree; remaining rules not evaluated"}
        raise
    return dom + obs, floors, meta


def _run_main(prog, tier):
    obs = []
    ci = prog.cls("GaussianKDE")
    init = ci.methods["__init__"]

    # ---------------------------------------------------------------- kernel-form
    anf.reset()
    for mname, what in (("__call__", "pdf"), ("cdf", "cdf")):
        fn = ci.methods[mname]
        ex = Expander(prog, ci.module, ci)
        ex.opaque_self_attrs = {"h", "sample", "slices", "cdf_offsets", "tree"}
        ex.ctor_methods = ("__init__",)
        ex.on_for = lambda node, env: "once"
        ex.on_if = lambda node, env: "skip"
        ex.array_pred = lambda a: a[0] == "sym" and a[1].startswith("self.sample")
        ex.n_atom = R.sym("n_kept")
        env = {fn.args.args[1].arg: R.sym("x")}
        body = [s for s in fn.body if not isinstance(s, ast.Return)]
        guard(lambda: ex.exec_block(body, env))
        loop = [l for l in fn.body if isinstance(l, ast.For)]
        if len(loop) != 1:
            raise AnalysisError(f"anchor vanished: region loop in GaussianKDE.{mname}")
        h = R.sym("self.h")
        N = R.sym("size(self.sample)")
        # the displacement query point - kept sample, recovered from the atoms of the summand (independent of temporaries)
        # the per-group store into the result array: `<result>[<group>] = <summed kernels>` inside the region loop
        st_keys = [U(s_.targets[0]) for s_ in ast.walk(loop[0]) if isinstance(s_, ast.Assign) and isinstance(s_.targets[0], ast.Subscript)
                   and isinstance(s_.targets[0].value, ast.Name)]
        res_key = st_keys[0] if len(st_keys) == 1 else ("pdf[g]" if what == "pdf" else "cdf[g]")
        gotv = env.get(res_key)
        syms = {a for a in gotv.all_atoms() if a[0] == "sym"} if isinstance(gotv, R) else set()
        clamped = [a for a in syms if a[1].startswith("x<entries")]
        if clamped:
            obs.append(struct_ob("kernel-form", qual(ci, fn), False,
                                 f"the query points are overwritten before the kernel sum ({clamped[0][1][:120]}): the estimate is then "
                                 f"evaluated at other points than the caller's", REL, fn.lineno))
            continue
        xa = [a for a in syms if a[1].startswith("x[") or a[1] == "x"]
        sa_ = [a for a in syms if a[1].startswith("self.sample[")]
        if len(xa) != 1 or len(sa_) != 1:
            raise AnalysisError(f"anchor vanished: query point / kept samples in the summand of GaussianKDE.{mname} ({sorted(a[1] for a in syms)})")
        dx = R.atom(xa[0]) - R.atom(sa_[0])
        is_arr = lambda a: a[0] == "sym" and a[1].startswith("self.sample")
        if what == "pdf":
            got = env.get(res_key)
            norm = guard(lambda: ex.self_attr("norm", {}))
            want = anf.sum_(anf.exp_(-(dx * dx) / (2 * h * h)) / (N * h * anf.sqrt_(2 * anf.PI)), is_arr, R.sym("n_kept"), "ax1")
            # what is done to the array of kernel sums between the loop and the return (as values - re-ordering of the entries is the
            # business of the order rule below): the returned value as a function of the loop's value, self.norm written out
            fac = _post_factor(prog, ci, fn, loop[0], res_key.split("[")[0])
            if fac is None or not isinstance(got, R):
                o = struct_ob("kernel-form", qual(ci, fn), False,
                              f"between the region loop and the return the kernel sums may only be scaled (by self.norm, exactly once overall); "
                              f"what happens there is not a function of the sums alone", REL, fn.lineno)
            else:
                total = anf.subst(fac, {("sym", "RES"): got, ("sym", "self.norm"): norm})
                # len(self.sample) and self.sample.size name the same count
                total = anf.subst(total, {a: N for a in total.all_atoms() if a[0] == "sym" and a[1].startswith("size(")})
                o = formula_ob("kernel-form", qual(ci, fn), total, want, REL, fn.lineno,
                               what="density = sum over kept samples of exp(-(x-s)^2 / 2h^2) / (N h sqrt(2 pi))")
            obs.append(o)
        else:
            got = env.get(res_key)
            off = R.sym("self.cdf_offsets")          # indexed by the region of the query point (loop index erased)
            want = anf.sum_((1 + anf.erf_(dx / (anf.sqrt_(R.const(2)) * h))) / (2 * N), is_arr, R.sym("n_kept"), "ax1") + off
            # ... and what is returned is that array: the values filled by the region loop reach the caller unchanged (re-ordered only)
            fac = _post_factor(prog, ci, fn, loop[0], res_key.split("[")[0])
            if fac is None or not isinstance(got, R):
                obs.append(struct_ob("kernel-form", qual(ci, fn), False,
                                     "between the region loop and the return the cumulative values may only be put back in the caller's order; "
                                     "what happens there is not a function of the values alone (a running maximum, a clip, a store into "
                                     "the result changes them)", REL, fn.lineno))
            else:
                total = anf.subst(fac, {("sym", "RES"): got})
                obs.append(formula_ob("kernel-form", qual(ci, fn), total, want, REL, fn.lineno,
                                      what="cdf = sum over kept samples of (1 + erf((x-s)/(sqrt2 h))) / 2N + (samples dropped below)/N"))

    # ---------------------------------------------------------------- the estimator's state is built once, together
    # bandwidth, scale factors, cut-off, slice table, offsets, tree and sample are set by the constructor only: a method that changes
    # some of them afterwards (a bandwidth "rescale") leaves the others describing another estimate
    STATE = ("h", "q", "norm", "cutoff", "slices", "cdf_offsets", "tree", "sample", "max_cvs", "lwr_limit", "upr_limit")
    late = []
    for mname_, fn_ in ci.methods.items():
        if mname_ == "__init__" or not fn_.args.args:
            continue
        sn_ = fn_.args.args[0].arg
        for st_ in ast.walk(fn_):
            tg_ = st_.targets if isinstance(st_, ast.Assign) else [st_.target] if isinstance(st_, (ast.AugAssign, ast.AnnAssign)) else []
            for t_ in tg_:
                for el_ in (t_.elts if isinstance(t_, ast.Tuple) else [t_]):
                    b_ = el_
                    while isinstance(b_, ast.Subscript):
                        b_ = b_.value
                    if isinstance(b_, ast.Attribute) and isinstance(b_.value, ast.Name) and b_.value.id == sn_ and b_.attr in STATE:
                        late.append(f"{mname_} line {st_.lineno}: `{U(st_)[:70]}`")
    obs.append(struct_ob("region-tables", qual(ci, init) + "[state-set-by-constructor-only]", not late,
                         "part of the estimator's state is changed after construction: " + "; ".join(late[:2]), REL, init.lineno, tier="F"))
    # ---------------------------------------------------------------- tables derived from the final bandwidth
    from .common import final_state_obligations
    obs.extend(final_state_obligations(prog, "region-tables", "GaussianKDE", REL, {"h", "sample"}))
    # ---------------------------------------------------------------- region tables (resolved terms)
    rz = Resolver(init, prog, ci.module, ci)
    attr_val = {}
    for st in ast.walk(init):
        if isinstance(st, ast.Assign) and len(st.targets) == 1 and isinstance(st.targets[0], ast.Attribute) and U(st.targets[0].value) == "self":
            attr_val.setdefault(st.targets[0].attr, []).append(rz.term(st.value, st))
    why = []
    M = None
    sl = attr_val.get("slices", [])
    b = None
    if len(sl) == 1:
        b = pmatch(sl[0], "[slice(_l, _u) for _l, _u in zip(searchsorted(self.sample, _M - self.cutoff), searchsorted(self.sample, _M + self.cutoff))]")
    if b is None:
        why.append(f"self.slices is `{U(sl[0])[:300] if sl else None}`")
    else:
        M = b["_M"]
        off = attr_val.get("cdf_offsets", [])
        okoff = len(off) == 1 and any(pmatch(off[0], pt, {"_M": M}) is not None for pt in
                                      ("searchsorted(self.sample, _M - self.cutoff) / self.sample.size",
                                       "searchsorted(self.sample, _M - self.cutoff) / len(self.sample)",
                                       "searchsorted(self.sample, _M - self.cutoff) / self.sample.shape[0]"))     # the sample is flattened
        if not okoff:
            why.append(f"self.cdf_offsets is `{U(off[0])[:300] if off else None}`, not the same lower indices divided by the sample size")
    obs.append(struct_ob("region-tables", qual(ci, init) + "[slices]", not why,
                         "slices must run from searchsorted(sample, mid - cutoff) to searchsorted(sample, mid + cutoff) and the cdf "
                         "offsets must be the same lower indices divided by the sample size: " + "; ".join(why), REL, init.lineno))
    why = []
    n_layers_text = None
    if M is None:
        why.append("region mid-points not identified")
    else:
        mt = ast.parse(M, mode="eval").body
        ab, seen = abstract(mt, [("_E[1:]", "HI"), ("_E[:-1]", "LO")])
        okm = False
        try:
            okm = anf_of(ab).eq((R.sym("HI") + R.sym("LO")) / 2) and all(len(v) == 1 for v in seen.values()) and set(seen) == {"HI", "LO"}
        except Unsupported:
            okm = False
        E = None
        if okm:
            e1 = ast.parse(next(iter(seen["HI"])), mode="eval").body.value
            e2 = ast.parse(next(iter(seen["LO"])), mode="eval").body.value
            okm = U(e1) == U(e2)
            E = e1
        if not okm:
            why.append(f"mid-points `{M[:200]}` are not the averages of consecutive edges")
        else:
            be = pmatch(E, "linspace(self.sample[0], self.sample[-1], 2 ** _n + 1)")
            n_layers_text = be["_n"] if be is not None else None
            tr = attr_val.get("tree", [])
            if be is None:
                why.append(f"edges `{U(E)[:200]}` are not linspace(sample[0], sample[-1], 2**n + 1)")
            elif not (len(tr) == 1 and pmatch(tr[0], "BinaryTree(_n, (self.sample[0], self.sample[-1]))", {"_n": be["_n"]}) is not None):
                why.append(f"the look-up tree `{U(tr[0])[:200] if tr else None}` is not built for the same number of layers and end points")
    bt = prog.cls("BinaryTree")
    bti = bt.methods["__init__"]
    rb = Resolver(bti, prog, bt.module, bt, inline_self=True)
    lay, lim = bti.args.args[1].arg, bti.args.args[2].arg
    ed = [rb.term(st.value, st) for st in ast.walk(bti) if isinstance(st, ast.Assign) and U(st.targets[0]) == "self.edges"]
    if not (len(ed) == 1 and pmatch(ed[0], f"linspace({lim}[0], {lim}[1], 2 ** {lay} + 1)") is not None):
        why.append(f"BinaryTree edges are `{U(ed[0]) if ed else None}`")
    obs.append(struct_ob("region-tables", qual(ci, init) + "[mids]", not why,
                         "region mid-points must be the mid-points of the very edges the tree uses (same end points, 2**n + 1 edges): "
                         + "; ".join(why), REL, init.lineno))
    both = []
    for mname in ("__call__", "cdf"):
        fm = ci.methods[mname]
        rm = Resolver(fm, prog, ci.module, ci)
        xp = fm.args.args[1].arg
        loops = [l for l in fm.body if isinstance(l, ast.For)]
        okl = False
        if len(loops) == 1 and isinstance(loops[0].target, ast.Tuple) and len(loops[0].target.elts) == 2:
            rname, gname = U(loops[0].target.elts[0]), U(loops[0].target.elts[1])
            it = rm.term(loops[0].iter, loops[0])
            okl = pmatch(it, f"zip(self.tree.region_groups({xp})[0], self.tree.region_groups({xp})[1])") is not None
            body_terms = [rm.term(st.value, st) for st in ast.walk(loops[0]) if isinstance(st, ast.Assign)]
            okl = okl and any(find_all(t, pt) for t in body_terms for pt in (
                f"{xp}[{gname}, None] - self.sample[None, self.slices[{rname}]]",
                f"{xp}[{gname}, None] - self.sample[self.slices[{rname}]][None, :]",          # the kept window taken first (1-D sample)
                f"{xp}[{gname}][:, None] - self.sample[None, self.slices[{rname}]]",
                f"{xp}[{gname}][:, None] - self.sample[self.slices[{rname}]][None, :]",
                # a column of query points minus the (1-D) window: numpy lines the window up along the last axis by itself
                f"{xp}[{gname}, None] - self.sample[self.slices[{rname}]]",
                f"{xp}[{gname}][:, None] - self.sample[self.slices[{rname}]]"))
        both.append(okl)
    obs.append(struct_ob("region-tables", f"{ci.module.name}.GaussianKDE[pdf/cdf siblings]", all(both),
                         "pdf and cdf must group the query points with the same tree look-up and use the same slice table", REL,
                         ci.node.lineno))

    # ---------------------------------------------------------------- region provenance (who may compute a region index)
    n_sub = 0
    for mname, fm in ci.methods.items():
        if mname == "__init__":
            continue
        rm = Resolver(fm, prog, ci.module, ci)
        bad = []
        for n in ast.walk(fm):
            if isinstance(n, ast.Subscript) and U(n.value) in ("self.slices", "self.cdf_offsets"):
                n_sub += 1
                idx = n.slice
                ok_idx = False
                if isinstance(idx, ast.Name):
                    # a loop variable over the regions returned by the tree look-up
                    for lp in ast.walk(fm):
                        if isinstance(lp, ast.For) and idx.id in [x.id for x in ast.walk(lp.target) if isinstance(x, ast.Name)] \
                                and any(x is n for b_ in lp.body for x in ast.walk(b_)):
                            it = rm.term(lp.iter, lp)
                            tgt = lp.target
                            pos = [U(e) for e in tgt.elts].index(idx.id) if isinstance(tgt, ast.Tuple) and idx.id in [U(e) for e in tgt.elts] else None
                            if isinstance(it, ast.Call) and U(it.func) == "zip" and pos is not None and pos < len(it.args):
                                ok_idx = pmatch(it.args[pos], "self.tree.region_groups(_)[0]") is not None
                            elif pos is None:
                                ok_idx = pmatch(it, "self.tree.region_groups(_)[0]") is not None
                if not ok_idx:
                    t = rm.term(idx, rm.stmt_of(n))
                    ok_idx = isinstance(t, ast.Subscript) and isinstance(t.value, ast.Call) and U(t.value.func).startswith("self.tree.") \
                        or (isinstance(t, ast.Call) and U(t.func).startswith("self.tree."))
                if not ok_idx:
                    bad.append((n.lineno, U(n), U(rm.term(idx, rm.stmt_of(n)))[:160]))
        if bad:
            l_, t_, i_ = bad[0]
            obs.append(struct_ob("region-provenance", qual(ci, fm), False,
                                 f"`{t_}` (line {l_}) is indexed by `{i_}`, a region number not produced by the tree look-up "
                                 f"(self.tree.region_groups clamps points outside the sample range to the end regions; a hand-made index does not)",
                                 REL, l_))
        elif any(isinstance(n, ast.Subscript) and U(n.value) in ("self.slices", "self.cdf_offsets") for n in ast.walk(fm)):
            obs.append(struct_ob("region-provenance", qual(ci, fm), True, "", REL, fm.lineno))

    obs.extend(_region_lookup(prog))
    # the estimator is built from the sample itself: self.sample is the SORTED input, every value kept with its multiplicity
    rzi = Resolver(init, prog, ci.module, ci)
    sdefs = [st for st in ast.walk(init) if isinstance(st, ast.Assign) and len(st.targets) == 1 and U(st.targets[0]) == "self.sample"]
    oks, whys = False, "self.sample is not assigned exactly once"
    if len(sdefs) == 1:
        t_ = rzi.term(sdefs[0].value, sdefs[0])
        sorted_seen = False
        e_ = t_
        while True:
            if isinstance(e_, ast.Call) and U(e_.func) in ("sort", "sorted") and e_.args and not [k for k in e_.keywords if k.arg not in ("axis", "kind")]:
                sorted_seen, e_ = True, e_.args[0]
            elif isinstance(e_, ast.Call) and U(e_.func) in ("array", "asarray", "atleast_1d", "ravel", "squeeze") and e_.args:
                dt_ = next((k.value for k in e_.keywords if k.arg == "dtype"), None)
                if dt_ is not None and U(dt_) not in ("float", "float64", "'float64'", "double", "'double'", "'f8'", "np.float64", "numpy.float64", "longdouble"):
                    break
                e_ = e_.args[0]
            elif isinstance(e_, ast.Call) and isinstance(e_.func, ast.Attribute) and e_.func.attr in ("flatten", "ravel", "squeeze", "copy", "astype") \
                    and (not e_.args or e_.func.attr == "astype"):
                # a conversion is part of the definition only when the type holds every value exactly (double precision)
                if e_.func.attr == "astype" and not (e_.args and U(e_.args[0]) in (
                        "float", "float64", "'float64'", "double", "'double'", "'f8'", "np.float64", "numpy.float64", "longdouble")):
                    break
                e_ = e_.func.value
            else:
                break
        pname_ = init.args.args[1].arg
        oks = sorted_seen and isinstance(e_, ast.Name) and e_.id == pname_
        whys = f"self.sample = `{U(t_)[:120]}`"
    obs.append(struct_ob("sample-stays-sorted", qual(ci, init) + "[definition]", oks,
                         "self.sample must be the sorted, flattened input with every value kept (no de-duplication, selection or "
                         "re-weighting): " + whys, REL, init.lineno, tier="F"))

    # ---------------------------------------------------------------- truncation bound
    anf.reset()
    ex = Expander(prog, ci.module, ci)
    ex.opaque_self_attrs = {"h", "sample"}
    src = {U(s.targets[0]): s.value for s in ast.walk(init) if isinstance(s, ast.Assign) and len(s.targets) == 1}
    ok, why = False, ""
    try:
        cut_st = [s_ for s_ in ast.walk(init) if isinstance(s_, ast.Assign) and len(s_.targets) == 1 and U(s_.targets[0]) == "self.cutoff"]
        cutoff = ex.eval(rz.term(cut_st[0].value, cut_st[0]) if len(cut_st) == 1 else src["self.cutoff"], {})
        c = anf.proportional(cutoff, R.sym("self.h"))
        if n_layers_text is None:
            raise KeyError("number of tree layers (2**n + 1 edges) not identified")
        nval = ex.eval(ast.parse(n_layers_text, mode="eval").body, {})
        rng = R.sym("self.sample[-1]") - R.sym("self.sample[0]")
        base = anf.fn_("int", anf.log_(rng.div(R.sym("self.h"))).div(anf.log_(R.const(2))))
        k0 = nval - base
        if c is not None and k0.is_const() and k0.const_value() >= 0:
            k0v = k0.const_value()
            bound = math.exp(-0.5 * (float(c) - 2.0 ** (-float(k0v))) ** 2)
            ok = bound <= 1e-2 and c > 0
            why = (f"cutoff = {c} h; n = int(log2(range/h)) + {k0v}, so a region is narrower than 2^(1-{k0v}) h and every dropped kernel is farther "
                   f"than ({c} - 2^-{k0v}) h from the query point: relative weight <= exp(-({c} - 2^-{k0v})^2 / 2) = {bound:.3g} (required <= 1e-2)")
        else:
            why = f"cutoff/h = {c}; n - int(log2(range/h)) = {k0}"
    except (KeyError, Unsupported) as e:
        why = f"cannot extract the constants: {e}"
    obs.append(struct_ob("truncation-bound", qual(ci, init), ok,
                         "the truncation implied by the cut-off and the number of regions must be explicitly bounded: " + why,
                         REL, init.lineno, tier="F", slots={"derivation": why}))

    # ---------------------------------------------------------------- units for the three bandwidth modes
    S = Lin(1, 1)
    configs = [("rule-of-thumb bandwidth", {"args": [S], "kws": {}}),
               ("cross-validated bandwidth", {"args": [S], "kws": {"cross_validation": BOOL}}),
               ("user bandwidth", {"args": [S], "kws": {"bandwidth": Lin(1, 0)}})]
    public = {"__call__": [S], "cdf": [S], "__attr__": ["h", "mode"]}
    obs.extend(units_obligations(prog, REL, "GaussianKDE", configs, public, EXPECTED))

    obs.extend(dtype_hazard_obligations(prog, "float-arithmetic", ['inference/pdf/kde.py']))
    from .common import call_order_obligations
    obs.extend(call_order_obligations(prog, "arguments-in-order", ['inference/pdf/kde.py']))
    from .common import identity_memo_obligations
    obs.extend(identity_memo_obligations(prog, "result-keyed-on-values", ['inference/pdf/kde.py']))

    for mname in ("__call__", "cdf"):
        obs.append(_every_group_stored(prog, ci, ci.methods[mname]))
        obs.append(_order_restored(prog, ci, ci.methods[mname]))

    obs.extend(memo_obligations(prog, "cache-key", [prog.cls("GaussianKDE")]))

    # the region tables, the data range and both evaluators rely on self.sample being the sorted sample: after the constructor
    # sorted it, no method re-orders / overwrites it through an alias or view
    kde = prog.cls("GaussianKDE")
    sites = [(kde, fn, {fn.args.args[0].arg: "self"}, {"self.sample", "self.sample[]"}) for m, fn in kde.methods.items()
             if fn.args.args and not any(U(d) in ("staticmethod", "classmethod") for d in fn.decorator_list)]
    obs.extend(stored_state_obligations(prog, "sample-stays-sorted", sites,
                                        "the sorted sample every look-up table was (or will be) built from is re-ordered or overwritten", scalar_ok=False))

    meta = {
        "explanation": "Normal-form equality of the pdf / cdf summands with the Gaussian kernel and its integral for bandwidth h "
                       "(self.norm, self.q inlined); structural agreement of the slice / offset / mid-point tables used by both "
                       "evaluators; a closed-form truncation bound evaluated from the extracted literals (constant folding, not "
                       "execution); units-of-measure / shift typing of the whole class for the three bandwidth modes: the density has "
                       "type X^-1, the cdf is a pure number, bandwidths are X^1 and shift-free, locations move with the data.",
        "assumptions": ["numpy searchsorted / linspace semantics; scipy erf"],
    }
    return obs, FLOORS, meta


# ---------------------------------------------------------------------------------------------- the tree look-up itself
def _region_lookup(prog):
    """The look-up every region number comes from (region-provenance): a query point gets the index of the edge interval that
    contains it, and points outside the covered range get the END regions - a region number outside 0 .. n_regions - 1 would
    silently wrap (Python's negative indexing) to the sample window and cdf offset of the opposite end.
    Table form: regions[searchsorted(edges, x)] with regions[k] = clamp(k - 1, 0, edges.size - 2).
    Any other way a returned region number is computed must be clamped from below and from above."""
    out = []
    bt = prog.cls("BinaryTree")
    init, rg = bt.methods.get("__init__"), bt.methods.get("region_groups")
    if init is None or rg is None:
        raise AnalysisError("anchor vanished: BinaryTree.__init__ / region_groups")
    sn = init.args.args[0].arg
    rb = Resolver(init, prog, bt.module, bt, inline_self=True)
    # ---- the table
    base, over, other = None, {}, []
    for st in ast.walk(init):
        if isinstance(st, ast.Assign) and len(st.targets) == 1:
            t = st.targets[0]
            if U(t) == f"{sn}.regions":
                base = rb.term(st.value, st)
            elif isinstance(t, ast.Subscript) and U(t.value) == f"{sn}.regions":
                k = U(t.slice)
                if k in ("0", "-1") and k not in over:
                    over[k] = rb.term(st.value, st)
                else:
                    other.append(U(st))
        elif isinstance(st, ast.AugAssign) and U(st.target).startswith(f"{sn}.regions"):
            other.append(U(st))
    why = []
    E = None
    ed0 = [rb.term(st.value, st) for st in ast.walk(init) if isinstance(st, ast.Assign) and U(st.targets[0]) == f"{sn}.edges"]
    # the number of edges, as a value: linspace(a, b, COUNT) has COUNT entries
    n_edges = None
    if len(ed0) == 1:
        be = pmatch(ed0[0], "linspace(_a, _b, _c)")
        if be is not None:
            try:
                n_edges = anf_of(abstract(ast.parse(be["_c"], mode="eval").body, [])[0])
            except Unsupported:
                n_edges = None
    ABSE = [(f"{U(ed0[0])}.size", "NE"), (f"len({U(ed0[0])})", "NE"), (f"{U(ed0[0])}.shape[0]", "NE")] if len(ed0) == 1 else []

    def val(e):
        """normal form of an integer expression in the number of edges NE (and, through linspace's count, in the layer count)"""
        v = anf_of(abstract(e, ABSE)[0])
        if n_edges is not None:
            v = anf.subst(v, {("sym", "NE"): n_edges})
        return v
    NEv = n_edges if n_edges is not None else R.sym("NE")
    if base is None:
        why.append("no `regions` table is built")
    else:
        # the table as (first value, length):  arange(a, b) -> (a, b - a);  arange(n) -> (0, n);  +- constant shifts the values
        def table(e):
            if isinstance(e, ast.BinOp) and isinstance(e.op, (ast.Add, ast.Sub)):
                l_, r_ = e.left, e.right
                tl = table(l_)
                if tl is not None:
                    c_ = val(r_)
                    return (tl[0] + c_ if isinstance(e.op, ast.Add) else tl[0] - c_, tl[1])
                tr = table(r_)
                if tr is not None and isinstance(e.op, ast.Add):
                    return (tr[0] + val(l_), tr[1])
                return None
            if isinstance(e, ast.Call) and U(e.func) == "arange" and not e.keywords:
                if len(e.args) == 1:
                    return (R.const(0), val(e.args[0]))
                if len(e.args) == 2:
                    return (val(e.args[0]), val(e.args[1]) - val(e.args[0]))
            return None
        clipped = pmatch(base, "clip(_t, 0, _hi)")
        try:
            tb = table(ast.parse(clipped["_t"], mode="eval").body if clipped is not None else base)
        except Unsupported:
            tb = None
        E = U(ed0[0]) if len(ed0) == 1 else None
        if tb is None:
            why.append(f"the table is `{U(base)[:120]}`, not an arange over one more entry than there are edges, starting at -1")
        else:
            first, length = tb
            if not first.eq(R.const(-1)) or not length.eq(NEv + 1):
                why.append(f"the table starts at {first} and has {length} entries; it must start at -1 and have edges.size + 1 entries")
            if clipped is not None:
                try:
                    if not val(ast.parse(clipped["_hi"], mode="eval").body).eq(NEv - 2):
                        why.append(f"the table is clipped at `{clipped['_hi']}`, not at edges.size - 2")
                except Unsupported:
                    why.append(f"clip bound `{clipped['_hi']}` not understood")
                if over or other:
                    why.append(f"extra writes into the clamped table: {sorted(over)} {other}")
            else:
                lo, hi = over.get("0"), over.get("-1")
                if not (isinstance(lo, ast.Constant) and lo.value == 0):
                    why.append(f"regions[0] (points below the first edge) is `{U(lo) if lo is not None else 'left at -1'}`, not 0")
                okhi = False
                if hi is not None:
                    try:
                        okhi = val(hi).eq(NEv - 2)
                    except Unsupported:
                        okhi = False
                if not okhi:
                    why.append(f"regions[-1] (points above the last edge) is `{U(hi) if hi is not None else 'left at edges.size - 1'}`, not edges.size - 2")
                if other:
                    why.append(f"further writes into the table: {other}")
    ed = [rb.term(st.value, st) for st in ast.walk(init) if isinstance(st, ast.Assign) and U(st.targets[0]) == f"{sn}.edges"]
    if E is not None and not (len(ed) == 1 and U(ed[0]) == E):
        why.append(f"the table is sized from `{E}`, which is not the edge array `{U(ed[0]) if ed else None}`")
    out.append(struct_ob("region-lookup", qual(bt, init) + "[table]", not why,
                         "regions[k] must be clamp(k - 1, 0, n_regions - 1) for k = searchsorted(edges, x) in 0 .. edges.size: " + "; ".join(why),
                         REL, init.lineno))

    # ---- every returned region number
    def region_exprs(fn, rz, depth=0):
        """[(expression of the region numbers, resolver, function)] over the return statements"""
        res = []
        for r in rz.returns():
            t = rz.term(r.value, r)
            if isinstance(t, ast.Call) and U(t.func) == "unique_index_groups" and t.args:
                res.append((t.args[0], r))
            elif isinstance(t, ast.Tuple) and t.elts:
                res.append((t.elts[0], r))
            else:
                res.append((t, r))
        return res

    def indep(e, var):
        return not any(isinstance(n, ast.Name) and n.id in var for n in ast.walk(e))

    def bounded(e, var, depth=0):
        """(bounded below, bounded above) for a scalar region number computed from the query value(s) named in `var`"""
        if indep(e, var):
            return True, True
        if isinstance(e, ast.Subscript) and U(e.value) == "self.regions":
            return True, True
        if isinstance(e, ast.IfExp):
            a, b = bounded(e.body, var, depth), bounded(e.orelse, var, depth)
            return a[0] and b[0], a[1] and b[1]
        if isinstance(e, ast.Call):
            f = U(e.func).split(".")[-1]
            if f in ("int", "floor", "ceil", "round", "array", "asarray", "intp", "int64", "astype") and (e.args or isinstance(e.func, ast.Attribute)):
                return bounded(e.args[0] if e.args and f != "astype" else e.func.value, var, depth)
            if f in ("min", "minimum") and len(e.args) >= 2:
                bs = [bounded(a, var, depth) for a in e.args]
                return all(b[0] for b in bs), any(b[1] for b in bs)
            if f in ("max", "maximum") and len(e.args) >= 2:
                bs = [bounded(a, var, depth) for a in e.args]
                return any(b[0] for b in bs), all(b[1] for b in bs)
            if f == "clip" and len(e.args) >= 3 and all(not (isinstance(a, ast.Constant) and a.value is None) for a in e.args[1:3]):
                return True, True
            if isinstance(e.func, ast.Attribute) and U(e.func.value) == "self" and e.func.attr in bt.methods and depth < 3:
                m = bt.methods[e.func.attr]
                ps = [a.arg for a in m.args.args[1:]]
                v2 = {p_ for p_, a in zip(ps, e.args) if not indep(a, var)}
                rz2 = Resolver(m, prog, bt.module, bt)
                bs = [bounded(rz2.term(r.value, r), v2, depth + 1) for r in rz2.returns()]
                return (all(b[0] for b in bs), all(b[1] for b in bs)) if bs else (False, False)
        return False, False

    rz = Resolver(rg, prog, bt.module, bt)
    xp = rg.args.args[1].arg
    n_paths = 0
    for e, r in region_exprs(rg, rz):
        n_paths += 1
        var = {xp}
        el = e
        if isinstance(el, ast.Call) and U(el.func).split(".")[-1] in ("array", "asarray") and el.args:
            el = el.args[0]
        if isinstance(el, (ast.ListComp, ast.GeneratorExp)) and len(el.generators) == 1:
            g = el.generators[0]
            if not indep(g.iter, var):
                var = var | {n.id for n in ast.walk(g.target) if isinstance(n, ast.Name)}
            el = el.elt
        table = pmatch(el, f"self.regions[searchsorted(self.edges, {xp})]") is not None \
            or pmatch(el, f"self.regions[self.edges.searchsorted({xp})]") is not None
        lo, hi = (True, True) if table else bounded(el, var)
        why = ""
        if not (lo and hi):
            side = "below" if not lo and hi else "above" if lo and not hi else "on either side"
            why = (f"`{U(el)[:140]}` (return at line {r.lineno}) is computed from the query point and is not clamped {side}: a point "
                   f"outside the covered range gets a region number outside 0 .. n_regions - 1, which indexes the tables of the opposite end")
        out.append(struct_ob("region-lookup", qual(bt, rg) + f"[return@{n_paths}]", lo and hi, why, REL, r.lineno,
                             slots={"form": "table" if table else "arithmetic", "expr": U(el)[:120]}, tier="F"))
    if n_paths == 0:
        raise AnalysisError("anchor vanished: BinaryTree.region_groups returns nothing")
    return out
