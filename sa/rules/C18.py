"""C18 - acquisition functions compute what they define; proposals respect bounds (tier F + S).

Decides: both EI branches are the same function and equal sigma (Z Phi + phi); UCB and
max-variance forms; opt_func is -log EI / -value; opt_func_gradient returns that objective
and its derivative under d(mu) = dmu, d(sigma^2) = dvar; both optimisers receive the bounds
and start points are clamped into them; the caller's arrays are not mutated; the refit uses
the appended data and the acquisition is updated after the refit.
Does not decide: that the scipy optimisers stay within the bounds they are given.
"""
from __future__ import annotations
import ast
from fractions import Fraction
from ..model import qual, get_kw
from ..own import Ownership
from ..symx import Expander, TupleV, ref_eval
from ..anf import R, Unsupported
from .. import anf
from .common import memo_obligations, dtype_hazard_obligations, default_instance_obligations, struct_ob, formula_ob, guard, last_return, U
from .C03 import ownership_obligations
from ..report import AnalysisError
from ..term import Resolver, pmatch, find_all, abstract, anf_of

ACQ = "inference/gp/acquisition.py"
OPT = "inference/gp/optimisation.py"
FLOORS = {"float-arithmetic": 2, "components-not-shared": 1, "value-form": 4, "objective-siblings": 5, "gradient-is-derivative": 4, "bounds-passed": 3,
          "ownership": 5, "refit-order": 2,
          "tail-guard": 3}

MU, SIG, DMU, DVAR, MUMAX = (R.sym("mu"), R.sym("sig"), R.sym("dmu"), R.sym("dvar"), R.sym("self.mu_max"))


def acq_expander(prog, ci, branch):
    ex = Expander(prog, ci.module, ci)
    ex.opaque_self_attrs = {"mu_max", "gp", "kappa"}

    def hook(e, node, env):
        f = U(node.func)
        if f == "self.gp":
            return TupleV([R.sym("MU"), R.sym("SIG")])
        if f == "self.gp.spatial_derivatives":
            return TupleV([DMU, DVAR])
        return NotImplemented
    ex.call_hook = hook

    ex.extra_returns = []

    def on_if(node, env):
        if is_tail_switch(node):
            return branch
        # a conversion of the result's container type (`if type(aq) is not ndarray: aq = array(aq)`) leaves the value alone; any other
        # arm that RETURNS is another path of the function: its value is recorded and must be the acquisition value too
        for st_ in getattr(node, "body", []):
            if isinstance(st_, ast.Return):
                try:
                    v_ = ex.eval(st_.value, env) if st_.value is not None else None
                except Unsupported:
                    v_ = None
                ex.extra_returns.append((U(node.test)[:80], st_.lineno, v_))
        # `if type(v) is not ndarray: v = array(v)` (and the isinstance spelling): the container changes, the value does not
        tt_ = U(node.test)
        if not node.orelse and len(node.body) == 1 and isinstance(node.body[0], ast.Assign) and isinstance(node.body[0].targets[0], ast.Name):
            nm_ = node.body[0].targets[0].id
            if tt_ in (f"type({nm_}) is not ndarray", f"not isinstance({nm_}, ndarray)", f"type({nm_}) != ndarray") \
                    and U(node.body[0].value) in (f"array({nm_})", f"atleast_1d({nm_})", f"asarray({nm_})", f"array([{nm_}])"):
                return "ignore"
        return "skip"
    ex.on_if = on_if
    return ex


def is_tail_switch(node):
    """The two-arm switch whose first arm uses the erfcx-based ratio (the far-tail form)."""
    return isinstance(node, ast.If) and (bool(node.orelse) or (node.body and isinstance(node.body[-1], (ast.Return, ast.Raise)))) and any(
        isinstance(n, ast.Call) and U(n.func) == "self.cdf_pdf_ratio"
        for st in node.body for n in ast.walk(st))


def _orient_tail(fn):
    """Put the far-tail arm (the one using the erfcx ratio) first: `if Z >= c: ordinary else: tail` is `if Z < c: tail else: ordinary`."""
    from ..canon import _negate
    for n in ast.walk(fn):
        if isinstance(n, ast.If) and n.orelse and not any(isinstance(x, ast.Call) and U(x.func) == "self.cdf_pdf_ratio" for st in n.body for x in ast.walk(st)) \
                and any(isinstance(x, ast.Call) and U(x.func) == "self.cdf_pdf_ratio" for st in n.orelse for x in ast.walk(st)) \
                and not (len(n.orelse) == 1 and isinstance(n.orelse[0], ast.If)):
            n.test = ast.fix_missing_locations(ast.copy_location(_negate(n.test), n.test))
            n.body, n.orelse = n.orelse, n.body


EXTRA = []


def evaluate(prog, ci, fn, branch):
    ex = acq_expander(prog, ci, branch)
    env = {fn.args.args[1].arg: R.sym("x")}
    res = guard(lambda: ex.run(fn.body, env))
    del EXTRA[:]
    EXTRA.extend(ex.extra_returns)
    sub = {("sym", "MU[0]"): MU, ("sym", "SIG[0]"): SIG, ("sym", "MU"): MU, ("sym", "SIG"): SIG}

    def fix(v):
        return anf.subst(v, sub) if isinstance(v, R) else TupleV([fix(x) for x in v.items])
    return fix(res)


def _neg_literal(node):
    try:
        v = ast.literal_eval(node)
    except Exception:
        return False
    # c <= 0: erfcx(-Z / sqrt 2) overflows for large positive Z.  c >= -6: the ordinary arm computes the normal cdf as
    # 0.5 (1 + erf(Z / sqrt 2)), whose absolute rounding error (1e-16) is the whole value near Z = -8 and 1e-7 of it at Z = -6, and
    # then cancels Z cdf against pdf: below about -6 that arm no longer returns expected improvement (8 % off at -10, -inf below -38)
    return isinstance(v, (int, float)) and -6 <= v <= 0


def total_derivative(obj):
    """d obj / dx with d(mu) = dmu and d(sig^2) = dvar, i.e. d(sig) = dvar / (2 sig)."""
    return anf.diff(obj, ("sym", "mu")) * DMU + anf.diff(obj, ("sym", "sig")) * DVAR.div(2 * SIG)


def run(prog, tier):
    anf.reset()
    obs, info = [], []
    env_ref = {"mu": MU, "sig": SIG, "mu_max": MUMAX, "kappa": R.sym("self.kappa")}
    Z = (MU - MUMAX).div(SIG)
    EI_ref = guard(lambda: ref_eval(
        "sig*(((mu-mu_max)/sig)*0.5*(1+erf(((mu-mu_max)/sig)/sqrt(2))) + exp(-0.5*((mu-mu_max)/sig)**2)/sqrt(2*pi))", env_ref))
    refs = {
        "ExpectedImprovement": (EI_ref, -anf.log_(EI_ref)),
        "UpperConfidenceBound": (MU + R.sym("self.kappa") * SIG, -(MU + R.sym("self.kappa") * SIG)),
        "MaxVariance": (SIG * SIG, -(SIG * SIG)),
    }
    # the incumbent every acquisition class measures improvement against is the largest observed value: wherever mu_max is set
    # (base class or an override), it is max(gp.y) - nothing is added to it
    inc_bad, inc_n = [], 0
    for ci_ in [prog.cls("AcquisitionFunction")] + prog.subclasses("AcquisitionFunction"):
        for mname_, fn_ in ci_.methods.items():
            rz_ = Resolver(fn_, prog, ci_.module, ci_)
            for st_ in ast.walk(fn_):
                if isinstance(st_, (ast.Assign, ast.AugAssign)) and U(st_.targets[0] if isinstance(st_, ast.Assign) else st_.target) == "self.mu_max":
                    inc_n += 1
                    t_ = rz_.term(st_.value, st_) if isinstance(st_, ast.Assign) else None
                    gname = fn_.args.args[1].arg if len(fn_.args.args) > 1 else "gp"
                    if t_ is None or str(U(t_)) not in (f"{gname}.y.max()", f"max({gname}.y)", "self.gp.y.max()", "max(self.gp.y)", f"amax({gname}.y)",
                                                          f"np.max({gname}.y)", f"numpy.max({gname}.y)", f"np.amax({gname}.y)", "np.max(self.gp.y)",
                                                          f"{gname}.y[{gname}.y.argmax()]", f"{gname}.y[argmax({gname}.y)]"):
                        inc_bad.append(f"{ci_.name}.{mname_} line {st_.lineno}: `{U(st_)[:80]}`")
    obs.append(struct_ob("refit-order", f"{prog.cls('AcquisitionFunction').module.name}.AcquisitionFunction[incumbent]", not inc_bad and inc_n > 0,
                         "mu_max must be the maximum of the regressor's data wherever it is set: " + "; ".join(inc_bad[:2]), ACQ,
                         prog.cls("AcquisitionFunction").node.lineno, tier="F"))
    # the far-tail arm exists because the density underflows there: no logarithm is taken of a product that has the normal density (or an
    # exponential) as a factor - log(H * pdf(Z) * sig) is -inf below Z of about -38.6 where log(H) + ln_pdf(Z) + log(sig) is finite
    from .. import lints as _lints
    dens_methods = set()
    for ci_ in [prog.cls("AcquisitionFunction")] + prog.subclasses("AcquisitionFunction"):
        for mname_, fn_ in ci_.methods.items():
            rt_ = Resolver(fn_, prog, ci_.module, ci_).return_terms()
            if len(rt_) == 1 and any(isinstance(x, ast.Call) and U(x.func) == "exp" for x in ast.walk(rt_[0])) \
                    and not any(isinstance(x, ast.Call) and U(x.func) in ("log", "erf", "erfcx") for x in ast.walk(rt_[0])):
                dens_methods.add(mname_)
    under_ = []
    for ci_ in [prog.cls("AcquisitionFunction")] + prog.subclasses("AcquisitionFunction"):
        for mname_, fn_ in ci_.methods.items():
            for st_ in ast.walk(fn_):
                if isinstance(st_, (ast.Assign, ast.Return, ast.AugAssign)) and getattr(st_, "value", None) is not None:
                    for h_ in _lints.log_of_vanishing_product(st_.value, (), ("exp", "exp2") + tuple(dens_methods)):
                        under_.append(f"{ci_.name}.{mname_} line {st_.lineno}: `{U(h_)[:70]}`")
    obs.append(struct_ob("value-form", f"{prog.cls('AcquisitionFunction').module.name}[no-log-of-underflowing-product]", not under_,
                         "the logarithm of a product with a density factor: " + "; ".join(under_[:2]) + " - the factor underflows to 0 in the far "
                         "tail and the objective is inf where its sibling form is finite", ACQ, prog.cls("AcquisitionFunction").node.lineno, tier="F"))
    # every acquisition value is a function of the regressor's prediction AT the query point: self.gp(..) and
    # self.gp.spatial_derivatives(..) receive the method's own point argument, untouched
    arg_bad, arg_n = [], 0
    for ci_ in [prog.cls("AcquisitionFunction")] + prog.subclasses("AcquisitionFunction"):
        for mname_, fn_ in ci_.methods.items():
            if len(fn_.args.args) < 2:
                continue
            xp_ = fn_.args.args[1].arg
            rz_ = Resolver(fn_, prog, ci_.module, ci_)
            for cl_ in ast.walk(fn_):
                if isinstance(cl_, ast.Call) and U(cl_.func) in ("self.gp", "self.gp.spatial_derivatives", "self.gp.gradient", "self.gp.__call__") and cl_.args:
                    arg_n += 1
                    t_ = rz_.term(cl_.args[0], rz_.stmt_of(cl_))
                    if not (isinstance(t_, ast.Name) and t_.id == xp_):
                        arg_bad.append(f"{ci_.name}.{mname_} line {cl_.lineno}: `{U(cl_)[:70]}` (argument `{U(t_)[:50]}`)")
    obs.append(struct_ob("value-form", f"{prog.cls('AcquisitionFunction').module.name}[predictor-argument]", not arg_bad and arg_n > 0,
                         "the regressor is queried at the point the acquisition function was given: " + "; ".join(arg_bad[:2]), ACQ,
                         prog.cls("AcquisitionFunction").node.lineno, tier="F"))
    for ci in prog.subclasses("AcquisitionFunction"):
        if ci.name not in refs:
            info.append(f"C18 sweep: acquisition class {ci.name} has no reference in the rule table; not checked")
            continue
        val_ref, obj_ref = refs[ci.name]
        c, call = prog.method(ci.name, "__call__")
        c2, of = prog.method(ci.name, "opt_func")
        c3, og = prog.method(ci.name, "opt_func_gradient")
        for m_ in (call, of, og):
            _orient_tail(m_)
        has_branch = any(is_tail_switch(n) for n in ast.walk(call))
        # the erfcx form is only finite for non-positive Z: erfcx(-Z/sqrt 2) overflows as Z -> +inf
        for m_ in (call, of, og):
            for n in ast.walk(m_):
                if is_tail_switch(n):
                    t = n.test
                    okg = (isinstance(t, ast.Compare) and len(t.ops) == 1 and isinstance(t.ops[0], (ast.Lt, ast.LtE))
                           and U(t.left) == "Z" and _neg_literal(t.comparators[0]))
                    if not okg and isinstance(t, ast.UnaryOp) and isinstance(t.op, ast.Not) and isinstance(t.operand, ast.Compare) \
                            and len(t.operand.ops) == 1 and isinstance(t.operand.ops[0], (ast.GtE, ast.Gt)):
                        # `not (Z >= c)`: the tail arm taken exactly when Z < c (and for a NaN, which is NaN on either arm)
                        okg = U(t.operand.left) == "Z" and _neg_literal(t.operand.comparators[0])
                    obs.append(struct_ob("tail-guard", qual(c, m_), okg,
                                         f"the erfcx-based far-tail arm must be guarded by `Z < c` with -6 <= c <= 0 (erfcx(-Z/sqrt 2) overflows "
                                         f"for large positive Z; the erf-based ordinary arm has lost its digits below Z of about -6: either way "
                                         f"the value would not be EI there); guard is `{U(t)}`",
                                         ACQ, n.lineno))
        branches = [("orelse", "main"), ("body", "far-tail")] if has_branch else [("orelse", "")]
        for br, label in branches:
            tag = f"[{label}]" if label else ""
            v = evaluate(prog, ci, call, br)
            obs.append(formula_ob("value-form", qual(c, call) + tag, v, val_ref, ACQ, call.lineno,
                                  what=f"{ci.name} value" + (f" ({label} branch)" if label else "")))
            for test_, line_, xv in list(EXTRA):
                okx = isinstance(xv, R) and xv.eq(val_ref)
                obs.append(struct_ob("value-form", qual(c, call) + tag + f"[return@{line_}]", okx,
                                     f"under `{test_}` the function returns `{xv}` instead of the acquisition value: the value is wrong "
                                     f"wherever that test holds", ACQ, line_, tier="F"))
            o = evaluate(prog, ci, of, br)
            obs.append(formula_ob("objective-siblings", qual(c2, of) + tag, o, obj_ref, ACQ, of.lineno,
                                  what="optimiser objective = " + ("-log(EI)" if ci.name == "ExpectedImprovement" else "-value")))
            g = evaluate(prog, ci, og, br)
            if not (isinstance(g, TupleV) and len(g.items) == 2):
                obs.append(struct_ob("gradient-is-derivative", qual(c3, og) + tag, False,
                                     "opt_func_gradient must return (objective, gradient)", ACQ, og.lineno))
                continue
            gval, ggrad = g.items
            if ci.name == "MaxVariance":
                # returns the whole sig array squared; the objective is its single element
                gval = anf.subst(gval, {("sym", "SIG"): SIG})
            obs.append(formula_ob("objective-siblings", qual(c3, og) + "[value]" + tag, gval, obj_ref, ACQ, og.lineno,
                                  what="value returned by opt_func_gradient = the optimiser objective"))
            obs.append(formula_ob("gradient-is-derivative", qual(c3, og) + tag, ggrad, total_derivative(obj_ref), ACQ, og.lineno,
                                  what="gradient returned = d(objective) with d(mu)=dmu, d(sig^2)=dvar"))

    # ---------------------------------------------------------------- bounds
    go = prog.cls("GpOptimiser")
    c, de = prog.method("GpOptimiser", "diff_evo")
    calls = [n for n in ast.walk(de) if isinstance(n, ast.Call) and U(n.func) == "differential_evolution"]
    ok = len(calls) == 1 and (lambda b: b is not None and U(b) == "self.bounds")(get_kw(calls[0], "bounds", 1)) \
        and U(get_kw(calls[0], "func", 0)) == "self.acquisition.opt_func"
    obs.append(struct_ob("bounds-passed", qual(c, de), ok,
                         f"differential_evolution must minimise the acquisition objective over self.bounds: "
                         f"`{U(calls[0]) if calls else None}`", OPT, de.lineno))
    c, lb = prog.method("GpOptimiser", "launch_bfgs")
    calls = [n for n in ast.walk(lb) if isinstance(n, ast.Call) and U(n.func) == "fmin_l_bfgs_b"]
    ok = len(calls) == 1 and (lambda b: b is not None and U(b) == "self.bounds")(get_kw(calls[0], "bounds")) \
        and U(get_kw(calls[0], "func", 0)) == "self.acquisition.opt_func_gradient" \
        and (lambda a: a is None or U(a) in ("False", "0"))(get_kw(calls[0], "approx_grad"))      # absent = scipy's default, False
    obs.append(struct_ob("bounds-passed", qual(c, lb), ok,
                         f"L-BFGS-B must minimise opt_func_gradient (analytic gradient) with bounds=self.bounds: "
                         f"`{U(calls[0]) if calls else None}`", OPT, lb.lineno))
    # the proposal handed to the caller IS the maximiser the bounded optimiser returned: nothing moves it afterwards
    cpe, pe = prog.method("GpOptimiser", "propose_evaluation")
    rpe = Resolver(pe, prog, cpe.module, cpe)
    moved = []
    for st_ in ast.walk(pe):
        if isinstance(st_, (ast.Assign, ast.AugAssign)):
            tg_ = st_.targets[0] if isinstance(st_, ast.Assign) else st_.target
            rets_pe = [U(r_.value) for r_ in ast.walk(pe) if isinstance(r_, ast.Return) and isinstance(r_.value, ast.Name)]
            if isinstance(tg_, ast.Name) and tg_.id in rets_pe:
                v_ = st_.value
                arith = isinstance(st_, ast.AugAssign) or any(isinstance(x, ast.BinOp) for x in ast.walk(v_)) \
                    or any(isinstance(x, ast.Call) and U(x.func).split(".")[-1] in ("clip", "round", "around", "floor", "ceil", "minimum", "maximum")
                           for x in ast.walk(v_))
                if arith:
                    moved.append((st_.lineno, U(st_)[:90]))
    obs.append(struct_ob("bounds-passed", qual(cpe, pe), not moved,
                         "the proposed evaluation must be the optimiser's solution (found inside the bounds) handed on unchanged: "
                         + "; ".join(f"line {l}: `{t}`" for l, t in moved[:2]), OPT, moved[0][0] if moved else pe.lineno, tier="E"))
    ac = prog.cls("AcquisitionFunction")
    sp = ac.methods.get("starting_positions")
    rs = Resolver(sp, prog, ac.module, ac)
    bpar = sp.args.args[1].arg
    why, box = [], {}
    rets = rs.returns()
    out_list = U(rets[0].value) if len(rets) == 1 else None
    apps = [(n, rs.stmt_of(n)) for n in ast.walk(sp) if isinstance(n, ast.Call) and U(n.func) == f"{out_list}.append" and n.args]
    if not apps:
        why.append("no start point is collected")
    for call, st_ in apps:
        t = rs.term(call.args[0], st_)
        b = None
        for pt in ("sorted([minimum(_U, maximum(_L, _e)) for _v in _], key=self.opt_func)[0]",
                   "min([minimum(_U, maximum(_L, _e)) for _v in _], key=self.opt_func)",
                   "sorted([maximum(_L, minimum(_U, _e)) for _v in _], key=self.opt_func)[0]",
                   "sorted([clip(_e, _L, _U) for _v in _], key=self.opt_func)[0]",
                   "_L + (_U - _L) * random(size=_n)", "_L + (_U - _L) * random(_n)"):
            b = pmatch(t, pt)
            if b is not None:
                break
        if b is None:
            why.append(f"start `{U(t)[:200]}` is neither clamped into the box nor drawn as lwr + (upr - lwr) u")
            continue
        box.setdefault((b["_L"], b["_U"]), 0)
        box[(b["_L"], b["_U"])] += 1
    if len(box) > 1:
        why.append("the start points do not all use the same box")
    for (lo, hi) in box:
        if bpar not in lo or bpar not in hi:
            why.append("the box is not derived from the bounds argument")
        # inward shrink: lower edge moved up, upper edge moved down, by a non-negative multiple of the width
        base = []
        for j_, nm_ in ((0, "LO"), (1, "HI")):
            base += [(f"[array([_k[_i] for _k in {bpar}], dtype=float) for _i in [0, 1]][{j_}]", nm_),
                     (f"[array([_k[_i] for _k in {bpar}]) for _i in [0, 1]][{j_}]", nm_),
                     (f"array([_k[{j_}] for _k in {bpar}], dtype=float)", nm_), (f"array([_k[{j_}] for _k in {bpar}])", nm_),
                     (f"array({bpar}, dtype=float).T[{j_}]", nm_), (f"array({bpar}).T[{j_}]", nm_),
                     (f"asarray({bpar}, dtype=float).T[{j_}]", nm_), (f"array({bpar}, dtype=float)[:, {j_}]", nm_)]
        ab_lo, _ = abstract(ast.parse(lo, mode="eval").body, base)
        ab_hi, _ = abstract(ast.parse(hi, mode="eval").body, base)
        try:
            LO, HI = R.sym("LO"), R.sym("HI")
            c_lo = anf.proportional(anf_of(ab_lo) - LO, HI - LO)
            c_hi = anf.proportional(HI - anf_of(ab_hi), HI - LO)
            if c_lo is None or c_hi is None or not (0 <= c_lo < Fraction(1, 2)) or not (0 <= c_hi < Fraction(1, 2)):
                why.append(f"the box edges `{lo[:80]}` / `{hi[:80]}` are not the bounds moved inwards by a fraction of the width")
        except Unsupported:
            why.append(f"the box edges `{lo[:80]}` / `{hi[:80]}` are outside the algebra")
    obs.append(struct_ob("bounds-passed", qual(ac, sp), not why,
                         "start points must be clamped into / drawn from the (inward-shrunk) bounds box and the best local sample "
                         "by the objective must be kept: " + "; ".join(why), ACQ, sp.lineno))
    c, ms = prog.method("GpOptimiser", "multistart_bfgs")
    rm = Resolver(ms, prog, c.module, c)
    starts = set()
    for n in ast.walk(ms):
        if isinstance(n, ast.ListComp) and pmatch(n, "[self.launch_bfgs(_x) for _x in _S]") is not None:
            starts.add(U(rm.term(n.generators[0].iter, rm.stmt_of(n))))
        if isinstance(n, ast.Call) and isinstance(n.func, ast.Attribute) and n.func.attr == "map" and len(n.args) == 2 \
                and U(n.args[0]) == "self.launch_bfgs":
            starts.add(U(rm.term(n.args[1], rm.stmt_of(n))))
    rets = rm.return_terms()
    okr = len(rets) == 1 and isinstance(rets[0], ast.Tuple) and len(rets[0].elts) == 2 and any(
        pmatch(rets[0].elts[0], pt) is not None for pt in ("sorted(_r, key=lambda z: float(z[1]))[0][0]", "sorted(_r, key=lambda z: z[1])[0][0]",
                                                           "min(_r, key=lambda z: float(z[1]))[0]", "min(_r, key=lambda z: z[1])[0]"))
    ok = starts == {"self.acquisition.starting_positions(self.bounds)"} and okr
    obs.append(struct_ob("bounds-passed", qual(c, ms), ok,
                         f"multi-start must start from starting_positions(self.bounds) and keep the lowest objective: starts {sorted(starts)}; "
                         f"returned `{U(rets[0])[:160] if rets else None}`", OPT, ms.lineno))

    # ---------------------------------------------------------------- ownership
    own = Ownership(prog)
    obs.extend([o for o in ownership_obligations(prog, own, go) if o.slots.get("param") in ("x", "y", "y_err", "bounds")])
    c, ae = prog.method("GpOptimiser", "add_evaluation")
    summ = own.summary(go.module, go, ae)
    params = [a.arg for a in ae.args.args[1:]]
    for i, p in enumerate(params):
        hits = summ.mutates_params.get(i, [])
        obs.append(struct_ob("ownership", qual(c, ae), not hits,
                             f"the caller's `{p}` is mutated in place: {hits[:2]}", OPT, hits[0][0] if hits else ae.lineno,
                             detail=f"param {p}"))

    # every method of the acquisition classes and the optimiser leaves its array arguments alone
    for cls_ in [prog.cls("AcquisitionFunction")] + prog.subclasses("AcquisitionFunction") + [go]:
        for mname, mfn in cls_.methods.items():
            if mname in ("__init__", "add_evaluation") and cls_ is go:
                continue
            sm = own.summary(cls_.module, cls_, mfn)
            mparams = [a.arg for a in mfn.args.args[1:]]
            for i, hits in sm.mutates_params.items():
                p_ = mparams[i] if i < len(mparams) else f"#{i}"
                obs.append(struct_ob("ownership", qual(cls_, mfn), False,
                                     f"the caller's `{p_}` is mutated in place: {hits[:2]} (an array argument such as the search bounds "
                                     f"would change between calls)", cls_.module.relpath, hits[0][0], detail=f"param {p_}"))
    sp_sum = own.summary(ac.module, ac, sp)
    obs.append(struct_ob("ownership", qual(ac, sp) + "[bounds]", not sp_sum.mutates_params,
                         f"starting_positions mutates its bounds argument: {sp_sum.mutates_params}", ACQ, sp.lineno, detail="param bounds"))

    # ---------------------------------------------------------------- refit order
    body = ae.body
    def line_of(pred):
        # position in the statement list (inlined helper code shares line numbers, so positions order the statements)
        for k_, st in enumerate(body):
            if pred(st):
                return k_ + 1
        return None
    ra = Resolver(ae, prog, c.module, c)
    nx, ny = ae.args.args[1].arg, ae.args.args[2].arg
    l_x = line_of(lambda s_: isinstance(s_, ast.Assign) and U(s_.targets[0]) == "self.x"
                  and any(pmatch(s_.value, pt_) is not None for pt_ in ("append(self.x, _n, axis=0)", "append(self.x, _n, 0)", "vstack((self.x, _n))", "vstack([self.x, _n])",
                                                                        "concatenate((self.x, _n))", "concatenate([self.x, _n])", "row_stack((self.x, _n))"))
                  and nx in U(ra.term(s_.value, s_)))
    l_y = line_of(lambda s_: isinstance(s_, ast.Assign) and U(s_.targets[0]) == "self.y"
                  and any(pmatch(s_.value, pt_) is not None for pt_ in ("append(self.y, _n)", "concatenate((self.y, _n))", "concatenate([self.y, _n])",
                                                                        "hstack((self.y, _n))", "hstack([self.y, _n])"))
                  and ny in U(ra.term(s_.value, s_)))
    gp_st = [s_ for s_ in body if isinstance(s_, ast.Assign) and U(s_.targets[0]) == "self.gp"]
    l_up = line_of(lambda s_: isinstance(s_, ast.Expr) and pmatch(s_.value, "self.acquisition.update_gp(self.gp)") is not None)
    ok, why = False, ""
    if l_x and l_y and len(gp_st) == 1 and l_up:
        call = gp_st[0].value
        kw = {k.arg: U(k.value) for k in call.keywords}
        if isinstance(call, ast.Call) and U(call.func) == "GpRegressor":
            for i_, nm_ in enumerate(("x", "y", "y_err")):
                if i_ < len(call.args):
                    kw.setdefault(nm_, U(call.args[i_]))
        ok = (isinstance(call, ast.Call) and U(call.func) == "GpRegressor" and kw.get("x") == "self.x" and kw.get("y") == "self.y"
              and kw.get("y_err") == "self.y_err" and max(l_x, l_y) < body.index(gp_st[0]) + 1 < l_up)
        why = f"append lines {l_x},{l_y}; refit line {gp_st[0].lineno} with {kw}; update line {l_up}"
    else:
        why = f"append lines {l_x},{l_y}; refits {len(gp_st)}; update line {l_up}"
    # between the appends and the refit nothing else stores into the data arrays (a de-duplication, a sort, a trim drops or
    # re-pairs evaluations)
    for st_ in body:
        for x_ in ast.walk(st_):
            if isinstance(x_, (ast.Assign, ast.AugAssign)):
                for t_ in (x_.targets if isinstance(x_, ast.Assign) else [x_.target]):
                    for el_ in (t_.elts if isinstance(t_, ast.Tuple) else [t_]):
                        b_ = el_
                        while isinstance(b_, ast.Subscript):
                            b_ = b_.value
                        if U(b_) in ("self.x", "self.y", "self.y_err"):
                            v_ = x_.value if isinstance(x_, ast.Assign) else None
                            is_app = isinstance(v_, ast.Call) and U(v_.func) in ("append", "vstack", "hstack", "concatenate", "row_stack") \
                                and isinstance(el_, ast.Attribute) and not isinstance(t_, ast.Tuple)
                            if not is_app:
                                ok = False
                                why += f"; line {x_.lineno}: `{U(x_)[:70]}` stores into the data arrays otherwise than by appending the new evaluation"
    # every evaluation handed in becomes part of the data: nothing returns before the update (an early exit for a point "already
    # known" drops a repeated / nearby evaluation and leaves the incumbent as it was)
    if l_up:
        early_ = [x for st_ in body[:l_up - 1] for x in ast.walk(st_) if isinstance(x, ast.Return)]
        if early_:
            ok = False
            why += f"; line {early_[0].lineno}: `{U(early_[0])}` leaves add_evaluation before the new evaluation is stored"
    # the three data arrays stay row-aligned: each is extended AT ITS END with the new evaluation's entry (old first, new second)
    misordered = []
    for st_ in ast.walk(ae):
        if isinstance(st_, ast.Assign) and len(st_.targets) == 1 and U(st_.targets[0]) in ("self.x", "self.y", "self.y_err") \
                and isinstance(st_.value, ast.Call) and U(st_.value.func) in ("append", "concatenate", "hstack", "vstack"):
            a_ = st_.value.args[0].elts if len(st_.value.args) == 1 and isinstance(st_.value.args[0], (ast.Tuple, ast.List)) else st_.value.args
            if len(a_) >= 2 and ast.unparse(a_[0]) != ast.unparse(st_.targets[0]):
                misordered.append((st_.lineno, ast.unparse(st_)[:80]))
    if misordered:
        ok = False
        why += "; " + "; ".join(f"line {l}: `{t}` does not put the stored entries first" for l, t in misordered[:2]) + \
               " - the arrays are no longer aligned row by row, so the refit pairs values with other points' errors"
    obs.append(struct_ob("refit-order", qual(c, ae), ok,
                         "add_evaluation must append the new data, refit the regressor on the appended arrays, then update the "
                         "acquisition with the new regressor: " + why, OPT, ae.lineno))
    ug = ac.methods.get("update_gp")
    g = ug.args.args[1].arg
    ru = Resolver(ug, prog, ac.module, ac, inline_self=True)
    at_ = {U(s_.targets[0]): ru.term(s_.value, s_) for s_ in ug.body if isinstance(s_, ast.Assign) and len(s_.targets) == 1}
    oku = (U(at_.get("self.gp")) == g if "self.gp" in at_ else False) and "self.mu_max" in at_ \
        and any(pmatch(at_["self.mu_max"], pt) is not None for pt in (f"{g}.y.max()", f"max({g}.y)", f"amax({g}.y)", f"{g}.y[{g}.y.argmax()]",
                                                                     f"np.max({g}.y)", f"numpy.max({g}.y)", f"np.amax({g}.y)"))
    obs.append(struct_ob("refit-order", qual(ac, ug), oku,
                         f"update_gp must install the regressor and set the incumbent to the maximum of its data: "
                         f"{ {k: str(U(v)) for k, v in at_.items()} }", ACQ, ug.lineno))

    obs.extend(default_instance_obligations(prog, "components-not-shared", [('GpOptimiser', '__init__')]))

    obs.extend(dtype_hazard_obligations(prog, "float-arithmetic", ['inference/gp/acquisition.py', 'inference/gp/optimisation.py']))
    from .common import call_order_obligations
    obs.extend(call_order_obligations(prog, "arguments-in-order", ['inference/gp/acquisition.py', 'inference/gp/optimisation.py']))
    from .common import identity_memo_obligations
    obs.extend(identity_memo_obligations(prog, "result-keyed-on-values", ['inference/gp/acquisition.py', 'inference/gp/optimisation.py']))

    obs.extend(memo_obligations(prog, "cache-key", [prog.cls("AcquisitionFunction")] + prog.subclasses("AcquisitionFunction") + [prog.cls("GpOptimiser")]))

    meta = {
        "explanation": "Each acquisition method is expanded (both arms of the Z < -3 switch) to a normal form over mu, sigma and "
                       "compared with the reference sigma(Z Phi + phi) (the erfcx identity proves the tail arm equal), -log EI, "
                       "mu + kappa sigma, sigma^2; returned gradients must equal the symbolic total derivative under d(mu)=dmu, "
                       "d(sigma^2)=dvar; optimiser calls, start-point clamping, ownership of the caller's arrays and the "
                       "append -> refit -> update order are checked structurally.",
        "assumptions": ["scipy erf/erfcx compute the named functions; the optimisers honour the bounds they are given",
                        "GpRegressor returns (mean, standard deviation) and (d mean, d variance) as documented (C02/C16)"],
        "info": info,
    }
    return obs, FLOORS, meta
