"""C18 - acquisition functions compute what they define; proposals respect bounds (tier F + S).

Decides: both EI branches are the same function and equal sigma (Z Phi + phi); UCB and
max-variance forms; opt_func is -log EI / -value; opt_func_gradient returns that objective
and its derivative under d(mu) = dmu, d(sigma^2) = dvar; both optimisers receive the bounds
and start points are clamped into them; the caller's arrays are not mutated; the refit uses
the appended data and the acquisition is updated after the refit.
Does not decide: that the scipy optimisers stay within the bounds they are given.
"""
from __future__ import annotations
import ast
from fractions import Fraction
from ..model import qual, get_kw
from ..own import Ownership
from ..symx import Expander, TupleV, ref_eval
from ..anf import R
from .. import anf
from .common import default_instance_obligations, struct_ob, formula_ob, guard, last_return, U
from .C03 import ownership_obligations
from ..report import AnalysisError

ACQ = "inference/gp/acquisition.py"
OPT = "inference/gp/optimisation.py"
FLOORS = {"components-not-shared": 1, "value-form": 4, "objective-siblings": 5, "gradient-is-derivative": 4, "bounds-passed": 3,
          "ownership": 5, "refit-order": 2,
          "tail-guard": 3}

MU, SIG, DMU, DVAR, MUMAX = (R.sym("mu"), R.sym("sig"), R.sym("dmu"), R.sym("dvar"), R.sym("self.mu_max"))


def acq_expander(prog, ci, branch):
    ex = Expander(prog, ci.module, ci)
    ex.opaque_self_attrs = {"mu_max", "gp", "kappa"}

    def hook(e, node, env):
        f = U(node.func)
        if f == "self.gp":
            return TupleV([R.sym("MU"), R.sym("SIG")])
        if f == "self.gp.spatial_derivatives":
            return TupleV([DMU, DVAR])
        return NotImplemented
    ex.call_hook = hook

    def on_if(node, env):
        if is_tail_switch(node):
            return branch
        return "skip"
    ex.on_if = on_if
    return ex


def is_tail_switch(node):
    """The two-arm switch whose first arm uses the erfcx-based ratio (the far-tail form)."""
    return isinstance(node, ast.If) and bool(node.orelse) and any(
        isinstance(n, ast.Call) and U(n.func) == "self.cdf_pdf_ratio"
        for st in node.body for n in ast.walk(st))


def evaluate(prog, ci, fn, branch):
    ex = acq_expander(prog, ci, branch)
    env = {fn.args.args[1].arg: R.sym("x")}
    res = guard(lambda: ex.run(fn.body, env))
    sub = {("sym", "MU[0]"): MU, ("sym", "SIG[0]"): SIG, ("sym", "MU"): MU, ("sym", "SIG"): SIG}

    def fix(v):
        return anf.subst(v, sub) if isinstance(v, R) else TupleV([fix(x) for x in v.items])
    return fix(res)


def _neg_literal(node):
    try:
        v = ast.literal_eval(node)
    except Exception:
        return False
    return isinstance(v, (int, float)) and v <= 0


def total_derivative(obj):
    """d obj / dx with d(mu) = dmu and d(sig^2) = dvar, i.e. d(sig) = dvar / (2 sig)."""
    return anf.diff(obj, ("sym", "mu")) * DMU + anf.diff(obj, ("sym", "sig")) * DVAR.div(2 * SIG)


def run(prog, tier):
    anf.reset()
    obs, info = [], []
    env_ref = {"mu": MU, "sig": SIG, "mu_max": MUMAX, "kappa": R.sym("self.kappa")}
    Z = (MU - MUMAX).div(SIG)
    EI_ref = guard(lambda: ref_eval(
        "sig*(((mu-mu_max)/sig)*0.5*(1+erf(((mu-mu_max)/sig)/sqrt(2))) + exp(-0.5*((mu-mu_max)/sig)**2)/sqrt(2*pi))", env_ref))
    refs = {
        "ExpectedImprovement": (EI_ref, -anf.log_(EI_ref)),
        "UpperConfidenceBound": (MU + R.sym("self.kappa") * SIG, -(MU + R.sym("self.kappa") * SIG)),
        "MaxVariance": (SIG * SIG, -(SIG * SIG)),
    }
    for ci in prog.subclasses("AcquisitionFunction"):
        if ci.name not in refs:
            info.append(f"C18 sweep: acquisition class {ci.name} has no reference in the rule table; not checked")
            continue
        val_ref, obj_ref = refs[ci.name]
        c, call = prog.method(ci.name, "__call__")
        c2, of = prog.method(ci.name, "opt_func")
        c3, og = prog.method(ci.name, "opt_func_gradient")
        has_branch = any(is_tail_switch(n) for n in ast.walk(call))
        # the erfcx form is only finite for non-positive Z: erfcx(-Z/sqrt 2) overflows as Z -> +inf
        for m_ in (call, of, og):
            for n in ast.walk(m_):
                if is_tail_switch(n):
                    t = n.test
                    okg = (isinstance(t, ast.Compare) and len(t.ops) == 1 and isinstance(t.ops[0], (ast.Lt, ast.LtE))
                           and U(t.left) == "Z" and _neg_literal(t.comparators[0]))
                    obs.append(struct_ob("tail-guard", qual(c, m_), okg,
                                         f"the erfcx-based far-tail arm must be guarded by `Z < c` with c <= 0 (erfcx(-Z/sqrt 2) overflows "
                                         f"for large positive Z, so the value would not be EI there); guard is `{U(t)}`",
                                         ACQ, n.lineno))
        branches = [("orelse", "main"), ("body", "far-tail")] if has_branch else [("orelse", "")]
        for br, label in branches:
            tag = f"[{label}]" if label else ""
            v = evaluate(prog, ci, call, br)
            obs.append(formula_ob("value-form", qual(c, call) + tag, v, val_ref, ACQ, call.lineno,
                                  what=f"{ci.name} value" + (f" ({label} branch)" if label else "")))
            o = evaluate(prog, ci, of, br)
            obs.append(formula_ob("objective-siblings", qual(c2, of) + tag, o, obj_ref, ACQ, of.lineno,
                                  what="optimiser objective = " + ("-log(EI)" if ci.name == "ExpectedImprovement" else "-value")))
            g = evaluate(prog, ci, og, br)
            if not (isinstance(g, TupleV) and len(g.items) == 2):
                obs.append(struct_ob("gradient-is-derivative", qual(c3, og) + tag, False,
                                     "opt_func_gradient must return (objective, gradient)", ACQ, og.lineno))
                continue
            gval, ggrad = g.items
            if ci.name == "MaxVariance":
                # returns the whole sig array squared; the objective is its single element
                gval = anf.subst(gval, {("sym", "SIG"): SIG})
            obs.append(formula_ob("objective-siblings", qual(c3, og) + "[value]" + tag, gval, obj_ref, ACQ, og.lineno,
                                  what="value returned by opt_func_gradient = the optimiser objective"))
            obs.append(formula_ob("gradient-is-derivative", qual(c3, og) + tag, ggrad, total_derivative(obj_ref), ACQ, og.lineno,
                                  what="gradient returned = d(objective) with d(mu)=dmu, d(sig^2)=dvar"))

    # ---------------------------------------------------------------- bounds
    go = prog.cls("GpOptimiser")
    c, de = prog.method("GpOptimiser", "diff_evo")
    calls = [n for n in ast.walk(de) if isinstance(n, ast.Call) and U(n.func) == "differential_evolution"]
    ok = len(calls) == 1 and (lambda b: b is not None and U(b) == "self.bounds")(get_kw(calls[0], "bounds", 1)) \
        and U(get_kw(calls[0], "func", 0)) == "self.acquisition.opt_func"
    obs.append(struct_ob("bounds-passed", qual(c, de), ok,
                         f"differential_evolution must minimise the acquisition objective over self.bounds: "
                         f"`{U(calls[0]) if calls else None}`", OPT, de.lineno))
    c, lb = prog.method("GpOptimiser", "launch_bfgs")
    calls = [n for n in ast.walk(lb) if isinstance(n, ast.Call) and U(n.func) == "fmin_l_bfgs_b"]
    ok = len(calls) == 1 and (lambda b: b is not None and U(b) == "self.bounds")(get_kw(calls[0], "bounds")) \
        and U(get_kw(calls[0], "func", 0)) == "self.acquisition.opt_func_gradient" \
        and (lambda a: a is not None and U(a) == "False")(get_kw(calls[0], "approx_grad"))
    obs.append(struct_ob("bounds-passed", qual(c, lb), ok,
                         f"L-BFGS-B must minimise opt_func_gradient (analytic gradient) with bounds=self.bounds: "
                         f"`{U(calls[0]) if calls else None}`", OPT, lb.lineno))
    ac = prog.cls("AcquisitionFunction")
    sp = ac.methods.get("starting_positions")
    txt = U(sp)
    ok = ("lwr += widths * 0.01" in txt and "upr -= widths * 0.01" in txt and "widths = upr - lwr" in txt
          and "samples = [minimum(upr, maximum(lwr, s)) for s in samples]" in txt
          and "start = lwr + (upr - lwr) * random(size=L)" in txt
          and "samples = sorted(samples, key=self.opt_func)" in txt and "starts.append(samples[0])" in txt)
    obs.append(struct_ob("bounds-passed", qual(ac, sp), ok,
                         "start points must be clamped into / drawn from the (inward-shrunk) bounds box and the best local sample "
                         "by the objective must be kept", ACQ, sp.lineno))
    c, ms = prog.method("GpOptimiser", "multistart_bfgs")
    txt = U(ms)
    ok = ("self.acquisition.starting_positions(self.bounds)" in txt and "sorted(results, key=lambda x: float(x[1]))[0]" in txt)
    obs.append(struct_ob("bounds-passed", qual(c, ms), ok,
                         "multi-start must start from starting_positions(self.bounds) and keep the lowest objective", OPT, ms.lineno))

    # ---------------------------------------------------------------- ownership
    own = Ownership(prog)
    obs.extend([o for o in ownership_obligations(prog, own, go) if o.slots.get("param") in ("x", "y", "y_err", "bounds")])
    c, ae = prog.method("GpOptimiser", "add_evaluation")
    summ = own.summary(go.module, go, ae)
    params = [a.arg for a in ae.args.args[1:]]
    for i, p in enumerate(params):
        hits = summ.mutates_params.get(i, [])
        obs.append(struct_ob("ownership", qual(c, ae), not hits,
                             f"the caller's `{p}` is mutated in place: {hits[:2]}", OPT, hits[0][0] if hits else ae.lineno,
                             detail=f"param {p}"))

    # every method of the acquisition classes and the optimiser leaves its array arguments alone
    for cls_ in [prog.cls("AcquisitionFunction")] + prog.subclasses("AcquisitionFunction") + [go]:
        for mname, mfn in cls_.methods.items():
            if mname in ("__init__", "add_evaluation") and cls_ is go:
                continue
            sm = own.summary(cls_.module, cls_, mfn)
            mparams = [a.arg for a in mfn.args.args[1:]]
            for i, hits in sm.mutates_params.items():
                p_ = mparams[i] if i < len(mparams) else f"#{i}"
                obs.append(struct_ob("ownership", qual(cls_, mfn), False,
                                     f"the caller's `{p_}` is mutated in place: {hits[:2]} (an array argument such as the search bounds "
                                     f"would change between calls)", cls_.module.relpath, hits[0][0], detail=f"param {p_}"))
    sp_sum = own.summary(ac.module, ac, sp)
    obs.append(struct_ob("ownership", qual(ac, sp) + "[bounds]", not sp_sum.mutates_params,
                         f"starting_positions mutates its bounds argument: {sp_sum.mutates_params}", ACQ, sp.lineno, detail="param bounds"))

    # ---------------------------------------------------------------- refit order
    body = ae.body
    def line_of(pred):
        for st in body:
            if pred(st):
                return st.lineno
        return None
    l_x = line_of(lambda s: isinstance(s, ast.Assign) and U(s) == "self.x = append(self.x, new_x, axis=0)")
    l_y = line_of(lambda s: isinstance(s, ast.Assign) and U(s) == "self.y = append(self.y, new_y)")
    gp_st = [s for s in body if isinstance(s, ast.Assign) and U(s.targets[0]) == "self.gp"]
    l_up = line_of(lambda s: isinstance(s, ast.Expr) and U(s.value) == "self.acquisition.update_gp(self.gp)")
    ok, why = False, ""
    if l_x and l_y and len(gp_st) == 1 and l_up:
        call = gp_st[0].value
        kw = {k.arg: U(k.value) for k in call.keywords}
        ok = (U(call.func) == "GpRegressor" and kw.get("x") == "self.x" and kw.get("y") == "self.y"
              and kw.get("y_err") == "self.y_err" and max(l_x, l_y) < gp_st[0].lineno < l_up)
        why = f"append lines {l_x},{l_y}; refit line {gp_st[0].lineno} with {kw}; update line {l_up}"
    obs.append(struct_ob("refit-order", qual(c, ae), ok,
                         "add_evaluation must append the new data, refit the regressor on the appended arrays, then update the "
                         "acquisition with the new regressor: " + why, OPT, ae.lineno))
    ug = ac.methods.get("update_gp")
    body_txt = [U(s) for s in ug.body]
    g = ug.args.args[1].arg
    obs.append(struct_ob("refit-order", qual(ac, ug), body_txt == [f"self.gp = {g}", f"self.mu_max = {g}.y.max()"],
                         f"update_gp must install the regressor and set the incumbent to the maximum of its data: {body_txt}",
                         ACQ, ug.lineno))

    obs.extend(default_instance_obligations(prog, "components-not-shared", [('GpOptimiser', '__init__')]))

    meta = {
        "explanation": "Each acquisition method is expanded (both arms of the Z < -3 switch) to a normal form over mu, sigma and "
                       "compared with the reference sigma(Z Phi + phi) (the erfcx identity proves the tail arm equal), -log EI, "
                       "mu + kappa sigma, sigma^2; returned gradients must equal the symbolic total derivative under d(mu)=dmu, "
                       "d(sigma^2)=dvar; optimiser calls, start-point clamping, ownership of the caller's arrays and the "
                       "append -> refit -> update order are checked structurally.",
        "assumptions": ["scipy erf/erfcx compute the named functions; the optimisers honour the bounds they are given",
                        "GpRegressor returns (mean, standard deviation) and (d mean, d variance) as documented (C02/C16)"],
        "info": info,
    }
    return obs, FLOORS, meta
