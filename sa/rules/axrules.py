"""Axis-order obligations (engine H, sa/axes.py) for the vectorised code of the GP regressor and of the kernels."""
from __future__ import annotations
import ast
from ..axes import Typer, Arr, Tup, Dim, ListOf, UNKNOWN, ONE, show
from ..model import qual
from ..report import AnalysisError
from .common import struct_ob, U

REG = "inference/gp/regression.py"
COV = "inference/gp/covariance.py"

GP_ATTRS = {"self.x": Arr(("N", "D")), "self.alpha": Arr(("N",)), "self.L": Arr(("N", "N")), "self.y": Arr(("N",)),
            "self.n_points": Dim("N"), "self.n_dimensions": Dim("D"), "self.K_xx": Arr(("N", "N")), "self.mu": Arr(("N",))}
# what each predictor hands back, axis by axis (P query points, D dimensions); length-one axes are ignored (squeeze)
GP_RETURNS = {"__call__": [("P",), ("P",)], "gradient": [("P", "D"), ("P", "D", "D")],
              "spatial_derivatives": [("P", "D"), ("P", "D")], "build_posterior": [("P",), ("P", "P")]}


def _gp_calls(t, node):
    f = U(node.func)
    if f == "self.process_points":
        return Arr(("P", "D"))
    if f == "self.cov" and len(node.args) == 3:
        a, b = t.ev(node.args[0]), t.ev(node.args[1])
        if isinstance(a, Arr) and isinstance(b, Arr) and len(a.axes) == 2 and len(b.axes) == 2:
            return Arr((a.axes[0], b.axes[0]))
        return UNKNOWN
    if f == "self.cov.gradient_terms" and node.args:
        q = t.ev(node.args[0])
        if isinstance(q, Arr) and len(q.axes) == 1:
            return Tup([Arr((q.axes[0], "N")), Arr((q.axes[0],))])
        return UNKNOWN
    if f == "self.mean.gradient" and node.args:
        q = t.ev(node.args[0])
        return Arr((q.axes[0],)) if isinstance(q, Arr) and len(q.axes) == 1 else UNKNOWN
    if f == "self.mean" and node.args:
        q = t.ev(node.args[0])
        if isinstance(q, Arr) and len(q.axes) == 2:
            return Arr((q.axes[0],))
        if isinstance(q, Arr) and len(q.axes) == 1:
            return "scalar"
        return UNKNOWN
    return NotImplemented


def _squeezed(v):
    return tuple(a for a in v.axes if a != ONE) if isinstance(v, Arr) else None


def gp_axis_obligations(prog, rule, mnames):
    """One obligation per predictor: no scrambling reshape / einsum / contraction on the way, and every returned array has the axes
    the predictor documents (mean per point, covariance per point x dimension x dimension, ...) whenever the typing reaches it."""
    out = []
    ci = prog.cls("GpRegressor")
    methods = {}
    for c in reversed(prog.mro(ci)):
        methods.update(c.methods)
    for m in mnames:
        c, fn = prog.find_method(ci, m)
        if fn is None:
            raise AnalysisError(f"anchor vanished: GpRegressor.{m}")
        t = Typer({}, _gp_calls, GP_ATTRS, fn.args.args[0].arg, {k: v for k, v in methods.items() if k not in ("process_points", m)})
        rets = t.run(fn.body)
        why = [f"line {ln}: `{txt}`: {msg}" for ln, txt, msg in t.problems]
        decided = 0
        for st, v in rets:
            items = v.items if isinstance(v, Tup) else [v]
            want = GP_RETURNS[m]
            if len(items) == 1 and len(want) == 2:
                want = want[:1]              # the mean-only path
            if len(items) != len(want):
                continue
            for k, (x, w) in enumerate(zip(items, want)):
                got = _squeezed(x)
                if got is None or any(a is None for a in got):
                    continue
                decided += 1
                if tuple(got) != tuple(w):
                    why.append(f"line {st.lineno}: returned array #{k + 1} has axes ({', '.join(map(show, got))}), documented ({', '.join(w)})")
        out.append(struct_ob(rule, qual(c, fn), not why, "; ".join(why[:2]), REG, fn.lineno,
                             slots={"expressions_typed": t.typed, "returned_arrays_decided": decided}, tier="F"))
    # positive example: the scramble must be seen
    ex = ast.parse("def f(self, p):\n    Q = solve_triangular(self.L, dK.reshape(-1, self.n_points).T, lower=True)\n"
                   "    return Q.reshape(self.n_points, *p.shape)\n").body[0]
    t = Typer({"p": Arr(("P", "D")), "dK": Arr(("D", "P", "N"))}, None, GP_ATTRS)
    t.run(ex.body)
    if len(t.problems) != 1:
        raise AnalysisError("axis typing lost its positive example")
    return out


def kernel_axis_obligations(prog, rule):
    """One obligation per kernel: K(u, v, theta) for u with one row per point U and v with one row per point V is a (U, V) array -
    rows from u, columns from v - and no operation on the way combines a U-axis with a V-axis or a D-axis element-wise."""
    out = []
    for kc in prog.subclasses("CovarianceFunction"):
        fn = kc.methods.get("__call__")
        if fn is None or len(fn.args.args) < 4:
            continue
        u, v = fn.args.args[1].arg, fn.args.args[2].arg
        methods = {}
        for c in reversed(prog.mro(kc)):
            methods.update(c.methods)

        def calls(t, node, kc=kc):
            f = U(node.func)
            # a component kernel evaluated on the same point sets
            if isinstance(node.func, (ast.Subscript, ast.Name)) and len(node.args) == 3:
                a, b = t.ev(node.args[0]), t.ev(node.args[1])
                if isinstance(a, Arr) and isinstance(b, Arr) and len(a.axes) == 2 and len(b.axes) == 2:
                    return Arr((a.axes[0], b.axes[0]))
            return NotImplemented
        th = fn.args.args[3].arg
        t = Typer({u: Arr(("U", "D")), v: Arr(("V", "D")), th: Arr(("T",))}, calls, {}, fn.args.args[0].arg, {k: f_ for k, f_ in methods.items() if k != "__call__"})
        rets = t.run(fn.body)
        why = [f"line {ln}: `{txt}`: {msg}" for ln, txt, msg in t.problems]
        decided = 0
        for st, x in rets:
            got = _squeezed(x)
            if got is None or any(a is None for a in got) or len(got) != 2:
                continue
            decided += 1
            if tuple(got) != ("U", "V"):
                why.append(f"line {st.lineno}: the result has axes ({', '.join(map(show, got))}), not (points of {u}, points of {v})")
        out.append(struct_ob(rule, qual(kc, fn), not why, "; ".join(why[:2]), COV, fn.lineno,
                             slots={"expressions_typed": t.typed, "returns_decided": decided}, tier="F"))
    return out
