"""C08 - parallel-tempering exchanges: correct and schedule-independent (tier S + F).

Decides: the exchange probability and hand-over have the stated form; parent and workers
follow a request/reply protocol in which nothing a process receives can depend on timing
(blocking receives in a fixed order over FIFO pipes: a Kahn process network); every chain
receives the same step count; workers hand back chains and terminate.
Pair disjointness is decided for the recognised filter idioms (quantified membership tests); the
candidate list construction itself (gaps of 1 or 2 levels) is not interpreted.
"""
from __future__ import annotations
import ast
from ..model import qual
from ..symx import Expander, CmpV
from ..anf import R
from .. import anf, trip
from .common import struct_ob, formula_ob, guard, U
from ..report import AnalysisError
from ..term import Resolver, pmatch
from ..seq import Layouts, UNKNOWN, show
from . import C03, C15

REL = "inference/mcmc/parallel.py"
FLOORS = {"task-exhaustive": 4, "reply-balance": 3, "kahn-discipline": 2, "swap-form": 3, "ladder-source": 1,
          "exchange-pair": 3, "equal-steps": 3, "collect-shutdown": 3,
          "pair-disjoint": 5, "state-picklable": 12}


def worker_table(prog):
    """task -> dict(keys read from D, number of replies, chain methods called, branch node)."""
    tp = prog.function(REL, "tempering_process")
    conn = tp.args.args[1].arg
    chain = tp.args.args[0].arg
    table = {}
    taskvar = None
    for n in ast.walk(tp):
        if isinstance(n, ast.Assign) and isinstance(n.value, ast.Subscript) and U(n.value) == "D['task']":
            taskvar = n.targets[0].id
    if taskvar is None:
        raise AnalysisError("anchor vanished: task dispatch variable in tempering_process")

    def branches(node):
        if isinstance(node, ast.If) and isinstance(node.test, ast.Compare) and U(node.test.left) == taskvar \
                and isinstance(node.test.comparators[0], ast.Constant):
            # only an equality test makes the arm the handler of that task (`!=` makes it the handler of every other one)
            if len(node.test.ops) == 1 and isinstance(node.test.ops[0], ast.Eq):
                yield node.test.comparators[0].value, node.body
            for o in node.orelse:
                yield from branches(o)
    top = [s for s in ast.walk(tp) if isinstance(s, ast.If) and isinstance(s.test, ast.Compare)
           and U(s.test.left) == taskvar]
    if not top:
        raise AnalysisError("anchor vanished: task branches in tempering_process")
    # an elif chain, or separate `if task == ..` statements one after the other: the arms are exclusive either way as long as the
    # dispatch variable is bound once per message
    n_bind = sum(1 for n in ast.walk(tp) if isinstance(n, ast.Name) and n.id == taskvar and isinstance(n.ctx, ast.Store))
    if n_bind != 1:
        raise AnalysisError(f"the task dispatch variable `{taskvar}` is bound {n_bind} times in tempering_process")
    seen_nodes, handlers = set(), []
    for s_ in sorted(top, key=lambda s: s.lineno):
        for task, body in branches(s_):
            if id(body) not in seen_nodes:
                seen_nodes.add(id(body))
                handlers.append((task, body))
    for task, body in handlers:
        keys, sends, calls = set(), [], []
        for st in body:
            for n in ast.walk(st):
                if isinstance(n, ast.Subscript) and U(n.value) == "D" and isinstance(n.slice, ast.Constant):
                    keys.add(n.slice.value)
                if isinstance(n, ast.Call) and U(n.func) == f"{conn}.send":
                    sends.append(n)
                if isinstance(n, ast.Call) and isinstance(n.func, ast.Attribute) and isinstance(n.func.value, ast.Name) \
                        and n.func.value.id == chain:
                    calls.append(n.func.attr)
        # replies must not sit inside a conditional / loop of the branch (constant count on every path)
        conditional = any(isinstance(st, (ast.If, ast.For, ast.While)) and any(
            isinstance(n, ast.Call) and U(n.func) == f"{conn}.send" for n in ast.walk(st)) for st in body)
        table[task] = {"keys": keys, "replies": len(sends), "conditional_reply": conditional, "calls": calls, "body": body}
    return tp, table


def parent_events(prog, ci, fn, wtable, depth=2):
    """Sequence of protocol events of one parent method, in source order, with self-calls inlined:
    ('send_all', task) ('recv_all',) ('send_one', index text, task) ('other', text)."""
    ev = []
    msgs = {}

    def task_of(node):
        if isinstance(node, ast.Name) and node.id in msgs:
            return msgs[node.id]
        if isinstance(node, ast.Dict):
            for k, v in zip(node.keys, node.values):
                if isinstance(k, ast.Constant) and k.value == "task" and isinstance(v, ast.Constant):
                    return v.value
        return "?"

    def over_connections(it):
        return U(it) == "self.connections"

    def visit(stmts):
        for st in stmts:
            if isinstance(st, ast.Assign) and isinstance(st.value, ast.Dict) and isinstance(st.targets[0], ast.Name):
                msgs[st.targets[0].id] = task_of(st.value)
            handled = False
            # loop / comprehension over all pipes
            loops = []
            if isinstance(st, ast.For) and over_connections(st.iter):
                loops.append((U(st.target), st.body))
            for n in ast.walk(st) if not isinstance(st, (ast.For, ast.If, ast.While)) else []:
                if isinstance(n, (ast.ListComp, ast.GeneratorExp)) and over_connections(n.generators[0].iter):
                    loops.append((U(n.generators[0].target), [ast.Expr(n.elt)]))
            for pipe, body in loops:
                for b in body:
                    for n in ast.walk(b):
                        if isinstance(n, ast.Call) and U(n.func) == f"{pipe}.send":
                            ev.append(("send_all", task_of(n.args[0]), st.lineno))
                            handled = True
                        if isinstance(n, ast.Call) and U(n.func) == f"{pipe}.recv":
                            ev.append(("recv_all", "", st.lineno))
                            handled = True
                        if isinstance(n, ast.Call) and isinstance(n.func, ast.Attribute) and n.func.attr in ("poll", "wait"):
                            ev.append(("poll", U(n), st.lineno))
            if handled:
                continue
            if isinstance(st, (ast.For, ast.While)):
                ev.append(("loop_begin", "", st.lineno))
                visit(st.body)
                ev.append(("loop_end", "", st.lineno))
                continue
            if isinstance(st, ast.If):
                ev.append(("if_begin", "", st.lineno))
                visit(st.body)
                ev.append(("else", "", st.lineno))
                visit(st.orelse)
                ev.append(("if_end", "", st.lineno))
                continue
            for n in ast.walk(st):
                if isinstance(n, ast.Call):
                    f = U(n.func)
                    if isinstance(n.func, ast.Attribute) and n.func.attr == "send" and isinstance(n.func.value, ast.Subscript) \
                            and U(n.func.value.value) == "self.connections":
                        ev.append(("send_one", U(n.func.value.slice), task_of(n.args[0]), st.lineno))
                    elif isinstance(n.func, ast.Attribute) and n.func.attr == "recv":
                        ev.append(("recv_one", U(n.func.value), st.lineno))
                    elif isinstance(n.func, ast.Attribute) and n.func.attr in ("poll", "wait"):
                        ev.append(("poll", f, st.lineno))
                    elif f.startswith("self.") and depth > 0:
                        c, m = prog.find_method(ci, f[5:])
                        if m is not None and m.name in ("take_steps", "swap", "return_chains"):
                            ev.append(("call", m.name, st.lineno))
    visit(fn.body)
    return ev


def balance(events, wtable):
    """Per-pipe outstanding replies after the method; min balance; problems."""
    bal, low, problems = 0, 0, []
    for e in events:
        if e[0] == "send_all":
            t = e[1]
            if t not in wtable:
                problems.append(f"task {t!r} sent at line {e[2]} has no worker handler")
                continue
            bal += wtable[t]["replies"]
        elif e[0] == "recv_all":
            bal -= 1
            low = min(low, bal)
        elif e[0] == "send_one":
            t = e[2]
            if t not in wtable:
                problems.append(f"task {t!r} sent at line {e[3]} has no worker handler")
            elif wtable[t]["replies"] != 0:
                problems.append(f"task {t!r} sent to a single pipe (line {e[3]}) owes {wtable[t]['replies']} reply that is never received")
        elif e[0] == "recv_one":
            problems.append(f"single-pipe recv `{e[1]}` at line {e[2]} outside the all-pipes order")
    return bal, low, problems


def run(prog, tier):
    anf.reset()
    obs, info = [], []
    mi = prog.module(REL)
    pt = prog.cls("ParallelTempering")
    tp, wtable = worker_table(prog)

    # ---------------------------------------------------------------- task-exhaustive
    sent = {}   # task -> keys
    for fn in pt.methods.values():
        for n in ast.walk(fn):
            if isinstance(n, ast.Dict):
                d = {k.value: v for k, v in zip(n.keys, n.values) if isinstance(k, ast.Constant)}
                if "task" in d and isinstance(d["task"], ast.Constant):
                    sent.setdefault(d["task"].value, []).append(set(d) - {"task"})
    for task in sorted(set(sent) | set(wtable)):
        problems = []
        if task not in wtable:
            problems.append("parent sends it but the worker has no branch")
        elif task not in sent:
            problems.append("worker handles it but the parent never sends it")
        else:
            for keys in sent[task]:
                miss = wtable[task]["keys"] - {"task"} - keys
                if miss:
                    problems.append(f"worker reads D{sorted(miss)} which the message does not carry (carries {sorted(keys)})")
            if wtable[task]["conditional_reply"]:
                problems.append("the reply is sent under a condition / in a loop")
        obs.append(struct_ob("task-exhaustive", f"{mi.name}[task={task}]", not problems, "; ".join(problems), REL,
                             tp.lineno, slots={"keys_read": sorted(wtable.get(task, {}).get("keys", [])),
                                               "replies": wtable.get(task, {}).get("replies")}))

    # ---------------------------------------------------------------- reply-balance
    for mname in ("take_steps", "swap", "return_chains"):
        c, fn = prog.method("ParallelTempering", mname)
        ev = parent_events(prog, pt, fn, wtable)
        bal, low, problems = balance(ev, wtable)
        if bal != 0:
            problems.append(f"{bal} reply(ies) per pipe still outstanding when the method returns")
        if low < 0:
            problems.append("a receive precedes the request it answers")
        # all-pipes receives must not sit inside a branch
        depth_if = 0
        for e in ev:
            if e[0] == "if_begin":
                depth_if += 1
            elif e[0] == "if_end":
                depth_if -= 1
            elif e[0] in ("recv_all", "send_all") and depth_if > 0:
                problems.append(f"{e[0]} at line {e[2]} is conditional")
        obs.append(struct_ob("reply-balance", qual(c, fn), not problems, "; ".join(problems), REL, fn.lineno,
                             slots={"events": [e[:2] for e in ev if e[0] in ("send_all", "recv_all", "send_one")]}))

    # ---------------------------------------------------------------- kahn-discipline
    polls = []
    for fn in pt.methods.values():
        for n in ast.walk(fn):
            if isinstance(n, ast.Call) and isinstance(n.func, ast.Attribute) and n.func.attr in ("poll", "wait", "recv_bytes"):
                polls.append((fn.name, U(n), n.lineno))
            if isinstance(n, ast.Call) and isinstance(n.func, ast.Attribute) and n.func.attr == "recv" and n.keywords:
                polls.append((fn.name, U(n), n.lineno))
    obs.append(struct_ob("kahn-discipline", f"{mi.name}.ParallelTempering", not polls,
                         f"the parent must use only blocking recv() in pipe order; found {polls}", REL, pt.node.lineno,
                         slots={"methods": len(pt.methods)}))
    # worker: poll(timeout) only inside `while not end.is_set()` and followed by recv + break; reads no globals
    end = tp.args.args[2].arg
    conn = tp.args.args[1].arg
    okw, why = True, []
    for n in ast.walk(tp):
        if isinstance(n, ast.Call) and U(n.func) == f"{conn}.poll":
            pass
    inner = [w for w in ast.walk(tp) if isinstance(w, ast.While)]
    poll_ifs = [i for i in ast.walk(tp) if isinstance(i, ast.If) and isinstance(i.test, ast.Call)
                and U(i.test.func) == f"{conn}.poll"]
    if len(poll_ifs) != 1:
        okw = False
        why.append(f"{len(poll_ifs)} poll sites")
    else:
        body = [U(s) for s in poll_ifs[0].body]
        if body != [f"D = {conn}.recv()", "break"]:
            okw = False
            why.append(f"poll branch does {body}")
        if not any(k.arg == "timeout" for k in poll_ifs[0].test.keywords) and not poll_ifs[0].test.args:
            okw = False
            why.append("poll has no timeout: the shutdown event would never be re-checked")
        enclosing = [w for w in inner if any(x is poll_ifs[0] for x in ast.walk(w))]
        if not enclosing or not all(U(w.test) == f"not {end}.is_set()" for w in enclosing):
            okw = False
            why.append("poll is not inside `while not end.is_set()` loops")
    # the worker hands its chain back as it is: apart from the exchange handler (which installs a position and its probability) nothing
    # in the worker stores into the chain
    chain_ = tp.args.args[0].arg
    for st_ in ast.walk(tp):
        tg_ = st_.targets if isinstance(st_, ast.Assign) else [st_.target] if isinstance(st_, (ast.AugAssign, ast.AnnAssign)) else []
        for t_ in tg_:
            for el_ in (t_.elts if isinstance(t_, ast.Tuple) else [t_]):
                b_ = el_
                sub_ = False
                while isinstance(b_, (ast.Subscript, ast.Attribute)):
                    sub_ = sub_ or isinstance(b_, ast.Subscript)
                    b_ = b_.value
                if isinstance(b_, ast.Name) and b_.id == chain_ and isinstance(el_, (ast.Attribute, ast.Subscript)):
                    in_update = any(isinstance(i_, ast.If) and "update_position" in U(i_.test) and any(x is st_ for x in ast.walk(i_)) for i_ in ast.walk(tp))
                    if not (in_update and U(el_) == f"{chain_}.probs[-1]"):
                        okw = False
                        why.append(f"line {st_.lineno}: `{U(st_)[:70]}` changes the chain in the worker outside the exchange handler")
    free = {n.id for st in tp.body for n in ast.walk(st) if isinstance(n, ast.Name) and isinstance(n.ctx, ast.Load)}
    params = {a.arg for a in tp.args.args}
    assigned = {n.id for n in ast.walk(tp) if isinstance(n, ast.Name) and isinstance(n.ctx, ast.Store)}
    import builtins
    globals_read = sorted(free - params - assigned - set(dir(builtins)) - {"_"})       # builtins are not module state
    if globals_read:
        okw = False
        why.append(f"worker reads module-level names {globals_read}")
    obs.append(struct_ob("kahn-discipline", f"{mi.name}.tempering_process", okw, "; ".join(why), REL, tp.lineno,
                         slots={"globals_read": globals_read}))

    # ---------------------------------------------------------------- swap-form
    c, sw = prog.method("ParallelTempering", "swap")
    obs.extend(_swap_form(prog, mi, pt, c, sw))
    obs.append(_ladder_source(prog, mi, pt, tp))
    # whatever travels with a chain between processes must survive pickling
    from .common import picklable_state_obligations
    shipped = [ci_ for ci_ in prog.classes.values() if ci_.module.relpath.startswith("inference/mcmc/")
               and ci_.name not in ("ParallelTempering", "ChainPool")]
    obs.extend(picklable_state_obligations(prog, "state-picklable", shipped))

    # ---------------------------------------------------------------- pair-disjoint
    obs.extend(_pair_disjoint(prog))

    # ---------------------------------------------------------------- exchange-pair (shared with C03)
    obs.extend(C03._exchange(prog))

    # ---------------------------------------------------------------- equal-steps (shared with C15)
    c, padv = prog.method("ParallelTempering", "advance")

    def w_ts(n, ex, env):
        if U(n.func) == "self.take_steps" and len(n.args) + len(n.keywords) == 1:
            return ex.need_r(ex.eval(n.args[0] if n.args else n.keywords[0].value, env))
        return None
    o = C15._trip(prog, c, padv, w_ts, padv.args.args[1].arg, "steps per chain (sum of take_steps arguments)")
    o.rule = "equal-steps"
    obs.append(o)
    c15_obs, _, _ = C15.run(prog, "quick")
    obs.extend([x for x in c15_obs if x.rule == "equal-steps"])

    # ---------------------------------------------------------------- collect-shutdown
    c, rc = prog.method("ParallelTempering", "return_chains")
    ev = parent_events(prog, pt, rc, wtable)
    kinds = [(e[0], e[1]) for e in ev if e[0] in ("send_all", "recv_all")]
    ret = [s for s in rc.body if isinstance(s, ast.Return)]
    ok = kinds == [("send_all", "send_chain"), ("recv_all", "")] and len(ret) == 1 \
        and "recv()" in U(ret[0].value) and "self.connections" in U(ret[0].value)
    obs.append(struct_ob("collect-shutdown", qual(c, rc), ok,
                         f"return_chains must request the chain on every pipe and return what every pipe sends back, in "
                         f"pipe order; events {kinds}", REL, rc.lineno))
    ok = wtable.get("send_chain", {}).get("replies") == 1 and any(
        U(s) == f"{conn}.send({tp.args.args[0].arg})" for s in wtable.get("send_chain", {}).get("body", []))
    obs.append(struct_ob("collect-shutdown", f"{mi.name}.tempering_process[send_chain]", ok,
                         "the worker must reply to send_chain with its chain object", REL, tp.lineno))
    c, sd = prog.method("ParallelTempering", "shutdown")
    body = [U(s) for s in sd.body
            if not (isinstance(s, ast.Expr) and isinstance(s.value, ast.Constant) and isinstance(s.value.value, str))]
    sets = [n_ for n_ in ast.walk(sd) if isinstance(n_, ast.Call) and U(n_.func) == "self.shutdown_evt.set"]
    joins = [n_ for n_ in ast.walk(sd) if isinstance(n_, ast.Call) and isinstance(n_.func, ast.Attribute) and n_.func.attr == "join"]
    over = [n_ for n_ in ast.walk(sd) if isinstance(n_, (ast.For, ast.comprehension)) and U(n_.iter) == "self.processes"]
    ok = len(sets) == 1 and len(joins) == 1 and len(over) == 1 and sets[0].lineno <= joins[0].lineno \
        and isinstance(joins[0].func.value, ast.Name) and joins[0].func.value.id in [x.id for x in ast.walk(over[0].target) if isinstance(x, ast.Name)]
    # the worker's outer loop re-checks the event after the read loop
    outer = [w for w in tp.body if isinstance(w, ast.While)]
    ok2 = len(outer) == 1 and U(outer[0].test) == f"not {end}.is_set()" and any(
        isinstance(s, ast.If) and U(s.test) == f"{end}.is_set()" and any(isinstance(b, ast.Break) for b in s.body)
        for s in outer[0].body)
    # the event handed to each worker is the one shutdown() sets
    init = pt.methods["__init__"]
    ok3 = any(isinstance(n, ast.Call) and U(n.func) == "Process" and "self.shutdown_evt" in U(n)
              and "tempering_process" in U(n) for n in ast.walk(init))
    obs.append(struct_ob("collect-shutdown", qual(c, sd), ok and ok2 and ok3,
                         f"shutdown must set the event every worker re-checks and join every process; body {body}; "
                         f"worker re-check {ok2}; event passed to workers {ok3}", REL, sd.lineno))

    meta = {
        "explanation": "Protocol extraction: worker handler table (task -> keys read, replies, chain calls) and, per parent "
                       "method, the per-pipe sequence of sends and receives; obligations: tasks sent = tasks handled, keys read "
                       "are carried, replies owed = receives performed (never negative, zero at exit), the parent never polls and "
                       "receives in pipe order, the worker polls only to re-check the shutdown event. With FIFO pipes this is a Kahn "
                       "process network, so received values do not depend on scheduling. The exchange exponent is proven equal to "
                       "(b_i-b_j)(L_j-L_i) in normal form; counters, hand-over, equal step counts, collection and shutdown are "
                       "checked structurally.",
        "assumptions": ["multiprocessing pipes are FIFO and reliable; blocking recv returns the next message",
                        "each chain's rng lives in its own process (fixed seeds given by the property)"],
        "info": info,
        "extra": {"worker_table": {k: {"keys": sorted(v["keys"]), "replies": v["replies"]} for k, v in wtable.items()}},
    }
    return obs, FLOORS, meta


def quantified_membership(node):
    """Normalise `[not] any|all(<j [not] in B> for j in A)` to (negated, quantifier, inner_negated, A, B);
    None when the expression has another shape."""
    neg = False
    while isinstance(node, ast.UnaryOp) and isinstance(node.op, ast.Not):
        neg = not neg
        node = node.operand
    if isinstance(node, ast.BoolOp) and len(node.values) == 2:
        # the quantifier over a PAIR written out:  p[0] not in k and p[1] not in k   ==   all(j not in k for j in p)
        parts = []
        for v in node.values:
            ineg = False
            while isinstance(v, ast.UnaryOp) and isinstance(v.op, ast.Not):
                ineg, v = not ineg, v.operand
            if not (isinstance(v, ast.Compare) and len(v.ops) == 1 and isinstance(v.ops[0], (ast.In, ast.NotIn))
                    and isinstance(v.left, ast.Subscript) and isinstance(v.left.slice, ast.Constant)):
                return None
            if isinstance(v.ops[0], ast.NotIn):
                ineg = not ineg
            parts.append((ineg, U(v.left.value), v.left.slice.value, U(v.comparators[0])))
        if len({(a, x, b) for a, x, _, b in parts}) == 1 and sorted(i for _, _, i, _ in parts) == [0, 1]:
            ineg, A, _, B = parts[0]
            return (neg, "all" if isinstance(node.op, ast.And) else "any", ineg, A, B)
        return None
    if not (isinstance(node, ast.Call) and isinstance(node.func, ast.Name) and node.func.id in ("any", "all")
            and len(node.args) == 1 and isinstance(node.args[0], (ast.GeneratorExp, ast.ListComp))):
        return None
    g = node.args[0]
    if len(g.generators) != 1 or g.generators[0].ifs or not isinstance(g.generators[0].target, ast.Name):
        return None
    var = g.generators[0].target.id
    A = U(g.generators[0].iter)
    e = g.elt
    ineg = False
    while isinstance(e, ast.UnaryOp) and isinstance(e.op, ast.Not):
        ineg = not ineg
        e = e.operand
    if not (isinstance(e, ast.Compare) and len(e.ops) == 1 and isinstance(e.ops[0], (ast.In, ast.NotIn))):
        return None
    if isinstance(e.ops[0], ast.NotIn):
        ineg = not ineg
    l, r = U(e.left), U(e.comparators[0])
    if l == var:
        B = r
    elif r == var:
        # `x in j` for j ranging over a collection of pairs: membership of x in some/all pairs
        return (neg, node.func.id, ineg, A, "*" + l)
    else:
        return None
    return (neg, node.func.id, ineg, A, B)


def says_disjoint(q, X, Y):
    """The normalised formula states that collections X and Y share no element."""
    if q is None:
        return False
    neg, quant, ineg, A, B = q
    if {A, B} != {X, Y}:
        return False
    # not exists j in A: j in B      |    forall j in A: j not in B
    return (neg and quant == "any" and not ineg) or (not neg and quant == "all" and ineg)


def _pair_disjoint(prog):
    """Every proposed pair list consists of pairwise disjoint pairs (each chain in at most one pair)."""
    out = []
    c, tp = prog.method("ParallelTempering", "tight_pairs")
    # (a) after drawing p, every candidate sharing a chain with p is discarded
    loops = [w for w in ast.walk(tp) if isinstance(w, ast.While)]
    ok, why = False, "sampling loop not found"
    if len(loops) == 1:
        w = loops[0]
        src = {U(s.targets[0]): s.value for s in w.body if isinstance(s, ast.Assign)}
        chosen = [k for k, v in src.items() if isinstance(v, ast.Call) and U(v.func) == "choice"]
        filt = [v for k, v in src.items() if isinstance(v, ast.ListComp)]
        if len(chosen) == 1 and len(filt) == 1 and len(filt[0].generators) == 1 and len(filt[0].generators[0].ifs) == 1:
            g = filt[0].generators[0]
            cand = U(g.target)
            pool = U(g.iter)
            same_pool = U(src[chosen[0]].args[0]) == pool and U(filt[0].elt) == cand
            q = quantified_membership(g.ifs[0])
            ok = same_pool and says_disjoint(q, chosen[0], cand)
            why = f"candidates kept when `{U(g.ifs[0])}` (chosen pair `{chosen[0]}`, candidate `{cand}`)"
            appended = any(isinstance(n, ast.Call) and U(n.func).endswith(".append")
                           and U(n.args[0]) == chosen[0] for n in ast.walk(w))
            ok = ok and appended
    out.append(struct_ob("pair-disjoint", qual(c, tp) + "[filter]", ok,
                         "after a pair is drawn every remaining candidate that shares a chain with it must be discarded "
                         "(kept iff disjoint from the drawn pair): " + why, REL, tp.lineno))
    # (a') the candidate pool: every candidate is a pair of two different valid chain indices 0 <= a, b <= N-1 (an index N
    # raises in swap(); a negative one silently names a chain a second time, so the disjointness filter no longer protects it)
    out.append(_candidate_pairs_valid(prog, c, tp, loops[0] if len(loops) == 1 else None))
    # (b) leftovers are the chains in no drawn pair, paired by even/odd positions
    ok, why = False, "leftover pairing not found"
    lo = [s for s in ast.walk(tp) if isinstance(s, ast.Assign) and U(s.targets[0]) == "leftovers"]
    if len(lo) == 1 and isinstance(lo[0].value, ast.ListComp) and len(lo[0].value.generators[0].ifs) == 1:
        g = lo[0].value.generators[0]
        q = quantified_membership(g.ifs[0])
        i = U(g.target)
        c1 = U(g.iter) == "range(self.N_chains)" and U(lo[0].value.elt) == i
        # not any(i in p for p in sample)
        c2 = q is not None and q[0] and q[1] == "any" and not q[2] and q[3] == "sample" and q[4] == "*" + i
        c3 = "zip(leftovers[::2], leftovers[1::2])" in U(tp)
        ok = c1 and c2 and c3
        why = f"leftovers: `{U(lo[0].value)}`; even/odd zip: {c3}"
    out.append(struct_ob("pair-disjoint", qual(c, tp) + "[leftovers]", ok,
                         "chains left unpaired must be exactly those in no drawn pair and be paired by even/odd positions: " + why,
                         REL, tp.lineno))
    # (c) uniform_pairs: even/odd positions of a shuffled arange
    c2_, up = prog.method("ParallelTempering", "uniform_pairs")
    Lu = Layouts(up, prog, c2_.module, c2_)
    rets_ = Lu.rz.returns()
    ok, txt = False, [U(s) for s in up.body if not (isinstance(s, ast.Expr) and isinstance(s.value, ast.Constant))]
    if len(rets_) == 1:
        arr = [s for s in up.body if isinstance(s, ast.Assign) and isinstance(s.targets[0], ast.Name)
               and pmatch(s.value, "arange(self.N_chains)") is not None]
        if len(arr) == 1:
            nm = arr[0].targets[0].id
            shuf = [s for s in up.body if isinstance(s, ast.Expr) and pmatch(s.value, f"self.rng.shuffle({nm})") is not None]
            lay = Lu.layout_of(rets_[0].value, rets_[0])
            ok = len(shuf) == 1 and arr[0].lineno < shuf[0].lineno < rets_[0].lineno \
                and lay == (("splice", f"zip({nm}[::2], {nm}[1::2])"),)
    out.append(struct_ob("pair-disjoint", qual(c2_, up), ok,
                         f"uniform pairs must be the even/odd positions of a shuffled arange(N_chains): {txt}", REL, up.lineno))
    # (d) swap() takes its pairs from one of the checked generators, once, after the snapshot
    c3_, sw = prog.method("ParallelTempering", "swap")
    # decided on the list the exchange loop actually walks (its resolved term: an extension `pairs += more`, a concatenation or a
    # filter after the call is part of the term), not on the name it is held in
    rsw = Resolver(sw, prog, c3_.module, c3_)
    loops_sw = [l for l in ast.walk(sw) if isinstance(l, ast.For) and isinstance(l.target, ast.Tuple) and len(l.target.elts) == 2
                and any(isinstance(n, ast.Call) and isinstance(n.func, ast.Attribute) and n.func.attr == "send" for n in ast.walk(l))]
    srcs = [str(U(rsw.term(l.iter, l))) for l in loops_sw]
    edited = [U(n) for n in ast.walk(sw) if isinstance(n, ast.Call) and isinstance(n.func, ast.Attribute)
              and n.func.attr in ("append", "extend", "insert") and loops_sw and U(n.func.value) == U(loops_sw[0].iter)]
    ok = len(srcs) == 1 and srcs[0] in ("self.tight_pairs()", "self.uniform_pairs()") and not edited
    out.append(struct_ob("pair-disjoint", qual(c3_, sw) + "[source]", ok,
                         f"the exchange loop must walk exactly the result of one call of tight_pairs() or uniform_pairs() (two disjoint "
                         f"lists joined are not disjoint): it walks {srcs} {('edited by ' + str(edited)) if edited else ''}", REL, sw.lineno))
    return out


def _lin(node, env):
    """Integer-linear form {name: coeff, 1: const} of an index expression over the chain count N and bound loop variables."""
    if isinstance(node, ast.Constant) and isinstance(node.value, int):
        return {1: node.value}
    if isinstance(node, ast.Name) and node.id in env:
        return dict(env[node.id])
    if isinstance(node, ast.Attribute) and U(node) == "self.N_chains":
        return {"N": 1}
    if isinstance(node, ast.BinOp) and isinstance(node.op, (ast.Add, ast.Sub)):
        a, b = _lin(node.left, env), _lin(node.right, env)
        if a is None or b is None:
            return None
        sg = 1 if isinstance(node.op, ast.Add) else -1
        out = dict(a)
        for k, v in b.items():
            out[k] = out.get(k, 0) + sg * v
        return out
    if isinstance(node, ast.UnaryOp) and isinstance(node.op, ast.USub):
        a = _lin(node.operand, env)
        return None if a is None else {k: -v for k, v in a.items()}
    return None


def _candidate_pairs_valid(prog, c, tp, loop):
    """Interval argument, for every chain count N >= 2, over the comprehension that builds the candidate pool:
    `[(A, B) for i in range(R) for j in [c1, .., ck]]` optionally followed by `[:-1]` (which drops exactly the last generated
    element, i = R-1, j = ck).  A and B are linear in i, j; the bounds of each over the remaining index set must lie in [0, N-1]
    and A != B."""
    rel_ok, why = False, "candidate pool not found"
    pool_def = None
    if loop is not None:
        # the list the sampling loop draws from
        names = {U(n.args[0]) for n in ast.walk(loop) if isinstance(n, ast.Call) and U(n.func) == "choice" and n.args}
        for st in tp.body:
            if isinstance(st, ast.Assign) and U(st.targets[0]) in names:
                pool_def = st.value
                break
    if pool_def is not None:
        drop_last = False
        comp = pool_def
        if isinstance(comp, ast.Subscript) and isinstance(comp.slice, ast.Slice) and comp.slice.lower is None and comp.slice.step is None \
                and U(comp.slice.upper) == "-1":
            drop_last, comp = True, comp.value
        if isinstance(comp, ast.ListComp) and isinstance(comp.elt, ast.Tuple) and len(comp.elt.elts) == 2 and 1 <= len(comp.generators) <= 2 \
                and not any(g.ifs for g in comp.generators):
            g0 = comp.generators[0]
            R_ = _lin(g0.iter.args[0], {}) if isinstance(g0.iter, ast.Call) and U(g0.iter.func) == "range" and len(g0.iter.args) == 1 else None
            consts = None
            if len(comp.generators) == 2:
                g1 = comp.generators[1]
                if isinstance(g1.iter, (ast.List, ast.Tuple)) and g1.iter.elts and all(
                        isinstance(e, ast.Constant) and isinstance(e.value, int) for e in g1.iter.elts):
                    consts = [e.value for e in g1.iter.elts]
            else:
                consts = [0]
            if R_ is not None and consts is not None and isinstance(g0.target, ast.Name) and set(R_) <= {"N", 1}:
                ivar = g0.target.id
                jvar = comp.generators[1].target.id if len(comp.generators) == 2 else None
                problems = []

                def holds_from(form, upper, n0):
                    """form(N) <= N - 1 (upper) / form(N) >= 0 (lower) for every N >= n0; form = {N: a, 1: b}"""
                    a, b = form.get("N", 0), form.get(1, 0)
                    if upper:
                        a, b = a - 1, b + 1
                        return a <= 0 and a * n0 + b <= 0
                    return a >= 0 and a * n0 + b >= 0

                def at(form, n):
                    return form.get("N", 0) * n + form.get(1, 0)
                aR, bR = R_.get("N", 0), R_.get(1, 0)
                if aR not in (0, 1):
                    raise AnalysisError(f"pair-disjoint[candidates]: range bound `{U(g0.iter.args[0])}` is not N + const")
                env_l = {ivar: {"i": 1}, **({jvar: {"j": 1}} if jvar else {})}
                for name, e in (("first", comp.elt.elts[0]), ("second", comp.elt.elts[1])):
                    f = _lin(e, env_l)
                    f = None if f is None else {k: v for k, v in f.items() if v != 0}
                    if f is None or not set(f) <= {"i", "j", "N", 1}:
                        problems.append(f"{name} index `{U(e)}` is not linear in the loop variables")
                        continue
                    ci_, cj_ = f.get("i", 0), f.get("j", 0)
                    rest = {k: v for k, v in f.items() if k in ("N", 1)}

                    def value(i_form, jv):
                        val = dict(rest)
                        for k, v in i_form.items():
                            val[k] = val.get(k, 0) + ci_ * v
                        val[1] = val.get(1, 0) + cj_ * jv
                        return val
                    hi_bad = lo_bad = False
                    # small chain counts one by one (the index set changes shape while range(R) has fewer than two elements),
                    # then the general case R >= 2 for every larger N
                    n_gen = max(2, 2 - bR) if aR == 1 else 2
                    for n in range(2, max(n_gen, 2) + 0):
                        Rn = at(R_, n)
                        pts = [(iv, jv) for iv in range(max(Rn, 0)) for jv in consts]
                        if drop_last and pts:
                            pts = pts[:-1]
                        for iv, jv in pts:
                            v = at(value({1: iv}, jv), n)
                            hi_bad |= v > n - 1
                            lo_bad |= v < 0
                    if aR == 1 or bR >= 2:
                        Rm1 = {"N": aR, 1: bR - 1}
                        Rm2 = {"N": aR, 1: bR - 2}
                        corners = [value({1: 0}, jv) for jv in consts] + [value(Rm2, jv) for jv in consts] + \
                                  [value(Rm1, jv) for jv in (consts[:-1] if drop_last else consts)]
                        hi_bad |= not all(holds_from(v, True, n_gen) for v in corners)
                        lo_bad |= not all(holds_from(v, False, n_gen) for v in corners)
                    if hi_bad:
                        problems.append(f"{name} index `{U(e)}` can exceed N_chains - 1")
                    if lo_bad:
                        problems.append(f"{name} index `{U(e)}` can be negative (a negative index names a chain from the end: the same chain "
                                        f"under two numbers)")
                d = _lin(ast.BinOp(left=comp.elt.elts[1], op=ast.Sub(), right=comp.elt.elts[0]), {ivar: {"i": 1}, **({jvar: {"j": 1}} if jvar else {})})
                d = None if d is None else {k: v for k, v in d.items() if v != 0}
                if d is not None and set(d) <= {"j", 1}:
                    vals = [d.get("j", 0) * jv + d.get(1, 0) for jv in consts]
                    if any(v == 0 for v in vals):
                        problems.append("a candidate pairs a chain with itself")
                else:
                    problems.append("the two indices of a candidate are not provably different")
                rel_ok, why = not problems, "; ".join(problems) or f"i in range({U(g0.iter.args[0])}), offsets {consts}, last element dropped: {drop_last}"
            else:
                why = f"candidate pool `{U(pool_def)[:120]}` is not a comprehension over range(..) and a literal offset list"
        else:
            why = f"candidate pool `{U(pool_def)[:120]}` is not of the recognised comprehension shape"
    if pool_def is not None and not rel_ok and "not of the recognised" in why or "not a comprehension" in why:
        raise AnalysisError(f"pair-disjoint[candidates]: {why}")
    return struct_ob("pair-disjoint", qual(c, tp) + "[candidates]", rel_ok,
                     "every candidate pair must consist of two different chain indices in 0 .. N_chains - 1 for every chain count: " + why,
                     REL, tp.lineno, tier="F")


def _ladder_source(prog, mi, pt, tp):
    """The inverse temperatures in the swap exponent must be the numbers the chains themselves scale their stored
    log-probabilities with: the worker re-expresses a received log-probability with one attribute of its chain, and the ladder
    the controller keeps must be read from that very attribute of each chain, in chain order."""
    init = pt.methods["__init__"]
    chains = init.args.args[1].arg
    # the attribute the worker scales with: the store into the chain's last log-probability
    cparam = tp.args.args[0].arg
    attrs = set()
    for st in ast.walk(tp):
        if isinstance(st, ast.Assign) and isinstance(st.targets[0], ast.Subscript) and U(st.targets[0].value).startswith(cparam + "."):
            for n in ast.walk(st.value):
                if isinstance(n, ast.Attribute) and isinstance(n.value, ast.Name) and n.value.id == cparam:
                    attrs.add(n.attr)
    if len(attrs) != 1:
        return struct_ob("ladder-source", qual(pt, init), False,
                         f"the worker stores a received log-probability scaled with {sorted(attrs) or 'no attribute'} of its chain: there is "
                         f"no single inverse-temperature attribute the controller's ladder could be read from", REL, tp.lineno)
    attr = next(iter(attrs))
    lay = Layouts(init, prog, mi, pt).state.get("self.inv_temps")
    want = (("each", ("iter", chains), f"va0.{attr}"),)
    ok = lay == want
    # ladder position k and pipe k belong to the same chain: the list the ladder was read from is the list the workers are started
    # from - it is neither re-bound nor re-ordered in between
    edits = [U(st)[:80] for st in ast.walk(init)
             if (isinstance(st, ast.Assign) and any(U(t) == chains for t in st.targets))
             or (isinstance(st, ast.Expr) and isinstance(st.value, ast.Call) and isinstance(st.value.func, ast.Attribute)
                 and U(st.value.func.value) == chains and st.value.func.attr in ("sort", "reverse", "pop", "insert", "remove", "append", "extend"))
             or (isinstance(st, ast.Expr) and isinstance(st.value, ast.Call) and U(st.value.func).split(".")[-1] == "shuffle"
                 and st.value.args and U(st.value.args[0]) == chains)]
    spawn = [l for l in ast.walk(init) if isinstance(l, ast.For) and any(isinstance(n, ast.Call) and U(n.func) in ("Pipe", "Process") for n in ast.walk(l))]
    if ok and (edits or not spawn or U(spawn[0].iter) != chains):
        return struct_ob("ladder-source", qual(pt, init), False,
                         f"the temperature ladder is read from `{chains}` as given, but the workers are started from "
                         f"`{U(spawn[0].iter) if spawn else None}`" + (f" after `{edits[0]}`" if edits else "") + ": position k of the ladder and pipe k "
                         f"no longer belong to the same chain, so exchanges are tested with another chain's temperature", REL, init.lineno)
    return struct_ob("ladder-source", qual(pt, init), ok,
                     f"self.inv_temps must be [chain.{attr} for chain in {chains}] - the factor every chain (and the worker, when it "
                     f"stores a received point) scales its log-probabilities with; it is {show(lay) if lay not in (None, UNKNOWN) else lay}: a "
                     f"value kept in another attribute is only tied to `{attr}` where both happen to be set together",
                     REL, init.lineno, slots={"worker_attribute": attr, "layout": show(lay) if lay not in (None, UNKNOWN) else str(lay)})


def _swap_form(prog, mi, pt, c, sw):
    out = []
    loop = None
    for n in sw.body:
        if isinstance(n, ast.For) and isinstance(n.target, ast.Tuple) and len(n.target.elts) == 2:
            loop = n
    if loop is None:
        raise AnalysisError("anchor vanished: pair loop in ParallelTempering.swap")
    i, j = [e.id for e in loop.target.elts]
    tests = [s for s in loop.body if isinstance(s, ast.If)]
    if len(tests) != 1:
        raise AnalysisError("anchor vanished: acceptance test in ParallelTempering.swap")
    test = tests[0]
    ex = Expander(prog, mi, pt)
    ex.opaque_self_attrs = {"inv_temps", "connections", "rng", "attempted_swaps", "successful_swaps"}
    env = {}
    guard(lambda: ex.run_until(loop.body, env, test))
    draw_cmp = test.test
    shortcuts = []
    if isinstance(test.test, ast.BoolOp) and isinstance(test.test.op, ast.Or):
        with_draw = [v for v in test.test.values if "rng.random" in U(v)]
        if len(with_draw) == 1:
            draw_cmp = with_draw[0]
            shortcuts = [v for v in test.test.values if v is not draw_cmp]
    cmp_ = guard(lambda: ex.eval(draw_cmp, env))
    ok, why = False, ""
    if isinstance(cmp_, CmpV) and cmp_.op in ("LtE", "Lt") and isinstance(cmp_.left, R) and isinstance(cmp_.right, R):
        u, A = cmp_.left, cmp_.right
        is_draw = any(a[0] == "sym" and a[1].startswith("rng.random") for a in u.atoms()) and len(u.atoms()) == 1
        bi, bj = R.sym(f"self.inv_temps[{i}]"), R.sym(f"self.inv_temps[{j}]")
        Li = R.sym(f"probabilities[{i}]").div(bi)
        Lj = R.sym(f"probabilities[{j}]").div(bj)
        want = (bi - bj) * (Lj - Li)
        got = anf.log_(A)
        out.append(formula_ob("swap-form", qual(c, sw), got, want, REL, test.lineno,
                              what="log of the exchange acceptance probability"))
        out.append(struct_ob("swap-form", qual(c, sw) + "[orientation]", is_draw,
                             f"the accept edge must be taken when uniform <= A; test is `{U(test.test)}`",
                             REL, test.lineno))
        for sc in shortcuts:
            oks, whys = False, f"`{U(sc)}` is not a comparison"
            if isinstance(sc, ast.Compare) and len(sc.ops) == 1:
                l = guard(lambda: ex.eval(sc.left, env))
                r_ = guard(lambda: ex.eval(sc.comparators[0], env))
                opn = type(sc.ops[0]).__name__
                if isinstance(l, R) and isinstance(r_, R) and opn in ("Gt", "GtE", "Lt", "LtE"):
                    d = (l - r_) if opn in ("Gt", "GtE") else (r_ - l)       # shortcut  <=>  d >= 0
                    oks = d.eq(got) or d.eq(A - 1)
                    whys = f"shortcut `{U(sc)}` means {d} >= 0, but log A = {got}"
            out.append(struct_ob("swap-form", qual(c, sw) + "[shortcut]", oks,
                                 "an unconditional exchange must imply A >= 1 for every temperature ladder: " + whys,
                                 REL, test.lineno))
    else:
        out.append(struct_ob("swap-form", qual(c, sw), False,
                             f"acceptance test `{U(test.test)}` is not `uniform <= A`", REL, test.lineno))
        out.append(struct_ob("swap-form", qual(c, sw) + "[orientation]", False, "see above", REL, test.lineno))
    # counters
    att = [s for s in ast.walk(sw) if isinstance(s, ast.AugAssign) and U(s.target).startswith("self.attempted_swaps")]
    suc = [s for s in ast.walk(test) if isinstance(s, ast.AugAssign) and U(s.target).startswith("self.successful_swaps")]
    okc = False
    why = ""
    if len(att) == 1 and len(suc) == 1:
        # attempted: inside a loop over the same pair list, indexed by the pair, += 1
        att_loop = [l for l in sw.body if isinstance(l, ast.For) and any(x is att[0] for x in ast.walk(l))]
        okc = (len(att_loop) == 1 and U(att_loop[0].iter) == U(loop.iter)
               and U(att[0].target) == f"self.attempted_swaps[{U(att_loop[0].target)}]"
               and U(att[0].value) == "1" and isinstance(att[0].op, ast.Add)
               and U(suc[0].target) == f"self.successful_swaps[{i}, {j}]"
               and U(suc[0].value) == "1" and isinstance(suc[0].op, ast.Add))
        why = f"attempted: `{U(att[0])}`; successful: `{U(suc[0])}`"
    out.append(struct_ob("swap-form", qual(c, sw) + "[counters]", okc,
                         "attempted must be incremented once per proposed pair and successful once per accepted pair, on the "
                         "same index pair: " + why, REL, sw.lineno))
    return out
