"""C03 - stored log-probabilities belong to the stored samples (tier S).

Decides: samples and log-probabilities are written together, from the same proposal, on
every path of every step function, at construction and in the exchange handler; the mode
indexes the sample store with the arg-max of the probability store; no store aliases a
caller's array and is then mutated in place.
Does not decide: numerical equality with the user's density.
"""
from __future__ import annotations
import ast
from ..model import qual
from ..flow import Enumerator, RETURN, RAISE, count, fmt
from ..own import Ownership, class_attr_aliases, class_mutation_sinks, arraylike_params, root_param
from ..symx import Expander
from ..anf import R
from .. import anf
from .common import struct_ob, formula_ob, guard, last_return, U
from . import mcmc
from ..report import AnalysisError
from ..term import Resolver, pmatch, find_all, abstract, anf_of
from ..seq import Layouts, UNKNOWN, show

FLOORS = {"pair-append": 5, "append-provenance": 4, "init-pair": 3, "exchange-pair": 3,
          "replace-last": 2, "mode": 3, "ownership": 6, "walker-pair": 1, "ensemble-append": 1,
          "store-integrity": 2, "store-owns-data": 2, "store-writers": 8}


def run(prog, tier):
    anf.reset()
    obs, info = [], []
    unroll = 3 if tier == "thorough" else 2

    stores = {c: mcmc.derive_stores(prog, c) for c in mcmc.SAMPLERS}

    # ------------------------------------------------------------ what is recorded is log-density / temperature
    # every evaluation of the user's density that feeds a recorded log-probability (constructor and step of the four chain
    # classes) carries the chain's inverse temperature exactly once, as a factor of the call itself
    from .C01 import _arith_holder
    for cname in ("MetropolisChain", "GibbsChain", "PcaChain", "HamiltonianChain"):
        ci_ = prog.cls(cname)
        if not prog.self_assignments(ci_, "inv_temp"):
            continue
        fns_ = [prog.find_method(ci_, "__init__")] + list(mcmc.step_functions(prog, cname))
        bad_t, n_t = [], 0
        for c_, fn_ in fns_:
            if fn_ is None or c_.name not in ("MetropolisChain", "GibbsChain", "PcaChain", "HamiltonianChain"):
                continue
            for call in mcmc.posterior_calls(fn_):
                n_t += 1
                h_ = _arith_holder(fn_, call)
                if str(U(h_)) not in (f"{U(call)} * self.inv_temp", f"self.inv_temp * {U(call)}"):
                    bad_t.append(f"{c_.name}.{fn_.name} line {call.lineno}: `{U(h_)[:70]}`")
        obs.append(struct_ob("stored-value-tempered", f"{ci_.module.name}.{cname}", not bad_t and n_t > 0,
                             "a recorded log-probability must be posterior(x) * inv_temp: " + "; ".join(bad_t[:2]), ci_.module.relpath,
                             ci_.node.lineno, slots={"posterior_calls": n_t}, tier="F"))
    # the two walker arrays of the ensemble are one table: outside the constructor / loader neither is re-bound as a whole (a
    # re-ordering or selection of the positions alone pairs every walker with another walker's log-probability)
    ens_ = prog.cls("EnsembleSampler")
    reb = []
    for mname_, fn_ in ens_.methods.items():
        if mname_ in ("__init__", "load"):
            continue
        for st_ in ast.walk(fn_):
            if isinstance(st_, (ast.Assign, ast.AugAssign)):
                for t_ in (st_.targets if isinstance(st_, ast.Assign) else [st_.target]):
                    for el_ in (t_.elts if isinstance(t_, ast.Tuple) else [t_]):
                        if isinstance(el_, ast.Attribute) and U(el_) in ("self.walker_positions", "self.walker_probs"):
                            reb.append(f"{mname_} line {st_.lineno}: `{U(st_)[:80]}`")
                        # a write THROUGH the array (`self.walker_positions[:] = ..`, a slice, a mask) anywhere but in the one-walker
                        # update is the same re-ordering / replacement in place
                        b_ = el_
                        while isinstance(b_, ast.Subscript):
                            b_ = b_.value
                        if isinstance(el_, ast.Subscript) and U(b_) in ("self.walker_positions", "self.walker_probs") \
                                and "advance_walker" not in mname_:
                            reb.append(f"{mname_} line {st_.lineno}: `{U(st_)[:80]}`")
            if isinstance(st_, ast.Expr) and isinstance(st_.value, ast.Call) and isinstance(st_.value.func, ast.Attribute) \
                    and st_.value.func.attr in ("sort", "shuffle", "resize") and U(st_.value.func.value) in ("self.walker_positions", "self.walker_probs"):
                reb.append(f"{mname_} line {st_.lineno}: `{U(st_)[:80]}`")
            if isinstance(st_, ast.Expr) and isinstance(st_.value, ast.Call) and U(st_.value.func).split(".")[-1] == "shuffle" and st_.value.args \
                    and U(st_.value.args[0]) in ("self.walker_positions", "self.walker_probs"):
                reb.append(f"{mname_} line {st_.lineno}: `{U(st_)[:80]}`")
    obs.append(struct_ob("walker-pair", f"{ens_.module.name}.EnsembleSampler[arrays-kept-together]", not reb,
                         "walker positions and walker log-probabilities are updated one walker at a time, together: " + "; ".join(reb[:2]),
                         ens_.module.relpath, ens_.node.lineno, tier="F"))

    # ------------------------------------------------------------ pair-append + provenance
    for cname in ("MetropolisChain", "GibbsChain", "PcaChain", "HamiltonianChain"):
        ci = prog.cls(cname)
        st = stores[cname]
        (c, fn), = mcmc.step_functions(prog, cname)
        rel = c.module.relpath
        classify, compound = mcmc.make_classifier(st)
        en = Enumerator(classify, compound, mcmc.self_inliner(prog, ci), unroll=unroll, depth=2)
        paths = en.function(fn)
        normal = [(ev, s) for ev, s in paths if s == RETURN]
        bad = [(ev, s) for ev, s in normal if not (count(ev, "APPEND_S") == 1 and count(ev, "APPEND_P") == 1)]
        msg = ""
        if bad:
            ev = bad[0][0]
            msg = (f"path {fmt([e for e in ev if e[0] in ('APPEND_S', 'APPEND_P', 'INC_LEN')])} appends samples "
                   f"x{count(ev, 'APPEND_S')}, log-probabilities x{count(ev, 'APPEND_P')} (must be 1 and 1 on every normal path)")
        obs.append(struct_ob("pair-append", qual(c, fn) + (f"[{cname}]" if c.name != cname else ""), not bad and bool(normal),
                             msg or "no normal path found", rel, fn.lineno,
                             slots={"paths": len(paths), "normal_paths": len(normal), "stores": repr(st)}))
        # provenance: the value appended to P is posterior(X)*... with X the value appended to S
        if not bad and normal:
            ev = normal[0][0]
            s_ev = [e for e in ev if e[0] == "APPEND_S"][0]
            p_ev = [e for e in ev if e[0] == "APPEND_P"][0]
            ok, why = _provenance(fn, s_ev, p_ev)
            if ok:
                # ... on EVERY normal path: between the posterior call that produced the appended log-probability and the append of the
                # sample, the sample variable is not re-bound (a fall-back arm that restores the old point keeps the new point's value)
                okp, whyp = _provenance_paths(fn, classify, compound, mcmc.self_inliner(prog, ci), unroll, s_ev[2], p_ev[2])
                if not okp:
                    ok, why = False, whyp
            obs.append(struct_ob("append-provenance", qual(c, fn) + (f"[{cname}]" if c.name != cname else ""), ok, why,
                                 rel, p_ev[1], slots={"sample_source": s_ev[2], "prob_value": p_ev[2]}))

    # ------------------------------------------------------------ Parameter.add_sample really appends
    pc, add = prog.method("Parameter", "add_sample")
    ok = any(isinstance(n, ast.Call) and U(n.func) == "self.samples.append"
             and U(n.args[0]) == add.args.args[1].arg for n in ast.walk(add))
    obs.append(struct_ob("pair-append", qual(pc, add), ok, "Parameter.add_sample must append its argument to self.samples",
                         pc.module.relpath, add.lineno))

    # ------------------------------------------------------------ ensemble: walker pair + sample append
    ens = prog.cls("EnsembleSampler")
    erel = ens.module.relpath
    c, aw = prog.method("EnsembleSampler", "__advance_walker")

    def cls_w(node):
        ev = []
        if isinstance(node, ast.Assign):
            for t in node.targets:
                if isinstance(t, ast.Subscript):
                    base = U(t.value)
                    idx = t.slice.elts[0] if isinstance(t.slice, ast.Tuple) else t.slice
                    if base == "self.walker_positions":
                        ev.append(("W_POS", node.lineno, U(idx) + "<-" + U(node.value)))
                    elif base == "self.walker_probs":
                        ev.append(("W_PROB", node.lineno, U(idx) + "<-" + U(node.value)))
        return ev
    en = Enumerator(cls_w, None, None, unroll=unroll)
    paths = en.function(aw)
    bad = [ev for ev, s in paths if s == RETURN and count(ev, "W_POS") != count(ev, "W_PROB")]
    ok = not bad
    why = ""
    if ok:
        # same walker index on both writes, and the probability written is posterior(position written)
        idxs = set()
        for ev, s in paths:
            for e in ev:
                idxs.add((e[0], e[2].split("<-")[0]))
        pos_idx = {i for k, i in idxs if k == "W_POS"}
        prob_idx = {i for k, i in idxs if k == "W_PROB"}
        param = aw.args.args[1].arg
        if pos_idx != {param} or prob_idx != {param}:
            ok, why = False, f"walker index written: positions {pos_idx}, probabilities {prob_idx}; expected {{{param}}}"
        else:
            vals = {k: e[2].split("<-")[1] for ev, s in paths for e in ev for k in [e[0]]}
            pdef = mcmc.last_def(aw, vals.get("W_PROB", ""), 10 ** 9)
            pc_ = mcmc.posterior_calls(pdef.value) if pdef is not None else []
            if not (len(pc_) == 1 and U(pc_[0].args[0]) == vals.get("W_POS")):
                ok, why = False, (f"walker_probs[{param}] is written with `{vals.get('W_PROB')}` which is not "
                                  f"posterior(`{vals.get('W_POS')}`)")
            else:
                # ... of the point as it is WHEN it is stored: between the evaluation and the store the position variable is not
                # re-bound or written into (a fold applied after the evaluation stores another point than the one evaluated)
                pos_name = vals.get("W_POS")
                store_lines = [e[1] for ev, s in paths for e in ev if e[0] == "W_POS"]
                if pos_name and pos_name.isidentifier() and store_lines:
                    for st_ in ast.walk(aw):
                        tg_ = st_.targets if isinstance(st_, ast.Assign) else [st_.target] if isinstance(st_, ast.AugAssign) else []
                        for t_ in tg_:
                            for el_ in (t_.elts if isinstance(t_, (ast.Tuple, ast.List)) else [t_]):
                                b_ = el_
                                while isinstance(b_, ast.Subscript):
                                    b_ = b_.value
                                if isinstance(b_, ast.Name) and b_.id == pos_name and pdef.lineno < st_.lineno <= max(store_lines) \
                                        and st_ is not pdef:
                                    ok, why = False, (f"`{U(st_)[:70]}` (line {st_.lineno}) changes `{pos_name}` after its log-probability was "
                                                      f"computed and before it is stored: the stored pair is (new point, old point's probability)")
    else:
        why = f"path {fmt(bad[0])} writes position and probability unequally"
    obs.append(struct_ob("walker-pair", qual(c, aw), ok, why, erel, aw.lineno))

    c, adv = prog.method("EnsembleSampler", "advance")
    obs.append(_ensemble_append(c, adv, erel, prog))

    # ------------------------------------------------------------ init-pair
    obs.extend(_init_pairs(prog, stores))

    # ------------------------------------------------------------ exchange-pair
    obs.extend(_exchange(prog))

    # ------------------------------------------------------------ replace-last
    for cname in ("MetropolisChain", "HamiltonianChain"):
        c, fn = prog.method(cname, "replace_last")
        st = stores[cname]
        writes = []
        for n in ast.walk(fn):
            if isinstance(n, ast.Assign):
                for t in n.targets:
                    if isinstance(t, ast.Subscript):
                        writes.append(t)
        if st.kind == "attr":
            ok = len(writes) == 1 and U(writes[0].value) == f"self.{st.S}" and U(writes[0].slice) == "-1"
        else:
            ok = (len(writes) == 1 and isinstance(writes[0].value, ast.Attribute) and writes[0].value.attr == st.S[1]
                  and U(writes[0].slice) == "-1"
                  and any(isinstance(n, ast.For) and f"self.{st.S[0]}" in U(n.iter) for n in ast.walk(fn)))
        obs.append(struct_ob("replace-last", qual(c, fn), ok,
                             f"replace_last must overwrite exactly the last element of the sample store {st.S}; writes: "
                             f"{[U(w) for w in writes]}", c.module.relpath, fn.lineno))

    # ------------------------------------------------------------ mode
    for cname in ("MetropolisChain", "HamiltonianChain", "EnsembleSampler"):
        c, fn = prog.method(cname, "mode")
        st = stores[cname]
        obs.append(_mode(c, fn, st))

    # ------------------------------------------------------------ ownership
    own = Ownership(prog)
    targets = list(mcmc.SAMPLERS) + ["Bounds"]
    if tier == "thorough":
        # package-wide sweep: every class with a constructor taking an array-like parameter
        for ci in prog.classes.values():
            if ci.name not in targets and "__init__" in ci.methods and ci.module.relpath != "inference/plotting.py":
                targets.append(ci.name)
    for cname in targets:
        ci = prog.cls(cname)
        res = ownership_obligations(prog, own, ci)
        if cname in mcmc.SAMPLERS or cname == "Bounds":
            obs.extend(res)
        else:
            for o in res:
                if not o.ok:
                    info.append(f"C03 sweep (not part of this property): {o.construct} {o.msg}")

    # ------------------------------------------------------------ the stores own their data
    for cname in ("HamiltonianChain", "EnsembleSampler"):
        ci = prog.cls(cname)
        st = stores[cname]
        attr_alias, ctor_info = class_attr_aliases(own, prog, ci)
        retained = {}
        for attr in (st.S, st.P, "walker_positions", "walker_probs"):
            for root in attr_alias.get(attr, ()):
                pname = root_param(root)
                if pname is not None:
                    retained.setdefault(attr, set()).add(pname)
        obs.append(struct_ob("store-owns-data", f"{ci.module.name}.{cname}.__init__", not retained,
                             f"recorded state {sorted(retained)} may be the caller's own array (constructor parameter(s) "
                             f"{sorted({p for v in retained.values() for p in v})} stored without a copy): a later write by the caller, or "
                             f"a second sampler built from the same array, changes a recorded sample under its frozen log-probability",
                             ci.module.relpath, ci.methods["__init__"].lineno, slots={"retained": {k: sorted(v) for k, v in retained.items()}}))

    # ------------------------------------------------------------ stored samples are never written through
    for cname in ("HamiltonianChain", "EnsembleSampler"):
        ci = prog.cls(cname)
        st = stores[cname]
        seeds = {}
        if cname == "HamiltonianChain":
            seeds = {st.S: {("elem", ("store", st.S))}, st.P: {("elem", ("store", st.P))}}
        else:
            seeds = {st.S: {("store", st.S)}, st.P: {("store", st.P)}}
        hits = [(root, c, f, line, text) for root, c, f, line, text in class_mutation_sinks(own, prog, ci, seeds)
                if isinstance(_unelem(root), tuple) and _unelem(root)[0] == "store"]
        msg = ""
        if hits:
            root, c, f, line, text = hits[0]
            msg = f"recorded {_unelem(root)[1]} is mutated in place at {c.module.relpath}:{line} in {f.name}: `{text}`"
        obs.append(struct_ob("store-integrity", f"{ci.module.name}.{cname}", not hits, msg, ci.module.relpath,
                             hits[0][3] if hits else ci.node.lineno, slots={"stores": repr(st)}))

    # ------------------------------------------------------------ who may write the stores
    obs.extend(_store_writers(prog, stores))

    meta = {
        "explanation": "Path/event enumeration of every step function (loops unrolled, break/continue/for-else honoured): "
                       "each normal path appends exactly one sample vector and one log-probability, and the appended "
                       "log-probability is posterior(X) for the X that is appended; constructor, exchange handler, "
                       "replace_last and mode are checked structurally against the stores the getters read; an ownership "
                       "analysis (may-alias of constructor parameters x in-place mutation sinks, with view/copy semantics "
                       "and per-function mutation summaries) shows no caller array is written through.",
        "assumptions": ["infeasible syntactic paths are kept (can only add obligations)",
                        "numpy view/copy semantics as tabulated in sa/own.py"],
        "info": info,
        "extra": {"stores": {k: repr(v) for k, v in stores.items()}, "unroll": unroll},
    }
    return obs, FLOORS, meta


def _unelem(root):
    while isinstance(root, tuple) and root and root[0] == "elem":
        root = root[1]
    return root


def _provenance(fn, s_ev, p_ev):
    """P-appended value resolves to posterior(X) (times anything) with X == the S-append source."""
    pexpr = ast.parse(p_ev[2], mode="eval").body
    sexpr = ast.parse(s_ev[2], mode="eval").body if s_ev[2] and not s_ev[2].startswith("?") else None
    if sexpr is None:
        return False, f"sample append does not pair each parameter with its own value ({s_ev[2]})"
    # resolve the P value to the expression containing the posterior call
    node = pexpr
    line = p_ev[1]
    for _ in range(4):
        if mcmc.posterior_calls(node):
            break
        node = mcmc.unwrap(node)
        if isinstance(node, ast.Name):
            d = mcmc.last_def(fn, node.id, line)
            if d is None:
                break
            node, line = d.value, d.lineno
        else:
            break
    calls = mcmc.posterior_calls(node)
    if len(calls) != 1:
        return False, f"value appended to the probability store (`{p_ev[2]}`) does not come from one posterior call"
    arg = mcmc.resolve_name(fn, calls[0].args[0], 10 ** 9)
    src = mcmc.resolve_name(fn, sexpr, s_ev[1])
    if U(arg) != U(src):
        return False, (f"log-probability appended is posterior(`{U(arg)}`) but the sample appended is "
                       f"`{U(src)}`")
    return True, ""


def _provenance_paths(fn, classify, compound, inliner, unroll, s_src, p_val):
    """Path-sensitive part of the provenance rule.  Events: DEF(name) for every plain (re)binding of a local name, PCALL(arg) for
    every posterior call with a name as argument, plus the store events.  On each normal path: let X be the sample source and
    P the appended probability name; the last DEF(P) before the append must hold a PCALL(X), and no DEF(X) may lie between that
    statement and APPEND_S."""
    if not (s_src.isidentifier() and p_val.isidentifier()):
        return True, ""

    def classify2(node):
        ev = list(classify(node))
        if isinstance(node, (ast.Assign, ast.AugAssign)):
            tgts = node.targets if isinstance(node, ast.Assign) else [node.target]
            names = []
            for t in tgts:
                for x in (t.elts if isinstance(t, (ast.Tuple, ast.List)) else [t]):
                    if isinstance(x, ast.Name):
                        names.append(x.id)
                    elif isinstance(x, ast.Subscript):
                        # a coordinate written into the array (`prop[i] = ..`): the point the name stands for changes
                        b_ = x
                        while isinstance(b_, ast.Subscript):
                            b_ = b_.value
                        if isinstance(b_, ast.Name):
                            names.append(b_.id)
            pc = [U(c_.args[0]) for c_ in mcmc.posterior_calls(node.value) if c_.args]
            for nm in names:
                ev.append(("DEF", node.lineno, nm + "|" + ",".join(pc)))
        # a call made for its effect on an array (`x.round(10, out=x)`, `x.sort()`, `clip(x, .., out=x)`): the point changes
        if isinstance(node, ast.Expr) and isinstance(node.value, ast.Call):
            cl = node.value
            outs = [x.id for k_ in cl.keywords if k_.arg == "out" for x in ast.walk(k_.value) if isinstance(x, ast.Name)]
            if isinstance(cl.func, ast.Attribute) and cl.func.attr in ("sort", "fill", "resize", "put", "partition", "itemset", "clip", "round") \
                    and isinstance(cl.func.value, ast.Name) and (cl.func.attr not in ("clip", "round") or outs):
                outs.append(cl.func.value.id)
            if U(cl.func).split(".")[-1] in ("copyto", "put", "place", "putmask", "fill_diagonal", "shuffle") and cl.args and isinstance(cl.args[0], ast.Name):
                outs.append(cl.args[0].id)
            for nm in set(outs):
                ev.append(("DEF", node.lineno, nm + "|"))
        return ev
    en = Enumerator(classify2, compound, inliner, unroll=unroll, depth=2)
    for ev, s in en.function(fn):
        if s != RETURN:
            continue
        idx_s = [i for i, e in enumerate(ev) if e[0] == "APPEND_S"]
        idx_p = [i for i, e in enumerate(ev) if e[0] == "APPEND_P"]
        if len(idx_s) != 1 or len(idx_p) != 1:
            continue
        end = max(idx_s[0], idx_p[0])
        pdefs = [i for i, e in enumerate(ev[:end]) if e[0] == "DEF" and e[2].split("|")[0] == p_val]
        if not pdefs:
            continue
        k = pdefs[-1]
        args = ev[k][2].split("|")[1].split(",") if "|" in ev[k][2] else []
        if s_src not in args:
            # the probability name may be a copy of another name (p_old = p_new): follow one step
            continue
        later = [e for e in ev[k + 1:idx_s[0]] if e[0] == "DEF" and e[2].split("|")[0] == s_src]
        if later:
            return False, (f"on the path {fmt([e for e in ev if e[0] in ('DEF', 'APPEND_S', 'APPEND_P') and (e[0] != 'DEF' or e[2].split('|')[0] in (s_src, p_val))])} "
                           f"`{s_src}` is re-bound (line {later[0][1]}) after `{p_val} = posterior({s_src})..` was computed: the sample appended is "
                           f"not the point whose log-probability is appended")
    return True, ""


def _ensemble_append(c, adv, erel, prog=None):
    """One __advance_all and one .copy() append of each walker array per iteration; lists flow to the stores."""
    L = Layouts(adv, prog, c.module, c)
    rz = L.rz
    npar = adv.args.args[1].arg
    why = []
    loops = [n for n in adv.body if isinstance(n, ast.For) and pmatch(n.iter, f"range({npar})") is not None]
    if len(loops) != 1:
        why.append(f"{len(loops)} loops over range({npar})")
    else:
        adv_all = [s for s in loops[0].body if isinstance(s, ast.Expr) and isinstance(s.value, ast.Call) and "advance_all" in U(s.value.func)]
        if len(adv_all) != 1:
            why.append(f"{len(adv_all)} calls advancing all walkers per iteration")
    stores = {}
    for st in adv.body:
        if isinstance(st, ast.Assign) and U(st.targets[0]) in ("self.sample", "self.sample_probs"):
            stores[str(U(st.targets[0]))] = st
    for attr, walker in (("self.sample", "self.walker_positions"), ("self.sample_probs", "self.walker_probs")):
        st = stores.get(attr)
        lay = None
        if st is not None and isinstance(st.value, ast.Call) and st.value.args and all(
                k_.arg == "axis" and U(k_.value) == "0" for k_ in st.value.keywords) and (
                U(st.value.func) == "concatenate" or (U(st.value.func) in ("vstack", "row_stack") and attr == "self.sample")
                or (U(st.value.func) == "hstack" and attr == "self.sample_probs")):
            lay = L.layout_of(st.value.args[0], st)
        want = (("cond", f"{attr} is None", (), (("item", attr),)), ("each", ("iter", f"range({npar})"), f"{walker}.copy()"))

        def copies(x):
            # `array(W)` / `copy(W)` of an array are `W.copy()`
            if isinstance(x, tuple):
                return tuple(copies(y) for y in x)
            if isinstance(x, str) and x in (f"array({walker})", f"copy({walker})", f"{walker}.copy(order='C')"):
                return f"{walker}.copy()"
            return x
        lay = copies(lay)
        if lay != want:
            why.append(f"{attr} is rebuilt from {show(lay)}; expected the existing {attr} followed by one copy of {walker} per iteration")
    return struct_ob("ensemble-append", qual(c, adv), not why,
                     "each iteration must advance all walkers once and append copies of both walker arrays, which are "
                     "concatenated onto the existing sample / sample_probs: " + "; ".join(why), erel, adv.lineno)


def _init_pairs(prog, stores):
    out = []
    # MetropolisChain: probs.append(posterior(get_last()) ...) and get_last reads samples[-1] of self.params
    c, init = prog.method("MetropolisChain", "__init__")
    rel = c.module.relpath
    app = [n for n in ast.walk(init) if isinstance(n, ast.Call) and U(n.func) == "self.probs.append"]
    ok = False
    why = "no probs.append in the constructor"
    if len(app) == 1:
        pcs = mcmc.posterior_calls(app[0])
        ok = len(pcs) == 1 and U(pcs[0].args[0]) == "self.get_last()"
        why = f"starting log-probability is `{U(app[0].args[0])}`"
        glc, gl = prog.method("MetropolisChain", "get_last")
        rg = Resolver(gl, prog, glc.module, glc)
        rets_ = rg.return_terms()
        ok = ok and len(rets_) == 1 and bool(find_all(rets_[0], "[_p.samples[-1] for _p in self.params]"))
        # params are built from start, in order
        Lp = Layouts(init, prog, c.module, c)
        start_p, width_p = init.args.args[2].arg, init.args.args[3].arg
        lay = Lp.state.get("self.params")
        okp = lay == (("each", ("iter", f"zip({start_p}, {width_p})"), "Parameter(va0, va1)"),)
        ok = ok and okp
        if not okp:
            why += f"; parameters are {show(lay)}, expected one Parameter(value, width) per element of zip({start_p}, {width_p})"
    out.append(struct_ob("init-pair", qual(c, init), ok,
                         "P[0] must be posterior(S[0]) for the stored start: " + why, rel, init.lineno))
    # HamiltonianChain
    c, init = prog.method("HamiltonianChain", "__init__")
    rel = c.module.relpath
    ci = prog.cls("HamiltonianChain")
    t = prog.self_assignments(ci, "theta", methods={"__init__"})
    p = prog.self_assignments(ci, "probs", methods={"__init__"})
    ok = False
    why = ""
    if len(t) == 1 and len(p) == 1 and isinstance(t[0][3], ast.List) and isinstance(p[0][3], ast.List) \
            and len(t[0][3].elts) == 1 and len(p[0][3].elts) == 1:
        rzi = Resolver(init, prog, c.module, c)
        pterm = rzi.term(p[0][3], p[0][2])
        tterm = rzi.term(t[0][3].elts[0], t[0][2])
        pcs = mcmc.posterior_calls(pterm)
        ok = len(pcs) == 1 and U(pcs[0].args[0]) == U(tterm)
        why = f"theta=[{U(tterm)[:80]}] probs={U(pterm)[:120]}"
    # ... and the pair is not edited afterwards: no element of either store is written, inserted or removed later in the constructor
    edits = []
    for st_ in ast.walk(init):
        tg_ = st_.targets[0] if isinstance(st_, ast.Assign) and len(st_.targets) == 1 else st_.target if isinstance(st_, ast.AugAssign) else None
        if isinstance(tg_, ast.Subscript):
            b_ = tg_
            while isinstance(b_, ast.Subscript):
                b_ = b_.value
            if U(b_) in ("self.theta", "self.probs"):
                edits.append((st_.lineno, U(st_)[:80]))
        if isinstance(st_, ast.Expr) and isinstance(st_.value, ast.Call) and isinstance(st_.value.func, ast.Attribute) \
                and st_.value.func.attr in ("append", "insert", "extend", "pop", "remove", "clear", "__setitem__") \
                and U(st_.value.func.value) in ("self.theta", "self.probs"):
            edits.append((st_.lineno, U(st_)[:80]))
    if edits:
        ok = False
        why += f"; line {edits[0][0]}: `{edits[0][1]}` edits a store after the starting pair was recorded"
    out.append(struct_ob("init-pair", qual(c, init), ok, "P[0] must be posterior(S[0]): " + why, rel, init.lineno))
    # EnsembleSampler
    c, init = prog.method("EnsembleSampler", "__init__")
    rel = c.module.relpath
    ci = prog.cls("EnsembleSampler")
    p = prog.self_assignments(ci, "walker_probs", methods={"__init__"})
    ok = False
    why = ""
    if len(p) == 1:
        lcs = [n for n in ast.walk(p[0][3]) if isinstance(n, ast.ListComp)]
        if len(lcs) == 1:
            g = lcs[0].generators[0]
            pcs = mcmc.posterior_calls(lcs[0].elt)
            ok = (U(g.iter) == "self.walker_positions" and len(pcs) == 1
                  and U(pcs[0].args[0]) == U(g.target)
                  and U(lcs[0].elt) == U(pcs[0]) and not g.ifs)
            # the same walk by index: posterior(self.walker_positions[k]) for k in range(<number of walkers>)
            bm = pmatch(g.iter, "range(_n)")
            if not ok and bm is not None and isinstance(g.target, ast.Name) and len(pcs) == 1 and not g.ifs \
                    and U(lcs[0].elt) == U(pcs[0]) and U(pcs[0].args[0]) in (f"self.walker_positions[{g.target.id}]", f"self.walker_positions[{g.target.id}, :]"):
                n_ = bm["_n"]
                rows = n_ in ("len(self.walker_positions)", "self.walker_positions.shape[0]")
                if not rows and n_ == "self.n_walkers":
                    # n_walkers is the row count of the array the walker positions are a copy of
                    nw = prog.self_assignments(ci, "n_walkers", methods={"__init__"})
                    wp = prog.self_assignments(ci, "walker_positions", methods={"__init__"})
                    src = set()
                    for a_ in nw:
                        stn = a_[2]
                        v_ = stn.value if isinstance(stn, ast.Assign) else None
                        if isinstance(v_, ast.Attribute) and v_.attr == "shape" and isinstance(stn.targets[0], ast.Tuple) \
                                and U(stn.targets[0].elts[0]) == "self.n_walkers":
                            src.add(U(v_.value))
                        elif v_ is not None and pmatch(v_, "_a.shape[0]") is not None:
                            src.add(pmatch(v_, "_a.shape[0]")["_a"])
                    rows = len(nw) >= 1 and len(src) == 1 and len(wp) >= 1 and \
                        all(any(isinstance(x, (ast.Name, ast.Attribute)) and U(x) in src | {"self.walker_positions"} for x in ast.walk(a_[3])) for a_ in wp) or \
                        (len(src) == 1 and "self.walker_positions" in src)
                ok = rows
        why = U(p[0][3])
    out.append(struct_ob("init-pair", qual(c, init), ok,
                         "walker_probs must be posterior(t) for each t in walker_positions, in order: " + why,
                         rel, init.lineno))
    return out


def _exchange(prog):
    out = []
    rel = "inference/mcmc/parallel.py"
    mi = prog.module(rel)
    tp = prog.function(rel, "tempering_process")
    # the update_position branch
    branch = None
    for n in ast.walk(tp):
        if isinstance(n, ast.If) and isinstance(n.test, ast.Compare) and isinstance(n.test.comparators[0], ast.Constant) \
                and n.test.comparators[0].value == "update_position":
            branch = n
    ok, why = False, "handler for 'update_position' not found"
    chain = tp.args.args[0].arg
    rt = Resolver(tp, prog, mi, None)
    if branch is not None:
        msg = branch.test.left.value.id if isinstance(branch.test.left, ast.Subscript) and isinstance(branch.test.left.value, ast.Name) else "D"
        c1 = False
        for n in ast.walk(ast.Module(body=branch.body, type_ignores=[])):
            if isinstance(n, ast.Call) and U(n.func) == f"{chain}.replace_last" and len(n.args) == 1:
                c1 = U(rt.term(n.args[0], rt.stmt_of(n), keep=(msg,))) == f"{msg}['position']"
        # ANF: stored = D["probability"] * inv_temp(receiver)
        c2 = False
        for s_ in ast.walk(ast.Module(body=branch.body, type_ignores=[])):
            if isinstance(s_, ast.Assign) and U(s_.targets[0]) == f"{chain}.probs[-1]":
                ab, _ = abstract(rt.term(s_.value, s_, keep=(msg,)), [(f"{msg}['probability']", "P"), (f"{chain}.inv_temp", "B")])
                try:
                    c2 = anf_of(ab).eq(R.sym("P") * R.sym("B"))
                except Exception:
                    c2 = False
        ok = c1 and c2
        why = f"position installed from the message: {c1}; probability = message probability x receiver's inverse temperature: {c2}"
    out.append(struct_ob("exchange-pair", f"{mi.name}.tempering_process[update_position]", ok,
                         "the exchange handler must install the received position and its probability re-expressed at "
                         "the receiving temperature, together: " + why, rel, tp.lineno))
    # swap: each message built from one index; crossed sends; probability de-tempered with its own index
    c, sw = prog.method("ParallelTempering", "swap")
    rs = Resolver(sw, prog, mi, c)
    loop = None
    for n in sw.body:
        if isinstance(n, ast.For) and isinstance(n.target, ast.Tuple) and len(n.target.elts) == 2:
            loop = n
    ok, why = False, "pair loop not found"
    if loop is not None:
        i, j = [e.id for e in loop.target.elts]
        # the reply tables: fields 0 / 1 of the per-chain replies
        tables = {}
        bound = []
        for s_ in sw.body:
            if isinstance(s_, ast.Assign):
                for t0 in s_.targets:
                    bound.extend(x.id for x in (t0.elts if isinstance(t0, (ast.Tuple, ast.List)) else [t0]) if isinstance(x, ast.Name))
        for nm in bound:
            t_ = rs.term(ast.Name(id=nm, ctx=ast.Load()), loop)
            for fld in (0, 1):
                if pmatch(t_, f"[_e[{fld}] for _e in [_p.recv() for _p in self.connections]]") is not None:
                    tables[fld] = nm
        detail, crossed, good = [], [], True
        sends = [(n, rs.stmt_of(n)) for n in ast.walk(loop) if isinstance(n, ast.Call) and isinstance(n.func, ast.Attribute)
                 and n.func.attr == "send" and isinstance(n.func.value, ast.Subscript) and U(n.func.value.value) == "self.connections"]
        for call, st_ in sends:
            pipe = U(call.func.value.slice)
            m = rs.term(call.args[0], st_, keep=tuple(tables.values())) if call.args else None
            if not isinstance(m, ast.Dict):
                good = False
                detail.append(f"message to pipe {pipe} is `{U(m)[:120] if m is not None else None}`")
                continue
            fields = {k.value: v for k, v in zip(m.keys, m.values) if isinstance(k, ast.Constant)}
            bpos = pmatch(fields.get("position"), f"{tables.get(0, 'MISSING0')}[_k]") if "position" in fields else None
            owner = bpos["_k"] if bpos else None
            okp = False
            if owner is not None and "probability" in fields:
                ab, _ = abstract(fields["probability"], [(f"{tables.get(1, 'MISSING1')}[{owner}]", "P"), (f"self.inv_temps[{owner}]", "B")])
                try:
                    okp = anf_of(ab).eq(R.sym("P").div(R.sym("B")))
                except Exception:
                    okp = False
            task = fields.get("task")
            if owner is None or not okp or not (isinstance(task, ast.Constant) and task.value == "update_position"):
                good = False
                detail.append(f"message to pipe {pipe}: position `{U(fields['position']) if 'position' in fields else None}`, probability "
                              f"`{U(fields['probability'])[:120] if 'probability' in fields else None}`")
            crossed.append((pipe, owner))
        # both sends happen only when the exchange is accepted: each lies in the body of the `if <draw> <= exp(..)` test of the pair loop
        acc_ifs = [n for n in ast.walk(loop) if isinstance(n, ast.If) and any(
            isinstance(x, ast.Call) and U(x.func).split(".")[-1] in ("random", "uniform", "rand") for x in ast.walk(n.test))]
        for call, st_ in sends:
            inside = any(any(x is call for b_ in a_.body for x in ast.walk(b_)) for a_ in acc_ifs)
            if not inside:
                good = False
                detail.append(f"line {call.lineno}: `{U(call)[:60]}` is not under the acceptance test: the chain receives the other chain's "
                              f"point for every proposed pair, accepted or not")
        ok = good and len(sends) == 2 and sorted(crossed) == sorted([(i, j), (j, i)]) and set(tables) == {0, 1}
        why = f"reply tables {tables}; sends (pipe, owner index of message) {sorted(crossed, key=str)}; {detail}"
    out.append(struct_ob("exchange-pair", qual(c, sw) + "[messages]", ok,
                         "each exchange message must carry position and de-tempered probability of one chain k and be "
                         "sent to the other chain's pipe: " + why, rel, sw.lineno))
    # positions / probabilities unpacked from the same reply in the same order as worker sends
    worker_reply = None
    for n in ast.walk(tp):
        if isinstance(n, ast.If) and isinstance(n.test, ast.Compare) and isinstance(n.test.comparators[0], ast.Constant) \
                and n.test.comparators[0].value == "send_position":
            for s_ in ast.walk(ast.Module(body=n.body, type_ignores=[])):
                if isinstance(s_, ast.Call) and U(s_.func).endswith(".send") and s_.args:
                    worker_reply = rt.term(s_.args[0], rt.stmt_of(s_))
    ok3 = (loop is not None and set(tables) == {0, 1} and worker_reply is not None
           and pmatch(worker_reply, f"({chain}.get_last(), {chain}.probs[-1])") is not None)
    out.append(struct_ob("exchange-pair", qual(c, sw) + "[reply-unpack]", ok3,
                         f"positions/probabilities must be fields 0/1 of the worker's (position, probability) reply; "
                         f"worker sends {U(worker_reply) if worker_reply is not None else None}; parent tables: {tables if loop is not None else None}",
                         rel, sw.lineno))
    return out


def _mode(c, fn, st):
    """On the returned TERM (locals inlined): the sample store is indexed with the arg-max of the whole probability store."""
    rz = Resolver(fn)
    rets = rz.return_terms()
    txt = U(rets[0])[:200] if rets else ""

    def is_argmax(e):
        while isinstance(e, ast.Call) and isinstance(e.func, ast.Name) and e.func.id in ("int", "intp") and len(e.args) == 1:
            e = e.args[0]           # int(argmax(..)) is the same index
        return U(e) in (f"argmax(self.{st.P})", f"self.{st.P}.argmax()", f"argmax(array(self.{st.P}))", f"array(self.{st.P}).argmax()")
    ok, why = False, "no return"
    if len(rets) == 1:
        t = rets[0]
        if st.kind == "attr":
            subs = [n for n in ast.walk(t) if isinstance(n, ast.Subscript) and U(n.value) == f"self.{st.S}"]
            if len(subs) == 1:
                sl = subs[0].slice
                first, rest = (sl.elts[0], sl.elts[1:]) if isinstance(sl, ast.Tuple) else (sl, [])
                ok = is_argmax(first) and all(
                    isinstance(r, ast.Slice) and r.lower is None and r.upper is None and r.step is None for r in rest)
        else:
            subs = [n for n in ast.walk(t) if isinstance(n, ast.Subscript) and isinstance(n.value, ast.Attribute)
                    and n.value.attr == st.S[1]]
            lcs = [n for n in ast.walk(t) if isinstance(n, ast.ListComp)]
            ok = (len(subs) == 1 and is_argmax(subs[0].slice) and len(lcs) == 1
                  and U(lcs[0].generators[0].iter) == f"self.{st.S[0]}")
        # the whole store read through the class's own read-out: get_sample(burn=0) with the default thin of 1 (decided by C14) is
        # every recorded sample, one per row
        if not ok:
            for pt_ in ("self.get_sample(burn=0)[_i, :]", "self.get_sample(burn=0)[_i]", "self.get_sample(burn=0, thin=1)[_i, :]",
                        "self.get_sample(burn=0, thin=1)[_i]", "self.get_sample(0)[_i, :]", "self.get_sample(0)[_i]", "self.get_sample(0, 1)[_i]",
                        "self.get_sample(0, 1)[_i, :]"):
                b_ = pmatch(t, pt_)
                try:
                    if b_ is not None and is_argmax(ast.parse(b_["_i"], mode="eval").body):
                        ok = True
                except SyntaxError:
                    pass
        # ... and is handed back as it is: the reported mode IS a recorded sample (a copy at most), not a rounded / re-typed one
        if ok:
            e_ = t
            while True:
                if isinstance(e_, ast.Call) and isinstance(e_.func, ast.Attribute) and e_.func.attr in ("copy", "squeeze", "ravel", "flatten") and not e_.args:
                    e_ = e_.func.value
                elif isinstance(e_, ast.Call) and isinstance(e_.func, ast.Name) and e_.func.id in ("array", "copy", "asarray") and len(e_.args) == 1 \
                        and not [k_ for k_ in e_.keywords if k_.arg == "dtype"]:
                    e_ = e_.args[0]
                else:
                    break
            if not isinstance(e_, (ast.Subscript, ast.ListComp, ast.Name)):
                ok = False
        why = f"mode returns `{txt}`"
    return struct_ob("mode", qual(c, fn), ok,
                     f"the mode must index the whole sample store {st.S} with argmax of the whole probability store {st.P}: {why}",
                     c.module.relpath, fn.lineno)


def ownership_obligations(prog, own, ci, ctor="__init__"):
    """One obligation per array-like constructor parameter: no in-place sink reaches it."""
    out = []
    attr_alias, info = class_attr_aliases(own, prog, ci, ctor)
    if info is None:
        return out
    c, fn, params, ctor_sinks = info
    cand = arraylike_params(fn)
    sinks = [(root, c, fn, line, text) for root, line, text in ctor_sinks]
    sinks += class_mutation_sinks(own, prog, ci, attr_alias)
    by_param = {}
    for root, cc, f, line, text in sinks:
        p = root_param(root)
        if p is not None:
            by_param.setdefault(p, []).append((cc, f, line, text))
    for p in cand:
        hits = by_param.get(p, [])
        aliases = sorted(a for a, roots in attr_alias.items() if any(root_param(r) == p for r in roots))
        msg = ""
        if hits:
            cc, f, line, text = hits[0]
            msg = (f"constructor parameter `{p}` may be aliased by self.{aliases} and is mutated in place at "
                   f"{cc.module.relpath}:{line} in {f.name}: `{text}`" + (f" (+{len(hits)-1} more)" if len(hits) > 1 else ""))
        out.append(struct_ob("ownership", f"{ci.module.name}.{ci.name}.{ctor}", not hits, msg, c.module.relpath,
                             hits[0][2] if hits else fn.lineno, detail=f"param {p}",
                             slots={"param": p, "aliased_by": aliases, "sinks": [h[3] for h in hits][:4]},
                             nontrivial=bool(aliases)))
    return out


# ---------------------------------------------------------------------------------------------- who may write the stores
_MUTATORS = {"append", "extend", "insert", "pop", "remove", "clear", "sort", "reverse", "__setitem__", "__delitem__", "fill", "put", "resize"}


def _direct_store_writes(fn, attrs):
    """[(attr, lineno, text)]: rebinding, item store / delete, augmented assignment and in-place method calls, inside `fn`, on any
    object's attribute whose name is in `attrs` (also through a local name bound to such an attribute)."""
    alias = {}
    for n in ast.walk(fn):
        if isinstance(n, ast.Assign) and isinstance(n.value, ast.Attribute) and n.value.attr in attrs:
            for t in n.targets:
                if isinstance(t, ast.Name):
                    alias[t.id] = n.value.attr

    def base(e, strip_needed):
        k = 0
        while isinstance(e, ast.Subscript):
            e = e.value
            k += 1
        if isinstance(e, ast.Attribute) and e.attr in attrs:
            return e.attr
        if isinstance(e, ast.Name) and e.id in alias and (k > 0 or not strip_needed):
            return alias[e.id]
        return None
    out = []
    for n in ast.walk(fn):
        tgts = []
        if isinstance(n, ast.Assign):
            for t in n.targets:
                tgts.extend(t.elts if isinstance(t, (ast.Tuple, ast.List)) else [t])
        elif isinstance(n, (ast.AugAssign, ast.AnnAssign)):
            tgts = [n.target]
        elif isinstance(n, ast.Delete):
            tgts = list(n.targets)
        for t in tgts:
            a = base(t, strip_needed=not isinstance(n, ast.AugAssign))
            if a is not None:
                out.append((a, n.lineno, U(n)[:120]))
        if isinstance(n, ast.Call) and isinstance(n.func, ast.Attribute) and n.func.attr in _MUTATORS:
            a = base(n.func.value, strip_needed=False)
            if a is not None:
                out.append((a, n.lineno, U(n)[:120]))
    return out


def _store_writers(prog, stores):
    """Every function of the sampler package that changes a sample store without changing the probability store (or the other way
    round) must be a helper: it has callers, and every chain of callers reaches a function that changes both.  A public entry point
    that rewrites recorded samples alone leaves log-probabilities that belong to points no longer in the chain."""
    s_attrs = {st.S[1] if st.kind == "params" else st.S for st in stores.values()}
    p_attrs = {st.P for st in stores.values()}
    attrs = s_attrs | p_attrs
    funcs = {}        # key -> (ClassInfo | None, FunctionDef, ModuleInfo)
    by_name = {}
    for mname, mi in prog.modules.items():
        if not mname.startswith("inference.mcmc"):
            continue
        for ci in mi.classes.values():
            for name, fn in ci.methods.items():
                funcs[(ci.name, name)] = (ci, fn, mi)
                by_name.setdefault(name, []).append((ci.name, name))
        for name, fn in mi.functions.items():
            funcs[(None, name)] = (None, fn, mi)
            by_name.setdefault(name, []).append((None, name))
    direct = {k: _direct_store_writes(v[1], attrs) for k, v in funcs.items()}

    def init_of(cname):
        ci = prog.classes.get(cname)
        if ci is None:
            return []
        c, f = prog.find_method(ci, "__init__")
        return [(c.name, "__init__")] if f is not None else []
    calls = {k: set() for k in funcs}
    for k, (ci, fn, mi) in funcs.items():
        for n in ast.walk(fn):
            if not isinstance(n, ast.Call):
                continue
            f = n.func
            if isinstance(f, ast.Name):
                if f.id in prog.classes:
                    calls[k].update(init_of(f.id))
                elif (None, f.id) in funcs:
                    calls[k].add((None, f.id))
            elif isinstance(f, ast.Attribute):
                if f.attr == "__init__":
                    if ci is not None:
                        for b in ci.base_names:
                            calls[k].update(init_of(b))
                    continue
                if isinstance(f.value, ast.Name) and f.value.id in prog.classes:
                    c2, f2 = prog.find_method(prog.classes[f.value.id], f.attr)
                    if f2 is not None:
                        calls[k].add((c2.name, f.attr))
                        continue
                if isinstance(f.value, ast.Name) and f.value.id == "cls" and ci is not None:
                    c2, f2 = prog.find_method(ci, f.attr)
                    if f2 is not None:
                        calls[k].add((c2.name, f.attr))
                        continue
                calls[k].update(x for x in by_name.get(f.attr, []) if x[0] is not None)
        # functions handed over as values (process targets, bound methods stored in slots)
        for n in ast.walk(fn):
            if isinstance(n, ast.keyword) and n.arg == "target" and isinstance(n.value, ast.Name) and (None, n.value.id) in funcs:
                calls[k].add((None, n.value.id))
    callers = {k: set() for k in funcs}
    for k, cs in calls.items():
        for c in cs:
            if c in callers and c != k:
                callers[c].add(k)
    eff = {k: {("S" if a in s_attrs else "P") for a, _, _ in direct[k]} for k in funcs}
    changed = True
    while changed:
        changed = False
        for k in funcs:
            for c in calls[k]:
                if c in eff and not eff[c] <= eff[k]:
                    eff[k] |= eff[c]
                    changed = True
    out = []
    for k in sorted(funcs, key=lambda k: (str(k[0]), k[1])):
        if not direct[k]:
            continue
        ci, fn, mi = funcs[k]
        # walk up from a one-sided writer: every maximal chain of callers must reach a function whose effect has both sides
        bad = None
        if len(eff[k]) == 1:
            seen, todo = {k}, [(k, [k])]
            while todo and bad is None:
                cur, chain = todo.pop()
                if len(eff[cur]) == 2:
                    continue
                if not callers[cur]:
                    bad = chain
                    break
                for g in callers[cur]:
                    if g not in seen:
                        seen.add(g)
                        todo.append((g, chain + [g]))
        side = {"S": "recorded samples", "P": "recorded log-probabilities"}
        msg = ""
        if bad is not None:
            only = next(iter(eff[k]))
            a, line, text = direct[k][0]
            top = bad[-1]
            msg = (f"`{text}` (line {line}) changes the {side[only]} and nothing on the call chain "
                   f"{' <- '.join((str(x[0]) + '.' if x[0] else '') + x[1] for x in bad)} changes the "
                   f"{side['P' if only == 'S' else 'S']}: entry point {(str(top[0]) + '.' if top[0] else '') + top[1]} leaves a "
                   f"log-probability that is not the density of the sample stored at the same index")
        out.append(struct_ob("store-writers", (f"{mi.name}.{k[0]}.{k[1]}" if k[0] else f"{mi.name}.{k[1]}"), bad is None, msg,
                             mi.relpath, direct[k][0][1], slots={"writes": sorted({a for a, _, _ in direct[k]}), "effect": sorted(eff[k]),
                                                               "callers": sorted((str(x[0]) + "." if x[0] else "") + x[1] for x in callers[k])[:8]},
                             tier="E"))
    return out
