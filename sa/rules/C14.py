"""C14 - burn / thin / interval read-outs select exactly the documented samples (tier S).

Decides: every getter slices the full store with exactly [burn::thin]; read-outs keep the
sample dimension; get_interval treats sample and probability as parallel arrays and keeps
the top fraction; marginals receive the caller's burn/thin.
Does not decide: numpy slicing itself.
"""
from __future__ import annotations
import ast
from ..model import qual
from ..symx import Expander
from ..anf import R, Unsupported
from .. import anf, lints
from .common import struct_ob, formula_ob, guard, last_return, U
from . import mcmc
from ..report import AnalysisError
from ..term import Resolver, pmatch, abstract, anf_of

FLOORS = {"trim-count": 1, "subset-selection": 1, "rows-stored-with-own-probability": 10, "columns-commit-together": 4, "slice-form": 9, "no-squeeze": 9, "parallel-arrays": 1, "interval-cut": 1,
          "none-value": 1, "marginal-passthrough": 1}
GETTER_CLASSES = ("MetropolisChain", "HamiltonianChain", "EnsembleSampler")
GETTERS = ("get_parameter", "get_probabilities", "get_sample")


def run(prog, tier):
    # "rows together with their own log-probabilities": a row and its log-probability are written together, from one proposal,
    # by every step function - the clause C14 shares with C03, decided there
    # a read-out returns what the stores hold NOW: a remembered copy of a store must be keyed on more than its length wherever
    # the program overwrites stored items in place (replace_last after a temperature exchange).  Decided first, on the classes as
    # written too: a definite verdict here stands even when the getters below no longer read the stores directly.
    from .common import size_keyed_obligations
    memo_cls = [prog.classes[c_] for c_ in ("Parameter", "MarkovChain", "MetropolisChain", "GibbsChain", "PcaChain", "HamiltonianChain",
                                            "EnsembleSampler") if c_ in prog.classes]
    early = size_keyed_obligations(prog, "read-out-current", memo_cls)
    rawp = prog.as_written()
    for o_ in size_keyed_obligations(rawp, "read-out-current", [rawp.classes[c_.name] for c_ in memo_cls if c_.name in rawp.classes]):
        if not o_.ok and not any(x.construct == o_.construct and not x.ok for x in early):
            early.append(o_)
    from .common import borrow
    try:
        from . import mcmc as _m
        for cname in GETTER_CLASSES:
            _m.derive_stores(prog, cname)
    except AnalysisError:
        if any(not o_.ok for o_ in early):
            return early, {}, {"explanation": "a read-out returns a remembered copy that can be stale; remaining rules not evaluated"}
        raise
    shared = borrow(prog, tier, "C03", {"pair-append", "walker-pair", "ensemble-append", "append-provenance"}, "rows-stored-with-own-probability",
                    "a read-out row can only come with its own log-probability if both were stored together from the same proposal")
    anf.reset()
    obs, info = [], []
    obs.extend(early)
    obs.extend(shared)
    classes = list(GETTER_CLASSES)
    if tier == "thorough":
        for ci in prog.subclasses("MarkovChain"):
            if ci.name not in classes and any(g in ci.methods for g in GETTERS):
                classes.append(ci.name)
    for cname in classes:
        st = mcmc.derive_stores(prog, cname)
        for g in GETTERS:
            c, fn = prog.method(cname, g)
            if c.name == "MarkovChain":
                continue
            obs.append(_slice_form(c, fn, st, g))
            sq = lints.axisless_squeeze_on_return(fn)
            obs.append(struct_ob("no-squeeze", qual(c, fn), not sq,
                                 "a read-out must keep the sample dimension: axis-less squeeze on the returned value "
                                 "drops it when one sample is retained", c.module.relpath, fn.lineno))

    c, gi = prog.method("MarkovChain", "get_interval")
    deferred = None
    try:
        obs.extend(_parallel(prog, c, gi))
    except AnalysisError as e:
        deferred = e          # raised at the end unless another rule reports a definite violation (a verdict beats "not understood")

    # an override of get_interval in a concrete chain class carries the same obligations as the inherited one
    for sub in prog.subclasses("MarkovChain"):
        if "get_interval" in sub.methods:
            try:
                obs.extend(_parallel(prog, sub, sub.methods["get_interval"]))
            except AnalysisError as e:
                deferred = deferred or e
    # the columns the read-outs pair up row by row grow together: nothing that runs user code sits between the stores of one step
    for cname in ("MetropolisChain", "GibbsChain", "PcaChain", "HamiltonianChain"):
        obs.append(_commit_together(prog, cname, 3 if tier == "thorough" else 2))

    # none-value lint over the mcmc package
    hits = []
    n_fn = 0
    for rel, mi in prog.by_rel.items():
        if not rel.startswith("inference/mcmc/"):
            continue
        for fn in [n for n in ast.walk(mi.tree) if isinstance(n, ast.FunctionDef)]:
            n_fn += 1
            for call in lints.none_valued_uses(fn):
                hits.append((rel, fn, call))
    if hits:
        for rel, fn, call in hits:
            obs.append(struct_ob("none-value", f"{rel}:{fn.name}", False,
                                 f"`{U(call)}` returns None (in-place method) but its value is used",
                                 rel, call.lineno, detail=U(call.func)))
    else:
        obs.append(struct_ob("none-value", "inference/mcmc/*", True, "", "inference/mcmc", 0,
                             slots={"functions_scanned": n_fn}))
    # positive example for the zero-count lint (must match on every run)
    ex_fn = ast.parse("def f(p, n):\n    s = p[n:].sort()\n    return s\n").body[0]
    if len(lints.none_valued_uses(ex_fn)) != 1:
        raise AnalysisError("none-value lint lost its positive example")

    # marginal pass-through
    c, gm = prog.method("MarkovChain", "get_marginal")
    calls = [n for n in ast.walk(gm) if isinstance(n, ast.Call) and U(n.func) == "self.get_parameter"]
    for k, call in enumerate(calls):
        kw = {x.arg: U(x.value) for x in call.keywords}
        pos = [U(a) for a in call.args]
        ok = pos[:1] == ["index"] and kw.get("burn") == "burn" and kw.get("thin") == "thin"
        obs.append(struct_ob("marginal-passthrough", qual(c, gm) + f"[{k}]", ok,
                             f"the marginal must be built from get_parameter(index, burn=burn, thin=thin); call is `{U(call)}`",
                             c.module.relpath, call.lineno))
    # ... and the estimators receive that read-out itself: as a resolved term, the data argument of every density estimator built in
    # get_marginal is the call (a local holding it is looked through; a re-binding that selects from it is part of the term)
    rgm = Resolver(gm, prog, c.module, c)
    EST_ = ("UnimodalPdf", "GaussianKDE", "KDE2D")

    def is_estimator(f_, st_):
        t_ = rgm.term(f_, st_) if isinstance(f_, ast.Name) else f_
        arms = [t_.body, t_.orelse] if isinstance(t_, ast.IfExp) else [t_]
        return all(isinstance(a_, ast.Name) and a_.id in EST_ for a_ in arms)
    est = []
    for n in ast.walk(gm):
        if isinstance(n, ast.Call) and isinstance(n.func, (ast.Name, ast.IfExp)) and n.args:
            st_ = rgm.stmt_of(n)
            if is_estimator(n.func, st_):
                est.append((n, st_))
    whym = []
    for n, st_ in est:
        t_ = rgm.term(n.args[0], st_)
        if pmatch(t_, "self.get_parameter(index, burn=burn, thin=thin)") is None and pmatch(t_, "self.get_parameter(index, burn, thin)") is None:
            whym.append(f"line {n.lineno}: {U(n.func)} receives `{U(t_)[:120]}`")
    if not est:
        raise AnalysisError(f"anchor vanished: no density estimator is built in {qual(c, gm)}")
    obs.append(struct_ob("marginal-passthrough", qual(c, gm) + "[estimator-input]", not whym,
                         "the density estimate must be built from exactly the burned / thinned values of the parameter: " + "; ".join(whym[:2]),
                         c.module.relpath, gm.lineno, tier="F"))
    for rel, mi in prog.by_rel.items():
        for n in lints.unraised_exceptions(mi.tree):
            info.append(f"lint (not tied to a property): exception constructed but not raised at {rel}:{n.lineno}")

    meta = {
        "explanation": "Structural check of each getter: exactly one slice on the store its class records into, with lower = the "
                       "burn parameter, step = the thin parameter and no upper bound, and no other use of burn/thin; no axis-less "
                       "squeeze on a read-out; get_interval's row re-indexings of `sample` and `probs` are extracted in order and "
                       "must be identical after composing X[b::1][::t] = X[b::t]; the cut keeps [int(size*(1-interval)):] of the "
                       "ascending argsort; a lint finds None-returning in-place calls used as values.",
        "assumptions": ["numpy/list slicing semantics"],
        "info": info,
    }
    if deferred is not None and all(o.ok for o in obs):
        raise deferred
    return obs, FLOORS, meta


def _commit_together(prog, cname, unroll):
    """One step writes one row: a value per parameter column, a log-probability, the length counter.  If user code (the
    posterior or its gradient - the only calls that may raise or be interrupted for reasons of their own) runs between the
    first and the last of these stores, an exception leaves some columns one entry longer than others for good: every later
    read-out pairs values of different steps.  So on every path all user calls precede the first store."""
    from ..flow import Enumerator, RETURN
    ci = prog.cls(cname)
    (c, fn), = mcmc.step_functions(prog, cname)
    st = mcmc.derive_stores(prog, cname)
    cols = {f"self.{st.P}"} | ({f"self.{st.S}"} if st.kind == "attr" else set())

    def classify(node):
        ev = []
        for n in ast.walk(node):
            if isinstance(n, ast.Call) and isinstance(n.func, ast.Attribute):
                if n.func.attr in ("append", "extend") and U(n.func.value) in cols:
                    ev.append(("STORE", n.lineno, U(n.func.value)))
                elif n.func.attr == "add_sample":
                    ev.append(("STORE", n.lineno, U(n.func.value) + ".samples"))
                elif U(n.func) in ("self.posterior", "self.grad", "self.gradient", "self.posterior_gradient"):
                    ev.append(("USER", n.lineno, U(n.func)))
        if isinstance(node, ast.AugAssign) and U(node.target) == "self.chain_length":
            ev.append(("STORE", node.lineno, "self.chain_length"))
        return sorted(ev, key=lambda e: e[1])
    en = Enumerator(classify, None, mcmc.self_inliner(prog, ci), unroll=unroll, depth=2)
    paths = en.function(fn)
    bad = None
    n_user = n_store = 0
    for ev, status in paths:
        idx = [i for i, e in enumerate(ev) if e[0] == "STORE"]
        n_store = max(n_store, len(idx))
        n_user = max(n_user, sum(1 for e in ev if e[0] == "USER"))
        if idx:
            mid = [e for e in ev[idx[0]:idx[-1]] if e[0] == "USER"]
            if mid and bad is None:
                bad = (ev[idx[0]], mid[0], ev[idx[-1]])
    if n_store < 2 or n_user < 1:
        raise AnalysisError(f"anchor vanished: stores / posterior calls of {cname}'s step function ({n_store} stores, {n_user} user calls)")
    msg = ""
    if bad:
        msg = (f"`{bad[1][2]}` (line {bad[1][1]}) runs after the store into {bad[0][2]} (line {bad[0][1]}) and before the store into "
               f"{bad[2][2]} (line {bad[2][1]}): if it raises, the step is half recorded and the columns stay misaligned")
    return struct_ob("columns-commit-together", qual(c, fn) + (f"[{cname}]" if c.name != cname else ""), bad is None, msg,
                     c.module.relpath, fn.lineno, slots={"paths": len(paths), "stores_on_path": n_store, "user_calls_on_path": n_user})


def _trim_count(prog, c, fn, rz, names):
    """`samples` rows at most: the statement that trims the selected fraction keeps `count` rows out of `size`, where
    size - (rows dropped) = samples, and it is guarded by a test that holds whenever size > samples."""
    rel = c.module.relpath
    pname = names[1]
    reqs = [a.arg for a in fn.args.args if a.arg not in ("self", "interval", "burn", "thin")]
    req = reqs[-1] if reqs else "samples"
    trims = []

    def conj(t, truth):
        """a conjunction that holds gives each of its conjuncts; a disjunction that fails gives the negation of each"""
        if isinstance(t, ast.BoolOp) and ((isinstance(t.op, ast.And) and truth) or (isinstance(t.op, ast.Or) and not truth)):
            return [x for v in t.values for x in conj(v, truth)]
        return [(t, truth)]

    def visit(stmts, conds):
        for st in stmts:
            if isinstance(st, ast.If):
                visit(st.body, conds + conj(st.test, True))
                visit(st.orelse, conds + conj(st.test, False))
            elif isinstance(st, ast.Assign) and len(st.targets) == 1 and isinstance(st.targets[0], ast.Name) and st.targets[0].id == pname:
                t = rz.term(st.value, st, keep=names)
                b = None
                for pt in (f"{pname}[sorted(permutation(_n)[_a:])]", f"{pname}[permutation(_n)[_a:]]", f"{pname}[sorted(permutation(_n)[:_k])]",
                           f"{pname}[permutation(_n)[:_k]]", f"{pname}[sorted(choice(_n, size=_k, replace=False))]",
                           f"{pname}[choice(_n, size=_k, replace=False)]"):
                    b = pmatch(t, pt)
                    if b is not None:
                        break
                if b is not None:
                    trims.append((st, b, conds))
    visit(fn.body, [])
    if len(trims) != 1:
        if not trims:
            return struct_ob("trim-count", qual(c, fn), True, "", rel, fn.lineno, slots={"trims": 0}, nontrivial=False)
        raise AnalysisError(f"trim-count: {len(trims)} random trims of `{pname}` in {qual(c, fn)}")
    st, b, conds = trims[0]
    ABS = [(f"{pname}.size", "SIZE"), (f"len({pname})", "SIZE"), (f"{pname}.shape[0]", "SIZE")]
    why = []
    try:
        n_ = anf_of(abstract(ast.parse(b["_n"], mode="eval").body, ABS)[0])
        if not n_.eq(R.sym("SIZE")):
            why.append(f"the indices are drawn from range({b['_n']}), not from the rows present")
        if "_a" in b:
            kept = R.sym("SIZE") - anf_of(abstract(ast.parse(b["_a"], mode="eval").body, ABS)[0])
        else:
            kept = anf_of(abstract(ast.parse(b["_k"], mode="eval").body, ABS)[0])
        if not kept.eq(R.sym(req)):
            why.append(f"the trim keeps {kept} rows, not `{req}`")
        # the guard: holds whenever SIZE - req > 0
        guard_ok = False
        for test, truth in conds:
            t = rz.term(test, rz.stmt_of(test), keep=names)
            k = 0
            while isinstance(t, ast.UnaryOp) and isinstance(t.op, ast.Not):
                t, k = t.operand, k + 1
            tr = truth if k % 2 == 0 else not truth
            if isinstance(t, ast.Compare) and len(t.ops) == 1:
                l_ = anf_of(abstract(t.left, ABS)[0])
                r_ = anf_of(abstract(t.comparators[0], ABS)[0])
                o_ = type(t.ops[0]).__name__
                if not tr:
                    o_ = {"Gt": "LtE", "GtE": "Lt", "Lt": "GtE", "LtE": "Gt"}.get(o_, o_)
                d_ = (l_ - r_) if o_ in ("Gt", "GtE") else (r_ - l_) if o_ in ("Lt", "LtE") else None
                # d > 0 (or >= 0) must be implied by SIZE - req > 0:  d = SIZE - req  (or, for >=, also SIZE - req - 1 .. )
                if d_ is not None and (d_.eq(R.sym("SIZE") - R.sym(req)) or (o_ in ("GtE", "LtE") and d_.eq(R.sym("SIZE") - R.sym(req) - 1))):
                    guard_ok = True
        for test, truth in conds:
            tt = U(test)
            if (tt == f"{req} is None" and truth) or (tt == f"{req} is not None" and not truth) or (tt == f"not {req} is not None" and truth):
                why.append(f"the trim sits on the path where `{req}` is None: it never runs when a number of rows is requested")
        if not guard_ok:
            why.append(f"the trim is not performed under a test equivalent to `{pname}.size > {req}`: "
                       f"{[('' if tr_ else 'not ') + U(t_)[:40] for t_, tr_ in conds if not ('is None' in U(t_) or 'is not None' in U(t_))]}")
    except Unsupported as e:
        raise AnalysisError(f"trim-count: {e}")
    return struct_ob("trim-count", qual(c, fn), not why,
                     f"when a number of rows is requested, at most that many are returned: " + "; ".join(why), rel, st.lineno,
                     slots={"requested": req, "trim": U(st.value)[:120]})


def _slice_form(c, fn, st, gname):
    rel = c.module.relpath
    params = [a.arg for a in fn.args.args]
    burn = "burn" if "burn" in params else None
    thin = "thin" if "thin" in params else None
    if burn is None or thin is None:
        return struct_ob("slice-form", qual(c, fn), False, "getter has no burn/thin parameters", rel, fn.lineno)
    subs = mcmc.burn_thin_slices(fn)
    want_store = st.P if gname == "get_probabilities" else st.S
    problems = []
    # delegation: a getter may hand burn / thin to another checked getter of the same store and select from what comes back only
    # along the other axes (`self.get_sample(burn=burn, thin=thin)[:, index]`)
    if True:
        rets = [r for r in ast.walk(fn) if isinstance(r, ast.Return) and r.value is not None]
        if len(rets) == 1:
            v = rets[0].value
            while isinstance(v, ast.Call) and U(v.func) in ("array", "asarray") and len(v.args) == 1:
                v = v.args[0]
            sel_ok = True
            if isinstance(v, ast.Subscript):
                sl0 = v.slice.elts[0] if isinstance(v.slice, ast.Tuple) and v.slice.elts else None
                sel_ok = isinstance(sl0, ast.Slice) and sl0.lower is None and sl0.upper is None and sl0.step is None
                v = v.value
            if isinstance(v, ast.Call) and isinstance(v.func, ast.Attribute) and U(v.func.value) == "self" \
                    and v.func.attr in ("get_sample", "get_probabilities") and v.func.attr != gname:
                kws = {k.arg: U(k.value) for k in v.keywords}
                if (v.func.attr == "get_probabilities") != (gname == "get_probabilities"):
                    problems.append(f"delegates to {v.func.attr}, a read-out of the other store")
                if kws.get("burn") != burn or kws.get("thin") != thin or v.args:
                    problems.append(f"delegates to `{U(v)}` without handing on burn=burn, thin=thin")
                if not sel_ok:
                    problems.append("selects along the sample axis after the delegated read-out")
                return struct_ob("slice-form", qual(c, fn), not problems, "; ".join(problems), rel, fn.lineno,
                                 slots={"delegates_to": v.func.attr})
    # delegation of a (samples x parameters) read-out to the per-parameter getter: one column per parameter index, burn / thin handed on,
    # the (parameters x samples) table transposed
    if not subs and isinstance(want_store, tuple) and gname == "get_sample":
        rts = Resolver(fn).return_terms()
        if len(rts) == 1:
            for pt in ("array([self.get_parameter(_i, burn=burn, thin=thin) for _i in range(len(self.%s))]).T" % want_store[0],
                       "array([self.get_parameter(_i, burn, thin) for _i in range(len(self.%s))]).T" % want_store[0],
                       "column_stack([self.get_parameter(_i, burn=burn, thin=thin) for _i in range(len(self.%s))])" % want_store[0]):
                if pmatch(rts[0], pt.replace("burn=burn", f"burn={burn}").replace("thin=thin", f"thin={thin}")) is not None:
                    return struct_ob("slice-form", qual(c, fn), True, "", rel, fn.lineno, slots={"delegates_to": "get_parameter (every index)"})
    if len(subs) != 1:
        problems.append(f"{len(subs)} sliced subscripts (expected exactly one)")
    else:
        n = subs[0]
        sl = n.slice.elts[0] if isinstance(n.slice, ast.Tuple) else n.slice
        if not (isinstance(sl.lower, ast.Name) and sl.lower.id == burn):
            problems.append(f"lower bound is `{U(sl.lower) if sl.lower else None}` not `{burn}`")
        if sl.upper is not None:
            problems.append(f"upper bound `{U(sl.upper)}` present")
        if not (isinstance(sl.step, ast.Name) and sl.step.id == thin):
            problems.append(f"step is `{U(sl.step) if sl.step else None}` not `{thin}`")
        base = n.value
        while isinstance(base, ast.Call) and isinstance(base.func, ast.Name) and base.func.id in ("array", "asarray") and len(base.args) == 1 \
                and not base.keywords:
            base = base.args[0]          # array(self.X)[b::t] holds the entries of array(self.X[b::t])
        # a column picked first, X[:, index][b::t], is the same entries as X[b::t, index]
        while isinstance(base, ast.Subscript) and isinstance(base.slice, ast.Tuple) and base.slice.elts and isinstance(base.slice.elts[0], ast.Slice) \
                and base.slice.elts[0].lower is None and base.slice.elts[0].upper is None and base.slice.elts[0].step is None:
            base = base.value
        if isinstance(want_store, tuple):
            okb = isinstance(base, ast.Attribute) and base.attr == want_store[1] and f"self.{want_store[0]}" in U(fn)
        else:
            okb = U(base) == f"self.{want_store}"
        if not okb:
            problems.append(f"slice applied to `{U(base)}` not to the store {want_store}")
    # what is done to the sliced store afterwards keeps one row per retained sample for EVERY selection, the empty one included:
    # `array(rows).T[index]` picks a column through the transpose, which has no second axis when no row is retained (IndexError
    # where `[:, index]` / a per-row comprehension returns an empty array)
    # (is the store a Python list of vectors?  the class's own `self.<store>.append(..)` says so)
    list_store = isinstance(want_store, str) and any(
        isinstance(x, ast.Call) and isinstance(x.func, ast.Attribute) and x.func.attr == "append" and U(x.func.value) == f"self.{want_store}"
        for m_ in c.methods.values() for x in ast.walk(m_))
    if len(subs) == 1 and not problems:
        for r_ in ast.walk(fn):
            if isinstance(r_, ast.Return) and r_.value is not None:
                for x in ast.walk(r_.value):
                    # the same for `array(<list of vectors>[b::t])[:, index]`: an empty list makes a 1-D empty array
                    if isinstance(x, ast.Subscript) and isinstance(x.slice, ast.Tuple) and len(x.slice.elts) == 2 and isinstance(x.value, ast.Call) \
                            and U(x.value.func) in ("array", "asarray") and x.value.args and x.value.args[0] is subs[0] and list_store:
                        problems.append(f"`{U(x)[:80]}` indexes the second axis of an array built from a list of vectors: with no row retained "
                                        f"the array is one-dimensional (the read-out raises instead of returning an empty array)")
                    if isinstance(x, ast.Subscript) and isinstance(x.value, ast.Attribute) and x.value.attr == "T" \
                            and any(y is subs[0] for y in ast.walk(x.value.value)):
                        problems.append(f"`{U(x)[:80]}` indexes the transpose of the retained rows: with no row retained there is no such axis "
                                        f"(the read-out raises instead of returning an empty array)")
    # burn / thin used nowhere else
    uses = [x for x in ast.walk(fn) if isinstance(x, ast.Name) and x.id in (burn, thin) and isinstance(x.ctx, ast.Load)]
    if len(uses) != 2 * max(len(subs), 1) and len(subs) == 1:
        problems.append(f"burn/thin are used {len(uses)} times (expected only in the slice)")
    if any(isinstance(x, ast.Name) and x.id in (burn, thin) and isinstance(x.ctx, ast.Store) for x in ast.walk(fn)):
        problems.append("burn/thin are reassigned")
    # a per-parameter store read out as (samples x parameters): the stacked (parameters x samples) table is TRANSPOSED, never re-read
    # in another order (a reshape to the same shape interleaves the parameters' histories)
    if isinstance(want_store, tuple) and gname == "get_sample" and not problems:
        rzo = Resolver(fn)
        rts = rzo.return_terms()
        if len(rts) == 1:
            t_ = rts[0]
            stack = "array([_p." + want_store[1] + "[" + burn + "::" + thin + "] for _p in self." + want_store[0] + "])"
            good = any(pmatch(t_, pt) is not None for pt in (stack + ".T", stack + ".transpose()", "transpose(" + stack + ")",
                                                             "column_stack([_p." + want_store[1] + "[" + burn + "::" + thin + "] for _p in self." + want_store[0] + "])",
                                                             "swapaxes(" + stack + ", 0, 1)"))
            if not good:
                if any(isinstance(x, ast.Call) and U(x.func).split(".")[-1] in ("reshape", "resize") for x in ast.walk(t_)) \
                        or any(isinstance(x, ast.Attribute) and x.attr == "flat" for x in ast.walk(t_)):
                    problems.append(f"the (parameters x samples) table is re-read with a reshape instead of being transposed: `{U(t_)[:120]}` - row k of "
                                    f"the result is then not sample k")
                else:
                    raise AnalysisError(f"slice-form: the orientation of `{U(t_)[:120]}` returned by {qual(c, fn)} is not decided")
    return struct_ob("slice-form", qual(c, fn), not problems, "; ".join(problems), rel, fn.lineno,
                     slots={"store": str(want_store), "slice": U(subs[0]) if subs else None})


def _row_index(sub):
    sl = sub.slice
    first = sl.elts[0] if isinstance(sl, ast.Tuple) else sl
    rest = sl.elts[1:] if isinstance(sl, ast.Tuple) else []
    rest_ok = all(isinstance(r, ast.Slice) and r.lower is None and r.upper is None and r.step is None for r in rest)
    return U(first), rest_ok


def _peel(term, name, one_d=False):
    """term = name[i1][i2]...  ->  [text(i1), text(i2), ...]  (row index only; None if it is not such a chain or indexes other axes)"""
    ops = []
    t = term
    while True:
        if isinstance(t, ast.Subscript):
            idx, rest_ok = _row_index(t)
            if not rest_ok:
                return None
            ops.insert(0, str(idx))
            t = t.value
            continue
        if isinstance(t, ast.Call):
            # X.take(I, axis=0) / take(X, I, axis=0) select rows I; for a one-dimensional X (the log-probabilities) `sort(X)` is
            # X[X.argsort()] as values
            f = t.func
            ax = next((k.value for k in t.keywords if k.arg == "axis"), None)
            if isinstance(f, ast.Attribute) and f.attr == "take" and len(t.args) >= 1 and (one_d or (ax is not None and U(ax) == "0") or
                                                                                        (len(t.args) == 2 and U(t.args[1]) == "0")):
                ops.insert(0, str(U(t.args[0])))
                t = f.value
                continue
            if isinstance(f, ast.Name) and f.id == "take" and len(t.args) >= 2 and (one_d or (ax is not None and U(ax) == "0") or
                                                                                   (len(t.args) == 3 and U(t.args[2]) == "0")):
                ops.insert(0, str(U(t.args[1])))
                t = t.args[0]
                continue
            if one_d and isinstance(f, ast.Name) and f.id == "sort" and len(t.args) == 1 and not t.keywords:
                ops.insert(0, f"{U(t.args[0])}.argsort()")
                t = t.args[0]
                continue
        break
    if isinstance(t, ast.Name) and t.id == name:
        return ops
    return None


def _parallel(prog, c, fn):
    """sample and probs are read with the same burn, thinned alike, and then undergo the same row selections in the same order."""
    rel = c.module.relpath
    out = []
    rz = Resolver(fn, prog, c.module, c)
    ops = {"sample": [], "probs": []}
    problems = []
    rets = rz.returns()
    names = ("sample", "probs")
    if len(rets) == 1 and isinstance(rets[0].value, ast.Tuple) and len(rets[0].value.elts) == 2 \
            and all(isinstance(e, ast.Name) for e in rets[0].value.elts):
        names = tuple(e.id for e in rets[0].value.elts)
    role = dict(zip(names, ("sample", "probs")))

    def visit(stmts, cond):
        for st in stmts:
            if isinstance(st, ast.If):
                visit(st.body, cond + [U(st.test)])
                visit(st.orelse, cond + ["not " + U(st.test)])
                continue
            # the values themselves are read-outs: nothing shifts, scales or overwrites them in place
            tg_ = st.target if isinstance(st, ast.AugAssign) else st.targets[0] if isinstance(st, ast.Assign) and len(st.targets) == 1 else None
            if tg_ is not None and (isinstance(st, ast.AugAssign) or isinstance(tg_, ast.Subscript)):
                b_ = tg_
                while isinstance(b_, (ast.Subscript, ast.Attribute)):
                    b_ = b_.value
                if isinstance(b_, ast.Name) and b_.id in role:
                    problems.append(f"`{U(st)[:80]}` changes the values of `{b_.id}` in place: what is returned is no longer the recorded "
                                    f"{'log-probabilities' if role[b_.id] == 'probs' else 'samples'}")
                continue
            if not isinstance(st, ast.Assign) or len(st.targets) != 1:
                continue
            tgt, val = st.targets[0], st.value
            pairs = []
            if isinstance(tgt, ast.Name) and tgt.id == "burn" and "burn" in [a.arg for a in fn.args.args]:
                problems.append(f"`{U(st)[:80]}` replaces the caller's burn: the interval is taken from other rows than the documented burn, burn + thin, ..")
            if isinstance(tgt, ast.Name) and tgt.id == "thin" and "thin" in [a.arg for a in fn.args.args]:
                # the thinning derived from a requested number of rows is a positive step: size // samples is 0 as soon as more rows
                # are requested than are stored, and a slice step of 0 raises
                tt_ = rz.term(val, st, keep=names)
                if not any(pmatch(tt_, pt_) is not None for pt_ in ("max(_q // _s, 1)", "max(1, _q // _s)", "maximum(_q // _s, 1)", "_q // _s or 1",
                                                                   "max(int(_q / _s), 1)", "max(1, int(_q / _s))")):
                    if pmatch(tt_, "_q // _s") is not None or pmatch(tt_, "int(_q / _s)") is not None:
                        problems.append(f"`{U(st)[:80]}`: the derived thinning is 0 when more rows are requested than stored (a slice step of 0 raises)")
                    else:
                        raise AnalysisError(f"parallel-arrays: the derived thinning `{U(tt_)[:80]}` in {qual(c, fn)} is not a recognised positive step - not decided")
            if isinstance(tgt, ast.Name):
                pairs = [(tgt.id, val)]
            elif isinstance(tgt, ast.Tuple) and isinstance(val, ast.Tuple) and len(tgt.elts) == len(val.elts):
                pairs = [(t.id, v) for t, v in zip(tgt.elts, val.elts) if isinstance(t, ast.Name)]
            for name, v in pairs:
                if name not in role:
                    continue
                r = role[name]
                # a random draw written out inside the selection is drawn again for the other array: two selections that READ alike are
                # the same rows only if they use one draw held in a local
                RANDOM = ("permutation", "choice", "shuffle", "random", "randint", "integers", "rand", "randn", "normal", "uniform", "sample")
                drawn = [U(x) for x in ast.walk(v) if isinstance(x, ast.Call) and U(x.func).split(".")[-1] in RANDOM]
                if drawn:
                    problems.append(f"`{U(st)[:100]}` draws `{drawn[0][:60]}` inside the row selection of `{name}`: the other array's selection, "
                                    f"however it is spelled, is another draw")
                vt = rz.term(v, st, keep=names)
                if isinstance(vt, ast.Call) and U(vt.func) in ("self.get_sample", "self.get_probabilities"):
                    nc = rz.norm_call(vt)
                    kw = {k.arg: U(k.value) for k in nc.keywords}
                    pos = [U(a) for a in nc.args]
                    want = "self.get_sample" if r == "sample" else "self.get_probabilities"
                    if U(vt.func) != want:
                        problems.append(f"`{name}` is read with {U(vt.func)}")
                    ops[r].append(("get", kw.get("burn", pos[0] if pos else "<default>"), kw.get("thin", pos[1] if len(pos) > 1 else "1")))
                    continue
                chain = _peel(vt, name, one_d=(r == "probs"))
                if chain is None:
                    problems.append(f"`{U(st)}` is not a row re-indexing of `{name}`")
                    continue
                for idx in chain:
                    ops[r].append(("idx", idx, None))
    visit(fn.body, [])

    def normalise(lst):
        res = []
        for op in lst:
            if op[0] == "idx" and res and res[-1][0] == "get" and res[-1][2] == "1" and op[1].startswith("::"):
                # X[b::1][::t] == X[b::t]
                res[-1] = ("get", res[-1][1], op[1][2:])
            else:
                res.append(op)
        return res
    ns, np_ = normalise(ops["sample"]), normalise(ops["probs"])
    ok = not problems and ns == np_ and len(ns) >= 3
    out.append(struct_ob("parallel-arrays", qual(c, fn), ok,
                         f"sample and probs must undergo the same row selections in the same order; sample: {ns}; probs: {np_}; {problems}",
                         rel, fn.lineno, slots={"sample_ops": ns, "probs_ops": np_}))
    # every selection is a selection of *distinct* rows (a subset of the fraction, never a resampling of it)
    bad_sel = []
    for t in [o[1] for o in ns if o[0] == "idx"]:
        if ":" in t and not t.startswith("sorted(") and "(" not in t.split(":")[0][:0]:
            node = None
            try:
                node = ast.parse(f"x[{t}]", mode="eval").body.slice
            except SyntaxError:
                pass
            if isinstance(node, ast.Slice):
                continue
        try:
            tn = ast.parse(t, mode="eval").body
        except SyntaxError:
            bad_sel.append((t, "not understood"))
            continue
        if isinstance(tn, ast.Call) and U(tn.func) in ("sorted", "sort") and len(tn.args) == 1 and not tn.keywords:
            tn = tn.args[0]                  # the same rows in ascending position
        distinct = any(pmatch(tn, pt) is not None for pt in (
            "_p.argsort()", "argsort(_p)", "_p.argsort()[_a:]", "argsort(_p)[_a:]", "permutation(_n)[_a:]", "permutation(_n)[:_a]", "_r.permutation(_n)[_a:]", "_r.permutation(_n)[:_a]",
            "choice(_n, size=_k, replace=False)", "choice(_n, _k, False)", "choice(_n, _k, replace=False)", "_r.choice(_n, size=_k, replace=False)",
            "_r.choice(_n, _k, replace=False)", "arange(_n)", "arange(_a, _n)", "sample(range(_n), _k)"))
        if distinct or isinstance(tn, ast.Compare):
            continue
        resamples = any(pmatch(tn, pt) is not None for pt in (
            "choice(_n, size=_k)", "choice(_n, _k)", "_r.choice(_n, size=_k)", "_r.choice(_n, _k)", "randint(_a, _n, _k)", "randint(_n, size=_k)",
            "_r.integers(_a, _n, _k)", "_r.integers(_n, size=_k)", "choice(_n, size=_k, replace=True)"))
        bad_sel.append((t, "draws indices WITH replacement: rows repeat and as many rows of the fraction are dropped" if resamples
                        else "not a recognised selection of distinct rows"))
    definite = [b_ for b_ in bad_sel if "WITH replacement" in b_[1]]
    if bad_sel and not definite:
        raise AnalysisError(f"subset-selection: row selection `{bad_sel[0][0][:120]}` in {qual(c, fn)} is {bad_sel[0][1]}")
    out.append(struct_ob("subset-selection", qual(c, fn), not definite,
                         f"the rows returned must be a subset of the requested fraction: `{definite[0][0][:160]}` {definite[0][1]}" if definite else "",
                         rel, fn.lineno, slots={"selections": [o[1] for o in ns if o[0] == "idx"]}))
    # at most the requested number of rows: the random trim keeps exactly `samples` rows and happens whenever there are more
    out.append(_trim_count(prog, c, fn, rz, names))
    # the cut: ascending argsort of probs, then keep [cutoff:], cutoff = int(size * (1 - interval))
    idxs = [o[1] for o in ns if o[0] == "idx"]
    okc, why = False, ""
    sort_pos = [k for k, t in enumerate(idxs) if t in (f"{names[1]}.argsort()", f"argsort({names[1]})")]
    cut_pos = [k for k, t in enumerate(idxs) if t.endswith(":") and not t.startswith(":")]
    fused = [pmatch(ast.parse(t, mode="eval").body, pt) for t in idxs for pt in (f"{names[1]}.argsort()[_c:]", f"argsort({names[1]})[_c:]")
             if not t.endswith(":")]
    fused = [b_ for b_ in fused if b_ is not None]
    if (sort_pos and cut_pos and sort_pos[0] < cut_pos[0]) or fused:
        # (the ascending order and the cut may be one index: P.argsort()[cutoff:])
        cut_txt = fused[0]["_c"] if fused else idxs[cut_pos[0]][:-1]
        try:
            ct = ast.parse(cut_txt, mode="eval").body
            own_counts = (f"{names[1]}.size", f"len({names[1]})", f"{names[1]}.shape[0]")

            def counts_own(txt):
                """the count is that of the log-probability array being cut, or of a re-ordering of it held in another local"""
                if txt in own_counts:
                    return True
                for pt_ in ("_b.size", "len(_b)", "_b.shape[0]"):
                    b_ = pmatch(ast.parse(txt, mode="eval").body, pt_)
                    REORD = (f"{names[1]}[{names[1]}.argsort()]", f"{names[1]}[argsort({names[1]})]", f"sort({names[1]})", f"{names[1]}")
                    if b_ is not None and b_["_b"].isidentifier():
                        defs_ = [st_ for st_ in ast.walk(fn) if isinstance(st_, ast.Assign) and len(st_.targets) == 1 and U(st_.targets[0]) == b_["_b"]]
                        if len(defs_) == 1:
                            tt_ = rz.term(defs_[0].value, defs_[0], keep=names)
                            if any(pmatch(tt_, q_) is not None for q_ in REORD):
                                return True
                    elif b_ is not None:
                        try:
                            if any(pmatch(ast.parse(b_["_b"], mode="eval").body, q_) is not None for q_ in REORD):
                                return True
                        except SyntaxError:
                            pass
                return False
            ab, seen = abstract(ct, [("_p.size", "N"), ("len(_p)", "N"), ("_p.shape[0]", "N")])
            ex = Expander(prog, c.module, c)
            cut = ex.eval(ab, {"N": R.sym("N"), "interval": R.sym("interval")})
            okc = cut.eq(anf.fn_("int", R.sym("N") * (R.const(1) - R.sym("interval")))) \
                and all(counts_own(str(t_)) for ts in seen.values() for t_ in ts)
            why = f"ascending argsort then cut at `{cut_txt[:120]}`" + (
                "" if all(counts_own(str(t_)) for ts in seen.values() for t_ in ts) else
                f": the row count is taken from `{[str(t_) for ts in seen.values() for t_ in ts if not counts_own(str(t_))][0]}`, not from the array `{names[1]}` that is cut")
            # N is the number of rows being cut: where the cut index is held in a local, the log-probabilities are not shortened
            # (thinned, trimmed) between its computation and the cut - a re-ordering keeps the count
            if okc:
                cdefs = [st_ for st_ in ast.walk(fn) if isinstance(st_, ast.Assign) and len(st_.targets) == 1 and isinstance(st_.targets[0], ast.Name)
                         and any(isinstance(x, ast.Attribute) and x.attr == "size" and U(x.value) == names[1] for x in ast.walk(st_.value))
                         and any(isinstance(x, ast.Name) and x.id == "interval" for x in ast.walk(st_.value))]
                cuts_ = [st_ for st_ in ast.walk(fn) if isinstance(st_, ast.Assign) and len(st_.targets) == 1 and U(st_.targets[0]) == names[1]
                         and isinstance(st_.value, ast.Subscript) and isinstance(st_.value.slice, ast.Slice) and st_.value.slice.lower is not None
                         and st_.value.slice.upper is None and st_.value.slice.step is None]
                if len(cdefs) == 1 and cuts_:
                    lo_, hi_ = cdefs[0].lineno, cuts_[0].lineno
                    for st_ in ast.walk(fn):
                        if isinstance(st_, ast.Assign) and len(st_.targets) == 1 and U(st_.targets[0]) == names[1] and lo_ < st_.lineno < hi_:
                            v_ = st_.value
                            reorder = isinstance(v_, ast.Subscript) and U(v_.value) == names[1] and not isinstance(v_.slice, ast.Slice) \
                                and U(rz.term(v_.slice, st_)) in (f"{names[1]}.argsort()", f"argsort({names[1]})")
                            if not reorder:
                                okc = False
                                why = (f"the cut index `{U(cdefs[0])[:70]}` is computed from the row count before `{U(st_)[:60]}` changes it: "
                                       f"the cut is taken at a position that belongs to the longer array")
        except Exception as e:
            why = f"cut index `{cut_txt[:120]}` not understood: {e}"
    else:
        # rows chosen by comparing log-probabilities with a threshold: how many are kept then depends on the data (every row tied
        # with the threshold goes or stays together), so the count cannot be the requested fraction of the rows for every chain
        masks = []
        for t in idxs:
            try:
                tn = ast.parse(t, mode="eval").body
            except SyntaxError:
                continue
            if isinstance(tn, ast.Compare) and any(isinstance(x, ast.Name) and x.id == names[1] for x in ast.walk(tn)):
                masks.append(t)
        if masks:
            why = (f"the rows are selected by the threshold test `{masks[0][:140]}`: the number of rows kept is decided by the values (ties at "
                   f"the threshold are all dropped or all kept), not by the size of the requested fraction")
        else:
            raise AnalysisError(f"interval-cut: row selections {idxs} in {qual(c, fn)}: no ascending argsort of the log-probabilities followed "
                                f"by a `[cutoff:]` cut, and no other recognised way of keeping the top fraction - not decided")
    out.append(struct_ob("interval-cut", qual(c, fn), okc,
                         "the interval must keep the top `interval` fraction of the ascending sort by log-probability: " + why,
                         rel, fn.lineno))
    return out
