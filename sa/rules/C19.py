"""C19 - density-estimator intervals, moments and normalisation are self-consistent (tier U + F + S).

Decides: scale- and shift-covariance of every formula in pdf/base.py, kde.py, unimodal.py as
a typing judgement (for all samples, scales and locations at once); the interval cost is the
stated two-term objective; the KDE mode is the bounded maximiser of the density; the
Gauss-Chebyshev weights are those of the substitution (derived, not transcribed); the
normaliser used by __call__ is computed from the final MAP; the cdf is accumulated in sorted
order and returned through the inverse permutation.
Does not decide: normalisation accuracy, optimiser convergence, moment accuracy (numerical).
"""
from __future__ import annotations
import ast
import copy
from fractions import Fraction
from ..model import qual
from ..symx import Expander, TupleV
from ..anf import R, Unsupported
from .. import anf, units
from ..units import Lin, BOOL, num
from .common import memo_obligations, dtype_hazard_obligations, struct_ob, formula_ob, guard, last_return, U
from .C12 import units_obligations
from ..report import AnalysisError
from ..term import Resolver, pmatch, find_all, abstract, anf_of

BASE = "inference/pdf/base.py"
KDE = "inference/pdf/kde.py"
UNI = "inference/pdf/unimodal.py"
FLOORS = {"kde-cdf-integrates-pdf": 7, "mirror-symmetric-limits": 2, "float-arithmetic": 3, "units": 3, "units-result-types": 3, "hdi-cost-form": 1, "mode-is-argmax": 2, "quadrature-weights": 3,
          "normaliser-consistent": 2, "cdf-ordering": 1}

EXPECTED = {"__call__": "Lin(-1,0)", "cdf": "Lin(0,0)", "interval": "Tup(Lin(1,1), Lin(1,1))",
            "moments": "Tup(Lin(1,1), Lin(2,0), Lin(0,0), Lin(0,0))", "attr:mode": "Lin(1,1)"}


def _sync_state(init, uc, prog):
    """Abstract walk of the constructor: after `self.MAP = ...` the derived attributes are stale until re-assigned from MAP."""
    rz = Resolver(init, prog, uc.module, uc)

    def walk(stmts, state):
        for st in stmts:
            if isinstance(st, ast.If):
                a = walk(st.body, dict(state))
                b = walk(st.orelse, dict(state))
                state = {k: (a[k] if a[k] == b[k] else False) for k in state}
                continue
            if isinstance(st, (ast.For, ast.While, ast.With, ast.Try)):
                state = walk(st.body, state)
                continue
            if isinstance(st, ast.Assign):
                for t in st.targets:
                    tt = U(t)
                    if tt == "self.MAP":
                        state = {"mode": False, "norm": False}
                    elif tt == "self.mode":
                        state["mode"] = pmatch(rz.term(st.value, st), "self.MAP[0]") is not None
                    elif tt == "self.map_lognorm":
                        state["norm"] = pmatch(rz.term(st.value, st), "log(self.norm(self.MAP))") is not None
        return state
    return walk(init.body, {"mode": None, "norm": None})


def _mirror_limits(prog, uc):
    """The model is mirror symmetric: density(x0 + d; f) = density(x0 - d; -f).  Every (lower, upper) pair of limits built from
    the fitted parameters must respect it: (centre - lower) equals (upper - centre) with the skew parameter negated.
    A grid that is stretched for one sign of the skew only cuts off the long tail of the other."""
    out = []
    pats = [("self.MAP[3]", "F"), ("self.MAP[1]", "S"), ("self.MAP[0]", "X0"), ("self.mode", "X0"), ("self.MAP[2]", "V"),
            ("self.MAP[4]", "K"), ("self.MAP[5]", "Q")]

    def check(construct, lo_t, hi_t, line):
        lo_a, _ = abstract(lo_t, pats)
        hi_a, _ = abstract(hi_t, pats)

        class Neg(ast.NodeTransformer):
            def visit_Name(self, x):
                return ast.UnaryOp(op=ast.USub(), operand=x) if x.id == "F" else x
        hi_m = ast.fix_missing_locations(Neg().visit(ast.parse(ast.unparse(hi_a), mode="eval").body))
        ok, why = False, ""
        try:
            X0 = R.sym("X0")
            offL = X0 - anf_of(lo_a)
            offU_m = anf_of(hi_m) - X0
            ok = offL.eq(offU_m)
            why = f"centre - lower = {offL};  (upper - centre) with f -> -f = {offU_m}"
        except Unsupported as e:
            why = f"outside the algebra: {e}"
        return struct_ob("mirror-symmetric-limits", construct, ok,
                         "lower and upper limits must be mirror images under f -> -f (the model's own symmetry): " + why,
                         UNI, line, tier="F")
    init = uc.methods["__init__"]
    rz = Resolver(init, prog, uc.module, uc)
    lim = {U(s_.targets[0]): s_ for s_ in ast.walk(init) if isinstance(s_, ast.Assign) and U(s_.targets[0]) in ("self.lwr_limit", "self.upr_limit")}
    if len(lim) == 2:
        out.append(check(qual(uc, init) + "[lwr_limit/upr_limit]", rz.term(lim["self.lwr_limit"].value, lim["self.lwr_limit"]),
                         rz.term(lim["self.upr_limit"].value, lim["self.upr_limit"]), lim["self.lwr_limit"].lineno))
    mo = uc.methods.get("moments")
    if mo is not None:
        rm = Resolver(mo, prog, uc.module, uc)
        grids = []
        for n in ast.walk(mo):
            if isinstance(n, ast.Call) and U(n.func) in ("self", "self.__call__") and n.args:
                t = rm.term(n.args[0], rm.stmt_of(n))
                b = pmatch(t, "linspace(_a, _b, _n)")
                if b is not None:
                    grids.append((ast.parse(b["_a"], mode="eval").body, ast.parse(b["_b"], mode="eval").body, n.lineno))
        for a_, b_, line in grids[:1]:
            out.append(check(qual(uc, mo) + "[integration grid]", a_, b_, line))
    return out


def _cdf_ordering(prog, uc, cf):
    """cdf: integrate between consecutive *sorted* query points, accumulate, undo the sort with the inverse permutation."""
    rz = Resolver(cf, prog, uc.module, uc)
    xp = cf.args.args[1].arg
    why = []
    # (1) the accumulated array is indexed by argsort(argsort(x))
    hits = []
    for t in rz.return_terms():
        hits += find_all(t, f"_acc.cumsum()[{xp}.argsort().argsort()]")
    if not hits:
        # the inverse permutation built by scatter:  inv = zeros(n, dtype=int); inv[x.argsort()] = arange(n);  ...cumsum()[inv]
        for t in rz.return_terms():
            for _, b in find_all(t, "_acc.cumsum()[_inv]"):
                inv = b["_inv"]
                if not inv.isidentifier():
                    continue
                inits = [st for st in ast.walk(cf) if isinstance(st, ast.Assign) and U(st.targets[0]) == inv]
                scat = [st for st in ast.walk(cf) if isinstance(st, ast.Assign) and isinstance(st.targets[0], ast.Subscript)
                        and U(st.targets[0].value) == inv]
                sizes = (f"{xp}.size", f"len({xp})", f"{xp}.shape[0]")
                if len(inits) == 1 and len(scat) == 1 and isinstance(inits[0].value, ast.Call) \
                        and U(inits[0].value.func) in ("zeros", "empty", "zeros_like", "empty_like") \
                        and U(rz.term(scat[0].targets[0].slice, scat[0])) == f"{xp}.argsort()" \
                        and isinstance(scat[0].value, ast.Call) and U(scat[0].value.func) == "arange" and len(scat[0].value.args) == 1 \
                        and U(rz.term(scat[0].value.args[0], scat[0])) in sizes:
                    hits.append((None, {"_acc": b["_acc"]}))
    acc = {b["_acc"] for _, b in hits}
    if not hits or len(acc) != 1:
        why.append("the returned value is not `<intervals>.cumsum()[x.argsort().argsort()]` (inverse permutation of the sorter)")
    accname = next(iter(acc)) if len(acc) == 1 else None
    # (2) element i of the accumulated array is the integral of the density between sorted points i-1 and i
    stores = [st for st in ast.walk(cf) if isinstance(st, ast.Assign) and isinstance(st.targets[0], ast.Subscript)
              and accname is not None and U(st.targets[0].value) == accname]
    v = f"{xp}[{xp}.argsort()]"

    class _SortForm(ast.NodeTransformer):
        """sort(x) holds the values of x[x.argsort()]"""
        def visit_Call(self, n):
            self.generic_visit(n)
            if isinstance(n.func, ast.Name) and n.func.id in ("sort", "sorted") and len(n.args) == 1 and not n.keywords and U(n.args[0]) == xp:
                return ast.parse(v, mode="eval").body
            return n
    _term0 = rz.term

    def _term(e, at, **kw):
        return ast.fix_missing_locations(_SortForm().visit(copy.deepcopy(_term0(e, at, **kw))))
    seen0 = seenk = False
    for st in stores:
        idx = st.targets[0].slice
        val = _term(st.value, st)
        if isinstance(idx, ast.Constant) and idx.value == 0:
            full = (pmatch(val, f"quad(self.__call__, self.lwr_limit, {v}[0])[0] if {v}[0] > self.lwr_limit else 0.0") is not None
                    or pmatch(val, f"0.0 if {v}[0] <= self.lwr_limit else quad(self.__call__, self.lwr_limit, {v}[0])[0]") is not None
                    or pmatch(val, f"quad(self.__call__, self.lwr_limit, {v}[0])[0]") is not None)
            zero = isinstance(val, ast.Constant) and val.value == 0      # the arm for a first point below the lower limit
            seen0 = seen0 or full
            if not (full or zero):
                why.append(f"first interval is `{U(val)}`")
        elif isinstance(idx, ast.Name):
            loop = rz.parent.get(id(st), (None, None, None))[1]
            okl = isinstance(loop, ast.For) and U(loop.target) == idx.id and pmatch(loop.iter, f"range(1, {xp}.size)") is not None
            okv = pmatch(val, f"quad(self.__call__, {v}[{idx.id} - 1], {v}[{idx.id}])[0]") is not None
            seenk = okl and okv
            if not seenk and isinstance(loop, ast.For) and isinstance(loop.target, ast.Tuple) and len(loop.target.elts) == 2 \
                    and U(loop.target.elts[0]) == idx.id and isinstance(loop.target.elts[1], ast.Tuple) and len(loop.target.elts[1].elts) == 2:
                # the same intervals walked as consecutive pairs: for i, (lo, hi) in enumerate(zip(v[:-1], v[1:]), start=1)
                lo, hi = (U(e) for e in loop.target.elts[1].elts)
                it = _term(loop.iter, loop)
                okl = any(pmatch(it, pt) is not None for pt in (f"enumerate(zip({v}[:-1], {v}[1:]), start=1)", f"enumerate(zip({v}[:-1], {v}[1:]), 1)"))
                okv = pmatch(_term(st.value, st, keep=(lo, hi)), f"quad(self.__call__, {lo}, {hi})[0]") is not None
                seenk = okl and okv
            if not seenk:
                why.append(f"interval {idx.id} is `{U(val)}` in loop `{U(loop.iter) if isinstance(loop, ast.For) else None}`")
        else:
            why.append(f"unrecognised store `{U(st)}`")
    if accname is not None and not (seen0 and seenk):
        why.append("the per-interval integrals are not quad(density, v[i-1], v[i]) over the sorted points v = x[argsort(x)]")
    return struct_ob("cdf-ordering", qual(uc, cf), not why,
                     "the cdf must integrate between consecutive sorted query points, accumulate, and undo the sort with the inverse "
                     "permutation of the same sorter: " + "; ".join(why), UNI, cf.lineno)


def run(prog, tier):
    # the KDE's cumulative function is the integral of its density (kernel sums over the same kept samples, every group of query
    # points written) - the clause C19 shares with C12, decided there
    from .common import borrow
    shared = borrow(prog, tier, "C12", {"kernel-form", "every-group-stored", "region-tables", "region-lookup", "table-domain"}, "kde-cdf-integrates-pdf",
                    "intervals and probabilities are read through the estimator's own cdf, which must be the integral of its own density")
    obs = []
    obs.extend(shared)
    S = Lin(1, 1)
    public = {"__call__": [S], "cdf": [S], "interval": [num()], "moments": [], "__attr__": ["mode"]}
    obs.extend(units_obligations(prog, KDE, "GaussianKDE",
                                 [("rule-of-thumb bandwidth", {"args": [S], "kws": {}}),
                                  ("cross-validated bandwidth", {"args": [S], "kws": {"cross_validation": BOOL}})],
                                 public, EXPECTED))
    obs.extend(units_obligations(prog, UNI, "UnimodalPdf", [("default", {"args": [S], "kws": {}})], public, EXPECTED))

    # ---------------------------------------------------------------- interval cost
    anf.reset()
    de = prog.cls("DensityEstimator")
    hc = de.methods.get("__hdi_cost")
    if hc is None:
        raise AnalysisError("anchor vanished: DensityEstimator.__hdi_cost")
    ex = Expander(prog, de.module, de)

    def hook(e, node, env):
        f = U(node.func)
        if f in ("self", "self.__call__"):
            return TupleV([R.sym("P(a)"), R.sym("P(b)")])
        if f == "self.cdf":
            return TupleV([R.sym("F(a)"), R.sym("F(b)")])
        if f == "array":
            return e.eval(node.args[0], env)
        return NotImplemented
    ex.call_hook = hook
    params = [a.arg for a in hc.args.args[1:]]
    got = guard(lambda: ex.run(hc.body, {params[0]: TupleV([R.sym("c"), R.sym("w")]), params[1]: R.sym("fraction"), params[2]: R.sym("weight")}))
    want = (R.sym("weight") * (R.sym("P(a)") - R.sym("P(b)"))) ** 2 + (R.sym("F(b)") - R.sym("F(a)") - R.sym("fraction")) ** 2
    o = formula_ob("hdi-cost-form", qual(de, hc), got, want, BASE, hc.lineno,
                   what="interval cost = (weight (P_a - P_b))^2 + (F_b - F_a - fraction)^2")
    # end points handed to the estimator are c -/+ w/2, lower first (normal forms of the resolved argument terms)
    rz = Resolver(hc, prog, de.module, de)
    th = params[0]
    half = Fraction(1, 2)
    ok_v, why_v = True, []
    probes = rz.calls(lambda f: f in ("self", "self.__call__", "self.cdf"))
    for call, st_ in probes:
        t_ = rz.term(call.args[0], st_) if call.args else None
        bb = pmatch(t_, "array([_a, _b])") if t_ is not None else None
        if bb is None:
            bb = pmatch(t_, "array((_a, _b))") if t_ is not None else None
        good = False
        if bb is not None:
            ea, _ = abstract(ast.parse(bb["_a"], mode="eval").body, [(f"{th}[0]", "C"), (f"{th}[1]", "W")])
            eb, _ = abstract(ast.parse(bb["_b"], mode="eval").body, [(f"{th}[0]", "C"), (f"{th}[1]", "W")])
            try:
                good = anf_of(ea).eq(R.sym("C") - half * R.sym("W")) and anf_of(eb).eq(R.sym("C") + half * R.sym("W"))
            except Unsupported:
                good = False
        if not good:
            ok_v = False
            why_v.append(f"`{U(call)}` is evaluated at `{U(t_) if t_ is not None else None}`")
    ok_v = ok_v and len(probes) == 2
    it = de.methods.get("interval")
    ri = Resolver(it, prog, de.module, de)
    ok_i, why_i = True, []
    mins = ri.calls(lambda f: f == "minimize")
    if len(mins) != 1:
        ok_i = False
        why_i.append(f"{len(mins)} minimize calls")
    else:
        call, st_ = mins[0]
        fun = ri.arg(call, 0, "fun")
        args = ri.arg(call, None, "args")
        if fun is None or U(fun) not in ("self.__hdi_cost", "self._DensityEstimator__hdi_cost"):
            ok_i = False
            why_i.append(f"objective is `{U(fun) if fun is not None else None}`")
        frac_param = it.args.args[1].arg
        if not (isinstance(args, ast.Tuple) and len(args.elts) == 2 and isinstance(args.elts[0], ast.Name) and args.elts[0].id == frac_param):
            ok_i = False
            why_i.append(f"extra arguments are `{U(args) if args is not None else None}`, expected ({frac_param}, weight)")
        rets = ri.return_terms()
        good = False
        if len(rets) == 1 and isinstance(rets[0], ast.Tuple) and len(rets[0].elts) == 2:
            ab, seen = abstract(rets[0], [("minimize(*_).x[0]", "C"), ("minimize(*_).x[1]", "W")])
            try:
                good = (anf_of(ab.elts[0]).eq(R.sym("C") - half * R.sym("W")) and anf_of(ab.elts[1]).eq(R.sym("C") + half * R.sym("W"))
                        and all(len(v) == 1 for v in seen.values()))
            except Unsupported:
                good = False
        if not good:
            ok_i = False
            why_i.append(f"returned interval is `{U(rets[0]) if rets else None}`"[:300])
    if o.ok and not (ok_v and ok_i):
        o = struct_ob("hdi-cost-form", qual(de, hc), False,
                      f"end points must be centre -/+ width/2 of the optimiser's solution in both the cost and the returned interval, and the "
                      f"cost must receive (fraction, weight): {'; '.join(why_v + why_i)}", BASE, hc.lineno)
    obs.append(o)

    # ---------------------------------------------------------------- mode
    kc = prog.cls("GaussianKDE")
    lm = kc.methods.get("locate_mode")
    rl = Resolver(lm, prog, kc.module, kc)
    rets = rl.return_terms()
    bb = pmatch(rets[0], "minimize_scalar(lambda z: -self.__call__(z), bounds=[_lo, _hi], method='bounded').x") if len(rets) == 1 else None
    if bb is None and len(rets) == 1:
        bb = pmatch(rets[0], "minimize_scalar(lambda z: -self.__call__(z), bounds=(_lo, _hi), method='bounded').x")
    ok = bb is not None and "self.sample" in bb["_lo"] and "self.sample" in bb["_hi"]
    # ... and that maximiser is what the estimator reports as its mode
    kin = kc.methods.get("__init__")
    msites = [st_ for st_ in ast.walk(kin) if isinstance(st_, ast.Assign) and len(st_.targets) == 1 and U(st_.targets[0]) == "self.mode"]
    okm = len(msites) >= 1 and all(U(Resolver(kin, prog, kc.module, kc).term(st_.value, st_)) == "self.locate_mode()" for st_ in msites)
    obs.append(struct_ob("mode-is-argmax", qual(kc, kin) + "[mode]", okm,
                         f"GaussianKDE.mode must be the result of locate_mode() (the bounded maximiser of the estimate's own density); it is "
                         f"`{U(msites[0].value)[:100] if msites else None}`", KDE, msites[0].lineno if msites else kin.lineno, tier="F"))
    # intervals are read through the estimator's own cdf (DensityEstimator.interval), and moments are integrals of its own density:
    # no estimator replaces them by statistics of the raw sample
    de_ = prog.cls("DensityEstimator")
    for sub_ in prog.subclasses("DensityEstimator"):
        over = [m_ for m_ in ("interval", "__hdi_cost", "_DensityEstimator__hdi_cost") if m_ in sub_.methods]
        obs.append(struct_ob("hdi-cost-form", f"{sub_.module.name}.{sub_.name}[interval-inherited]", not over,
                             f"{sub_.name} overrides {over}: its interval is no longer the one decided for DensityEstimator.interval "
                             f"(equal end densities, requested mass under the estimator's own cdf)", sub_.module.relpath,
                             sub_.methods[over[0]].lineno if over else sub_.node.lineno, tier="E"))
        mo = sub_.methods.get("moments")
        if mo is not None:
            rzm = Resolver(mo, prog, sub_.module, sub_)
            terms_ = rzm.return_terms()
            uses_density = any(isinstance(x, ast.Call) and U(x.func) in ("self.__call__", "self", "self.evaluate_model", "self.log_pdf_model")
                               for t_ in terms_ for x in ast.walk(t_))
            from_sample = [U(x)[:60] for t_ in terms_ for x in ast.walk(t_)
                           if isinstance(x, ast.Call) and U(x.func).split(".")[-1] in ("mean", "var", "std", "median", "average", "cov", "skew", "kurtosis")
                           and any(isinstance(y, ast.Attribute) and y.attr in ("sample", "fitted_samples") and U(y.value) == "self" for y in ast.walk(x))]
            obs.append(struct_ob("units-result-types", f"{sub_.module.name}.{sub_.name}.moments[of-the-estimate]", uses_density and not from_sample,
                                 f"moments must be integrals of the estimator's own density" + (f"; `{from_sample[0]}` is a statistic of the raw sample "
                                 f"(a kernel estimate has variance sample variance + h^2, and its mean / skewness / kurtosis differ likewise)"
                                 if from_sample else "; the returned terms never evaluate the density"), sub_.module.relpath, mo.lineno, tier="F"))
    obs.append(struct_ob("mode-is-argmax", qual(kc, lm), ok,
                         f"the mode must be the bounded minimiser of -density over an interval taken from the sample; returned term: "
                         f"`{U(rets[0])[:300] if rets else None}`", KDE, lm.lineno, slots={"bounds": bb}))
    from .common import final_state_obligations
    obs.extend(final_state_obligations(prog, "mode-is-argmax", "UnimodalPdf", UNI, {"MAP", "sd", "n_nodes", "u", "w"}))
    uc = prog.cls("UnimodalPdf")
    init = uc.methods["__init__"]
    # on every path through the constructor, the last assignment of MAP is followed by mode = MAP[0] and by the normaliser
    sync = _sync_state(init, uc, prog)
    obs.append(struct_ob("mode-is-argmax", qual(uc, init), sync["mode"] is True,
                         f"on every path through the constructor the reported mode must be element 0 of the final MAP estimate "
                         f"(state at exit: {sync})", UNI, init.lineno))

    # ---------------------------------------------------------------- Gauss-Chebyshev weights (derived)
    anf.reset()
    ex = Expander(prog, uc.module, uc)
    ex.opaque_self_attrs = {"n_nodes", "sd"}
    env = {}
    rq = Resolver(init, prog, uc.module, uc)
    sts = {U(s.targets[0]): s for s in init.body if isinstance(s, ast.Assign)}
    for name in ("self.u", "self.w"):
        if name not in sts:
            raise AnalysisError(f"anchor vanished: `{name}` in UnimodalPdf.__init__")
    n = R.sym("self.n_nodes")
    T = R.sym("T")
    # the node array is the cosine both tables are built from; the node index is the linspace inside it
    ut = rq.term(sts["self.u"].value, sts["self.u"])
    wt = rq.term(sts["self.w"].value, sts["self.w"])
    u_ab, seen_u = abstract(ut, [("cos(_)", "T")])
    w_ab, seen_w = abstract(wt, [("cos(_)", "T")])
    nodes = seen_u.get("T", set()) | seen_w.get("T", set())
    if len(nodes) != 1:
        raise AnalysisError(f"anchor vanished: one Chebyshev node expression cos(...) in self.u / self.w ({len(nodes)} found)")
    node_t = ast.parse(next(iter(nodes)), mode="eval").body
    k_ab, seen_k = abstract(node_t, [("linspace(_a, _b, _c)", "k"), ("arange(_a, _b)", "k")])
    kdefs = seen_k.get("k", set())
    kdef = next(iter(kdefs)) if len(kdefs) == 1 else None
    ok_k = kdef is not None and any(pmatch(ast.parse(kdef, mode="eval").body, pt) is not None for pt in
                                    ("linspace(1, self.n_nodes, self.n_nodes)", "arange(1, self.n_nodes + 1)", "arange(1, 1 + self.n_nodes)",
                                     "arange(1.0, self.n_nodes + 1)"))
    ex.scalar_names = set()
    tval = guard(lambda: ex.eval(k_ab, {"k": R.sym("k")}))
    want_t = anf.cos_(anf.PI * (2 * R.sym("k") - 1) / (2 * n))
    obs.append(formula_ob("quadrature-weights", qual(uc, init) + "[nodes]", tval, want_t, UNI, sts["self.u"].lineno,
                          what="Chebyshev nodes t_k = cos(pi (2k - 1) / 2n)"))
    env2 = {"T": T}
    uval = guard(lambda: ex.eval(u_ab, env2))
    wval = guard(lambda: ex.eval(w_ab, env2))
    obs.append(formula_ob("quadrature-weights", qual(uc, init) + "[map]", uval, T / (1 - T * T), UNI, sts["self.u"].lineno,
                          what="substitution u = t / (1 - t^2) mapping (-1, 1) onto the real line"))
    # integral f(u) du = integral f(u(t)) u'(t) dt = sum (pi/n) sqrt(1-t^2) f(u(t_k)) u'(t_k); the code folds in 1/sd
    du = anf.diff(uval, ("sym", "T"))
    want_w = (anf.PI / n) * anf.sqrt_(1 - T * T) * du / R.sym("self.sd")
    o = formula_ob("quadrature-weights", qual(uc, init) + "[weights]", wval, want_w, UNI, sts["self.w"].lineno,
                   what="weights = (pi/n) sqrt(1 - t^2) (du/dt) / sd  (Chebyshev weight x Jacobian of the substitution)")
    if o.ok and not ok_k:
        o = struct_ob("quadrature-weights", qual(uc, init) + "[weights]", False, f"node index is `{kdef}`, not 1..n", UNI, sts["self.u"].lineno)
    obs.append(o)
    # norm = sum(w * pdf_model(u, [0, sd, *theta[2:]])) * theta[1]
    nm = uc.methods.get("norm")
    rn = Resolver(nm, prog, uc.module, uc)
    rets = rn.return_terms()
    tp = nm.args.args[1].arg
    ok = len(rets) == 1 and (pmatch(rets[0], f"(self.w * self.pdf_model(self.u, [0.0, self.sd, *{tp}[2:]])).sum() * {tp}[1]") is not None
                             or pmatch(rets[0], f"sum(self.w * self.pdf_model(self.u, [0.0, self.sd, *{tp}[2:]])) * {tp}[1]") is not None)
    obs.append(struct_ob("normaliser-consistent", qual(uc, nm), ok,
                         f"the normaliser must integrate the standardised model (location 0, scale sd) on the quadrature grid and rescale by "
                         f"the scale parameter: `{U(rets[0]) if rets else None}`", UNI, nm.lineno))
    # map_lognorm = log(norm(MAP)) holds at the end of every constructor path, and __call__ uses it
    cfn = uc.methods.get("__call__")
    rc = Resolver(cfn, prog, uc.module, uc)
    rets = rc.return_terms()
    xp = cfn.args.args[1].arg
    ok_call = len(rets) == 1 and pmatch(rets[0], f"exp(self.log_pdf_model({xp}, self.MAP) - self.map_lognorm)") is not None
    obs.append(struct_ob("normaliser-consistent", qual(uc, init), sync["norm"] is True and ok_call,
                         f"the density must be exp(log_pdf_model(x, MAP) - log norm(MAP)) with the normaliser recomputed after the last "
                         f"assignment of MAP on every constructor path (state at exit: {sync}; density term ok: {ok_call})", UNI, init.lineno))
    obs.extend(_mirror_limits(prog, uc))
    # ---------------------------------------------------------------- cdf ordering
    cf = uc.methods.get("cdf")
    obs.append(_cdf_ordering(prog, uc, cf))

    obs.extend(dtype_hazard_obligations(prog, "float-arithmetic", ['inference/pdf/base.py', 'inference/pdf/unimodal.py', 'inference/pdf/kde.py']))
    from .common import call_order_obligations
    obs.extend(call_order_obligations(prog, "arguments-in-order", ['inference/pdf/base.py', 'inference/pdf/unimodal.py', 'inference/pdf/kde.py']))
    from .common import identity_memo_obligations
    obs.extend(identity_memo_obligations(prog, "result-keyed-on-values", ['inference/pdf/base.py', 'inference/pdf/unimodal.py', 'inference/pdf/kde.py']))

    obs.extend(memo_obligations(prog, "cache-key", [prog.cls("GaussianKDE"), prog.cls("UnimodalPdf")]))

    meta = {
        "explanation": "Units-of-measure / shift / log-domain type inference over the estimator classes with the sample typed X^1 and "
                       "moving one-for-one with a data shift: no dimension error, no quantity non-linear in the shift, no weight-dependent "
                       "shift reaching a result, and the public results have the covariant types (density X^-1, cdf pure, interval and "
                       "mode X^1 moving with the data, variance X^2 shift-free, shape moments pure) - a judgement about all samples, "
                       "scales and locations at once. Normal-form checks of the interval cost and of the quadrature nodes / map / "
                       "weights (the weights are derived from the substitution by differentiation); structural checks of mode, "
                       "normaliser and cdf ordering.",
        "assumptions": ["signatures of numpy / scipy functions as tabulated in sa/units.py",
                        "scipy minimize / quad / simpson behave as documented"],
    }
    return obs, FLOORS, meta
