"""C19 - density-estimator intervals, moments and normalisation are self-consistent (tier U + F + S).

Decides: scale- and shift-covariance of every formula in pdf/base.py, kde.py, unimodal.py as
a typing judgement (for all samples, scales and locations at once); the interval cost is the
stated two-term objective; the KDE mode is the bounded maximiser of the density; the
Gauss-Chebyshev weights are those of the substitution (derived, not transcribed); the
normaliser used by __call__ is computed from the final MAP; the cdf is accumulated in sorted
order and returned through the inverse permutation.
Does not decide: normalisation accuracy, optimiser convergence, moment accuracy (numerical).
"""
from __future__ import annotations
import ast
from fractions import Fraction
from ..model import qual
from ..symx import Expander, TupleV
from ..anf import R, Unsupported
from .. import anf, units
from ..units import Lin, BOOL, num
from .common import struct_ob, formula_ob, guard, last_return, U
from .C12 import units_obligations
from ..report import AnalysisError

BASE = "inference/pdf/base.py"
KDE = "inference/pdf/kde.py"
UNI = "inference/pdf/unimodal.py"
FLOORS = {"units": 3, "units-result-types": 3, "hdi-cost-form": 1, "mode-is-argmax": 2, "quadrature-weights": 3,
          "normaliser-consistent": 2, "cdf-ordering": 1}

EXPECTED = {"__call__": "Lin(-1,0)", "cdf": "Lin(0,0)", "interval": "Tup(Lin(1,1), Lin(1,1))",
            "moments": "Tup(Lin(1,1), Lin(2,0), Lin(0,0), Lin(0,0))", "attr:mode": "Lin(1,1)"}


def run(prog, tier):
    obs = []
    S = Lin(1, 1)
    public = {"__call__": [S], "cdf": [S], "interval": [num()], "moments": [], "__attr__": ["mode"]}
    obs.extend(units_obligations(prog, KDE, "GaussianKDE",
                                 [("rule-of-thumb bandwidth", {"args": [S], "kws": {}}),
                                  ("cross-validated bandwidth", {"args": [S], "kws": {"cross_validation": BOOL}})],
                                 public, EXPECTED))
    obs.extend(units_obligations(prog, UNI, "UnimodalPdf", [("default", {"args": [S], "kws": {}})], public, EXPECTED))

    # ---------------------------------------------------------------- interval cost
    anf.reset()
    de = prog.cls("DensityEstimator")
    hc = de.methods.get("__hdi_cost")
    if hc is None:
        raise AnalysisError("anchor vanished: DensityEstimator.__hdi_cost")
    ex = Expander(prog, de.module, de)

    def hook(e, node, env):
        f = U(node.func)
        if f == "self":
            return TupleV([R.sym("P(a)"), R.sym("P(b)")])
        if f == "self.cdf":
            return TupleV([R.sym("F(a)"), R.sym("F(b)")])
        if f == "array":
            return e.eval(node.args[0], env)
        return NotImplemented
    ex.call_hook = hook
    params = [a.arg for a in hc.args.args[1:]]
    got = guard(lambda: ex.run(hc.body, {params[0]: TupleV([R.sym("c"), R.sym("w")]), params[1]: R.sym("fraction"), params[2]: R.sym("weight")}))
    want = (R.sym("weight") * (R.sym("P(a)") - R.sym("P(b)"))) ** 2 + (R.sym("F(b)") - R.sym("F(a)") - R.sym("fraction")) ** 2
    o = formula_ob("hdi-cost-form", qual(de, hc), got, want, BASE, hc.lineno,
                   what="interval cost = (weight (P_a - P_b))^2 + (F_b - F_a - fraction)^2")
    # end points handed to the estimator are c -/+ w/2, lower first
    vdef = [s for s in hc.body if isinstance(s, ast.Assign) and U(s.targets[0]) == "v"]
    ok_v = len(vdef) == 1 and U(vdef[0].value) == "array([c - 0.5 * w, c + 0.5 * w])"
    it = de.methods.get("interval")
    txt = U(it)
    ok_i = ("lwr, upr = sample_hdi(self.sample, fraction=fraction)" in txt and "c = 0.5 * (lwr + upr)" in txt and "w = upr - lwr" in txt
            and "weight = 0.2 / self(self.mode)" in txt and "args=(fraction, weight)" in txt and "fun=self.__hdi_cost" in txt
            and "return (c - 0.5 * w, c + 0.5 * w)" in txt and "c, w = result.x" in txt)
    if o.ok and not (ok_v and ok_i):
        o = struct_ob("hdi-cost-form", qual(de, hc), False,
                      f"end points must be c -/+ w/2 in both the cost and the returned interval, the cost must receive (fraction, weight) "
                      f"with weight = 0.2 / peak density: v ok {ok_v}; interval wiring ok {ok_i}", BASE, hc.lineno)
    obs.append(o)

    # ---------------------------------------------------------------- mode
    kc = prog.cls("GaussianKDE")
    lm = kc.methods.get("locate_mode")
    txt = U(lm)
    ok = ("minimize_scalar(lambda x: -self(x), bounds=[lwr, upr], method='bounded')" in txt and "return result.x" in txt
          and "lwr, upr = sample_hdi(self.sample, 0.2)" in txt and "lwr, upr = (self.sample[0], self.sample[-1])" in txt)
    obs.append(struct_ob("mode-is-argmax", qual(kc, lm), ok,
                         "the mode must be the bounded minimiser of -density over an interval of the sample", KDE, lm.lineno))
    uc = prog.cls("UnimodalPdf")
    init = uc.methods["__init__"]
    # every assignment of MAP is followed by mode = MAP[0]; log_pdf_model peaks at x0 (z = 0)
    body = init.body
    seq = [U(s) for s in ast.walk(init) if isinstance(s, ast.Assign) and U(s.targets[0]) in ("self.MAP", "self.mode")]
    ok = len(seq) >= 2 and all(seq[i] == "self.MAP = self.min_result.x" and seq[i + 1] == "self.mode = self.MAP[0]" for i in range(0, len(seq) - 1, 2)) \
        and len(seq) % 2 == 0
    obs.append(struct_ob("mode-is-argmax", qual(uc, init), ok,
                         f"the reported mode must be the location parameter of the final MAP estimate: assignments {seq}", UNI, init.lineno))

    # ---------------------------------------------------------------- Gauss-Chebyshev weights (derived)
    anf.reset()
    ex = Expander(prog, uc.module, uc)
    ex.opaque_self_attrs = {"n_nodes", "sd"}
    env = {}
    sts = {U(s.targets[0]): s for s in init.body if isinstance(s, ast.Assign)}
    for name in ("k", "t", "self.u", "self.w"):
        if name not in sts:
            raise AnalysisError(f"anchor vanished: `{name}` in UnimodalPdf.__init__")
    env["k"] = R.sym("k")
    n = R.sym("self.n_nodes")
    tval = guard(lambda: ex.eval(sts["t"].value, env))
    want_t = anf.cos_(anf.PI * (2 * R.sym("k") - 1) / (2 * n))
    obs.append(formula_ob("quadrature-weights", qual(uc, init) + "[nodes]", tval, want_t, UNI, sts["t"].lineno,
                          what="Chebyshev nodes t_k = cos(pi (2k - 1) / 2n)"))
    kdef = U(sts["k"].value)
    ok_k = kdef == "linspace(1, self.n_nodes, self.n_nodes)"
    T = R.sym("T")
    env2 = {"t": T}
    uval = guard(lambda: ex.eval(sts["self.u"].value, env2))
    wval = guard(lambda: ex.eval(sts["self.w"].value, env2))
    obs.append(formula_ob("quadrature-weights", qual(uc, init) + "[map]", uval, T / (1 - T * T), UNI, sts["self.u"].lineno,
                          what="substitution u = t / (1 - t^2) mapping (-1, 1) onto the real line"))
    # integral f(u) du = integral f(u(t)) u'(t) dt = sum (pi/n) sqrt(1-t^2) f(u(t_k)) u'(t_k); the code folds in 1/sd
    du = anf.diff(uval, ("sym", "T"))
    want_w = (anf.PI / n) * anf.sqrt_(1 - T * T) * du / R.sym("self.sd")
    o = formula_ob("quadrature-weights", qual(uc, init) + "[weights]", wval, want_w, UNI, sts["self.w"].lineno,
                   what="weights = (pi/n) sqrt(1 - t^2) (du/dt) / sd  (Chebyshev weight x Jacobian of the substitution)")
    if o.ok and not ok_k:
        o = struct_ob("quadrature-weights", qual(uc, init) + "[weights]", False, f"node index is `{kdef}`, not 1..n", UNI, sts["k"].lineno)
    obs.append(o)
    # norm = sum(w * pdf_model(u, [0, sd, *theta[2:]])) * theta[1]
    nm = uc.methods.get("norm")
    body = [U(s) for s in nm.body]
    ok = body == ["v = self.pdf_model(self.u, [0.0, self.sd, *theta[2:]])", "integral = (self.w * v).sum() * theta[1]", "return integral"]
    obs.append(struct_ob("normaliser-consistent", qual(uc, nm), ok,
                         f"the normaliser must integrate the standardised model (location 0, scale sd) on the quadrature grid and rescale by "
                         f"the scale parameter: {body}", UNI, nm.lineno))
    # map_lognorm computed from the final MAP (after its last assignment), and used by __call__
    lines_map = [s.lineno for s in ast.walk(init) if isinstance(s, ast.Assign) and U(s.targets[0]) == "self.MAP"]
    ln = [s for s in ast.walk(init) if isinstance(s, ast.Assign) and U(s.targets[0]) == "self.map_lognorm"]
    cfn = uc.methods.get("__call__")
    ok = (len(ln) == 1 and U(ln[0].value) == "log(self.norm(self.MAP))" and ln[0].lineno > max(lines_map)
          and ln[0] in init.body
          and U(last_return(cfn).value) == "exp(self.log_pdf_model(x, self.MAP) - self.map_lognorm)")
    obs.append(struct_ob("normaliser-consistent", qual(uc, init), ok,
                         "the density must be exp(log_pdf_model(x, MAP) - log norm(MAP)) with the normaliser computed, unconditionally, "
                         "after the last assignment of MAP", UNI, init.lineno))
    # ---------------------------------------------------------------- cdf ordering
    cf = uc.methods.get("cdf")
    txt = U(cf)
    ok = ("sorter = x.argsort()" in txt and "inverse_sort = sorter.argsort()" in txt and "v = x[sorter]" in txt
          and "intervals[i] = quad(self.__call__, v[i - 1], v[i])[0]" in txt and "for i in range(1, x.size)" in txt
          and "integral = intervals.cumsum()[inverse_sort]" in txt
          and "quad(self.__call__, self.lwr_limit, v[0])[0] if v[0] > self.lwr_limit else 0.0" in txt)
    obs.append(struct_ob("cdf-ordering", qual(uc, cf), ok,
                         "the cdf must integrate between consecutive sorted query points, accumulate, and undo the sort with the inverse "
                         "permutation of the same sorter", UNI, cf.lineno))

    meta = {
        "explanation": "Units-of-measure / shift / log-domain type inference over the estimator classes with the sample typed X^1 and "
                       "moving one-for-one with a data shift: no dimension error, no quantity non-linear in the shift, no weight-dependent "
                       "shift reaching a result, and the public results have the covariant types (density X^-1, cdf pure, interval and "
                       "mode X^1 moving with the data, variance X^2 shift-free, shape moments pure) - a judgement about all samples, "
                       "scales and locations at once. Normal-form checks of the interval cost and of the quadrature nodes / map / "
                       "weights (the weights are derived from the substitution by differentiation); structural checks of mode, "
                       "normaliser and cdf ordering.",
        "assumptions": ["signatures of numpy / scipy functions as tabulated in sa/units.py",
                        "scipy minimize / quad / simpson behave as documented"],
    }
    return obs, FLOORS, meta
