"""C15 - advancing adds exactly the requested number of samples (tier S).

Decides: trip-count identity of advance (base, ensemble, tempering); one length
increment and one probability append per step on every path; the timed loops make
progress on every iteration and re-read the clock; the pool keeps order; every method
an inherited public entry calls exists in the concrete sampler.
Does not decide: wall-clock behaviour.
"""
from __future__ import annotations
import ast
from ..model import qual
from ..flow import Enumerator, RETURN, count, fmt
from ..symx import Expander
from ..anf import R, Unsupported
from .. import anf, trip, zerotrip
from .common import struct_ob, formula_ob, guard, last_return, U
from . import mcmc
from ..report import AnalysisError
from ..term import Resolver, pmatch

FLOORS = {"trip-count": 4, "length-pair": 4, "run_for.progress": 2, "pool-order": 1,
          "entry-resolves": 10, "equal-steps": 2, "ensemble-length": 1,
          "zero-trip": 6, "randomness-owned": 5, "state-picklable": 12}


def run(prog, tier):
    # "adds": what was stored before an advance is still there afterwards, followed by the new rows - the ensemble re-builds its
    # stores from (old store, new rows); that clause is decided in C03 and shared here
    from .common import borrow
    shared = borrow(prog, tier, "C03", {"ensemble-append"}, "earlier-samples-kept",
                    "an advance appends to the stored sample: the concatenation starts with the store as it was")
    anf.reset()
    obs, info = [], []
    obs.extend(shared)
    unroll = 3 if tier == "thorough" else 2

    # ---------------------------------------------------------------- trip-count: MarkovChain.advance
    c, adv = prog.method("MarkovChain", "advance")
    obs.append(_trip(prog, c, adv, lambda n, ex, env: R.const(1) if U(n.func) == "self.take_step" else None,
                     adv.args.args[1].arg, "take_step calls"))
    # ... and every override of it in a concrete chain class carries the same obligation
    for sub in prog.subclasses("MarkovChain"):
        if "advance" in sub.methods and len(sub.methods["advance"].args.args) >= 2 and any(
                isinstance(x, ast.Call) and U(x.func) == "self.take_step" for x in ast.walk(sub.methods["advance"])):
            f_ = sub.methods["advance"]
            obs.append(_trip(prog, sub, f_, lambda n, ex, env: R.const(1) if U(n.func) == "self.take_step" else None,
                             f_.args.args[1].arg, "take_step calls"))
    # ParallelTempering.advance: steps per chain = sum of take_steps arguments
    c, padv = prog.method("ParallelTempering", "advance")

    def w_ts(n, ex, env):
        if U(n.func) == "self.take_steps" and len(n.args) + len(n.keywords) == 1:
            return ex.need_r(ex.eval(n.args[0] if n.args else n.keywords[0].value, env))
        return None
    obs.append(_trip(prog, c, padv, w_ts, padv.args.args[1].arg, "steps per chain (sum of take_steps arguments)"))
    # EnsembleSampler.advance: iterations x one __advance_all
    c, eadv = prog.method("EnsembleSampler", "advance")
    obs.append(_trip(prog, c, eadv,
                     lambda n, ex, env: R.const(1) if U(n.func).endswith("__advance_all") else None,
                     eadv.args.args[1].arg, "__advance_all calls"))
    c, eall = prog.method("EnsembleSampler", "__advance_all")
    obs.append(_trip(prog, c, eall,
                     lambda n, ex, env: R.const(1) if U(n.func).endswith("__advance_walker") else None,
                     None, "__advance_walker calls per iteration", want=R.sym("self.n_walkers")))
    # chain_length derived from the store
    src = {U(s.targets[0]): U(s.value) for s in eadv.body if isinstance(s, ast.Assign)}
    obs.append(struct_ob("ensemble-length", qual(c, eadv), src.get("self.chain_length") in ("self.sample_probs.size", "len(self.sample_probs)",
                                                                                            "self.sample_probs.shape[0]",
                                                                                            # one row per stored log-probability (the two
                                                                                            # stores grow by the same walkers: ensemble-append)
                                                                                            "self.sample.shape[0]", "len(self.sample)"),
                         f"chain_length must be the size of the stored log-probabilities (or the row count of the stored sample); is `{src.get('self.chain_length')}`",
                         c.module.relpath, eadv.lineno))

    # ---------------------------------------------------------------- equal-steps: take_steps / worker
    c, ts = prog.method("ParallelTempering", "take_steps")
    rel = c.module.relpath
    n_param = ts.args.args[1].arg
    rt = Resolver(ts, prog, c.module, c)
    sends = []
    for lp in [s_ for s_ in ts.body if isinstance(s_, ast.For) and U(s_.iter) == "self.connections"]:
        for x in ast.walk(lp):
            if isinstance(x, ast.Call) and U(x.func) == f"{U(lp.target)}.send" and x.args:
                sends.append(rt.term(x.args[0], rt.stmt_of(x)))
    ok, why = False, f"{len(sends)} send(s) over self.connections"
    if len(sends) == 1 and isinstance(sends[0], ast.Dict):
        d = {k.value: U(v) for k, v in zip(sends[0].keys, sends[0].values) if isinstance(k, ast.Constant)}
        ok = d.get("task") == "'advance'" and d.get("advance_count") == n_param
        why = f"message {d}"
    obs.append(struct_ob("equal-steps", qual(c, ts), ok,
                         "take_steps must send the same advance_count (its argument) to every pipe: " + why, rel, ts.lineno))
    tp = prog.function(rel, "tempering_process")
    chain = tp.args.args[0].arg
    rw = Resolver(tp, prog, prog.module(rel), None)
    ok = False
    for n in ast.walk(tp):
        if isinstance(n, ast.If) and isinstance(n.test, ast.Compare) and isinstance(n.test.comparators[0], ast.Constant) \
                and n.test.comparators[0].value == "advance":
            msg = n.test.left.value.id if isinstance(n.test.left, ast.Subscript) and isinstance(n.test.left.value, ast.Name) else "D"
            loops = [s_ for s_ in n.body if isinstance(s_, ast.For)]
            if len(loops) == 1:
                it = rw.term(loops[0].iter, loops[0], keep=(msg,))
                steps = [s_ for s_ in loops[0].body if isinstance(s_, ast.Expr) and isinstance(s_.value, ast.Call)
                         and U(s_.value.func) == f"{chain}.take_step"]
                ok = pmatch(it, f"range({msg}['advance_count'])") is not None and len(steps) == 1 and len(loops[0].body) == 1
    obs.append(struct_ob("equal-steps", f"{prog.module(rel).name}.tempering_process[advance]", ok,
                         "the worker must take exactly message['advance_count'] steps", rel, tp.lineno))

    # ---------------------------------------------------------------- length-pair
    for cname in ("MetropolisChain", "GibbsChain", "PcaChain", "HamiltonianChain"):
        ci = prog.cls(cname)
        st = mcmc.derive_stores(prog, cname)
        (c, fn), = mcmc.step_functions(prog, cname)
        classify, compound = mcmc.make_classifier(st)
        en = Enumerator(classify, compound, mcmc.self_inliner(prog, ci), unroll=unroll, depth=2)
        paths = en.function(fn)
        normal = [ev for ev, s in paths if s == RETURN]
        def paired(ev):
            if count(ev, "APPEND_P") != 1:
                return False
            if count(ev, "INC_LEN") == 1 and count(ev, "SET_LEN") == 0:
                return True
            # `chain_length = len(self.probs)` AFTER the append of the step: the length is the stored count by construction
            kinds = [e[0] for e in ev if e[0] in ("APPEND_P", "SET_LEN", "INC_LEN")]
            return count(ev, "INC_LEN") == 0 and count(ev, "SET_LEN") >= 1 and kinds[-1] == "SET_LEN"
        bad = [ev for ev in normal if not paired(ev)]
        msg = ""
        if bad:
            ev = bad[0]
            msg = (f"path {fmt([e for e in ev if e[0] in ('APPEND_S', 'APPEND_P', 'INC_LEN')])}: chain_length "
                   f"incremented x{count(ev, 'INC_LEN')}, log-probabilities appended x{count(ev, 'APPEND_P')}")
        obs.append(struct_ob("length-pair", qual(c, fn) + (f"[{cname}]" if c.name != cname else ""),
                             not bad and bool(normal), msg or "no normal path", c.module.relpath, fn.lineno,
                             slots={"paths": len(paths)}))

    # ---------------------------------------------------------------- zero-trip behaviour (m = 0, zero time budget)
    for cname, mname in (("MarkovChain", "advance"), ("MarkovChain", "run_for"), ("EnsembleSampler", "advance"),
                         ("ParallelTempering", "advance"), ("ParallelTempering", "run_for"), ("ParallelTempering", "take_steps")):
        c, fn = prog.method(cname, mname)
        undef, empties = zerotrip.analyse(fn)
        probs_ = [f"`{n}` (line {l}) is read although it is only assigned inside a loop that may run zero times" for l, n in undef]
        probs_ += [f"`{t}` (line {l}) may receive an empty list when the loop runs zero times" for l, t in empties]
        obs.append(struct_ob("zero-trip", qual(c, fn), not probs_, "; ".join(probs_), c.module.relpath,
                             (undef + empties)[0][0] if probs_ else fn.lineno,
                             detail=",".join(sorted({n for _, n in undef} | {t for _, t in empties}))))

    # ---------------------------------------------------------------- run_for.progress
    c, rf = prog.method("MarkovChain", "run_for")
    obs.append(_progress(c, rf, "self.take_step"))
    c, prf = prog.method("ParallelTempering", "run_for")
    obs.append(_progress(c, prf, "self.take_steps"))

    # ---------------------------------------------------------------- pool-order
    c, padv = prog.method("ChainPool", "advance")
    c2, af = prog.method("ChainPool", "adv_func")
    rp = Resolver(padv, prog, c.module, c)
    n_param = padv.args.args[1].arg
    a = [s_ for s_ in ast.walk(padv) if isinstance(s_, ast.Assign) and U(s_.targets[0]) == "self.chains"]
    ok, why = False, ""
    if len(a) == 1:
        t_ = rp.term(a[0].value, a[0])
        tasks = (f"[({n_param}, _c) for _c in self.chains]", f"zip([{n_param}] * len(self.chains), self.chains)",
                 f"[({n_param}, _c) for _c in list(self.chains)]", f"list(zip([{n_param}] * len(self.chains), self.chains))")
        forms = [f"self.pool.map(self.adv_func, {tk_})" for tk_ in tasks] + [f"self.pool.map(self.adv_func, {tk_}, **_)" for tk_ in tasks] + \
                [f"list(self.pool.map(self.adv_func, {tk_}))" for tk_ in tasks] + [f"list(self.pool.imap(self.adv_func, {tk_}))" for tk_ in tasks] + \
                [f"list(self.pool.imap(self.adv_func, {tk_}, **_))" for tk_ in tasks]        # map / imap keep the order of the tasks (imap_unordered does not)
        ok = any(pmatch(t_, pt) is not None for pt in forms)
        why = U(t_)
    ra = Resolver(af, prog, c2.module, c2)
    arg = af.args.args[0].arg
    advs = [(n_, ra.stmt_of(n_)) for n_ in ast.walk(af) if isinstance(n_, ast.Call) and isinstance(n_.func, ast.Attribute) and n_.func.attr == "advance"]
    rets_ = ra.return_terms()
    ok2 = (len(advs) == 1 and U(ra.term(advs[0][0].func.value, advs[0][1])) == f"{arg}[1]" and len(advs[0][0].args) == 1
           and U(ra.term(advs[0][0].args[0], advs[0][1])) == f"{arg}[0]" and len(rets_) == 1 and U(rets_[0]) == f"{arg}[1]")
    body = [U(s_) for s_ in af.body]
    # the worker advances the chain it was handed and nothing else: no attribute of the chain is set there (a fresh generator, a
    # reset counter) - "the same state as the same chains advanced one after another"
    sets_ = []
    for st_ in ast.walk(af):
        tg_ = st_.targets if isinstance(st_, ast.Assign) else [st_.target] if isinstance(st_, (ast.AugAssign, ast.AnnAssign)) else []
        for t_ in tg_:
            for el_ in (t_.elts if isinstance(t_, ast.Tuple) else [t_]):
                b_ = el_
                while isinstance(b_, ast.Subscript):
                    b_ = b_.value
                if isinstance(b_, ast.Attribute):
                    sets_.append(f"line {st_.lineno}: `{U(st_)[:70]}`")
        if isinstance(st_, ast.Expr) and isinstance(st_.value, ast.Call) and U(st_.value.func) == "setattr":
            sets_.append(f"line {st_.lineno}: `{U(st_)[:70]}`")
    if sets_:
        ok2 = False
        body = body + ["attribute set in the worker: " + sets_[0]]
    obs.append(struct_ob("pool-order", qual(c, padv), ok and ok2,
                         f"the pool must map (ordered) over (n, chain) pairs in chain order and store the returned chains back: "
                         f"{why}; adv_func body {body}", c.module.relpath, padv.lineno))

    # ... read on the method as written: results gathered as the workers FINISH (a completion callback that appends, or
    # imap_unordered) are in completion order, whatever else the method does - slot i no longer holds chain i
    rawp = prog.as_written()
    rc_, rfn = rawp.method("ChainPool", "advance")
    unordered = []
    nested = {n_.name: n_ for n_ in ast.walk(rfn) if isinstance(n_, (ast.FunctionDef, ast.Lambda)) and n_ is not rfn and hasattr(n_, "name")}
    stored = {x.id for s_ in ast.walk(rfn) if isinstance(s_, ast.Assign) and any(U(t_) == "self.chains" for t_ in s_.targets)
              for x in ast.walk(s_.value) if isinstance(x, ast.Name)}
    for n_ in ast.walk(rfn):
        if not (isinstance(n_, ast.Call) and isinstance(n_.func, ast.Attribute)):
            continue
        if n_.func.attr == "imap_unordered":
            unordered.append(f"line {n_.lineno}: `imap_unordered` yields results as they complete")
        if n_.func.attr in ("apply_async", "map_async", "starmap_async"):
            cb = next((k.value for k in n_.keywords if k.arg == "callback"), n_.args[3] if len(n_.args) > 3 else None)
            cbf = nested.get(cb.id) if isinstance(cb, ast.Name) else None
            grows = set()
            if cbf is not None:
                grows = {x.func.value.id for x in ast.walk(cbf) if isinstance(x, ast.Call) and isinstance(x.func, ast.Attribute)
                         and x.func.attr in ("append", "extend", "insert") and isinstance(x.func.value, ast.Name)}
            elif isinstance(cb, ast.Attribute) and cb.attr in ("append", "extend") and isinstance(cb.value, ast.Name):
                grows = {cb.value.id}
            if grows & stored:
                unordered.append(f"line {n_.lineno}: the completion callback of `{n_.func.attr}` appends to `{sorted(grows & stored)[0]}`, "
                                 f"which is then stored as self.chains")
    obs.append(struct_ob("pool-order", qual(rc_, rfn) + "{as written}", not unordered,
                         "the chains come back in the order in which the workers finish, not in the order they were handed out: "
                         + "; ".join(unordered[:2]), rc_.module.relpath, rfn.lineno))

    # ---------------------------------------------------------------- entry-resolves
    for cname in mcmc.SAMPLERS:
        ci = prog.cls(cname)
        for entry in ("advance", "run_for"):
            c, fn = prog.find_method(ci, entry)
            if fn is None:
                raise AnalysisError(f"anchor vanished: {cname}.{entry}")
            missing = []
            for n in ast.walk(fn):
                if isinstance(n, ast.Call) and isinstance(n.func, ast.Attribute) and isinstance(n.func.value, ast.Name) \
                        and n.func.value.id == "self":
                    m = n.func.attr
                    if prog.find_method(ci, m)[1] is None and not prog.self_assignments(ci, m):
                        # private names are mangled with the defining class
                        if m.startswith("__") and prog.find_method(c, m)[1] is not None:
                            continue
                        missing.append(m)
            obs.append(struct_ob("entry-resolves", f"{ci.module.name}.{cname}.{entry}", not missing,
                                 f"{entry} (defined in {c.name}) calls self.{missing} which {cname} does not define",
                                 c.module.relpath, fn.lineno, detail=",".join(sorted(set(missing))),
                                 slots={"defined_in": c.name}))

    # ---------------------------------------------------------------- randomness is part of the chain's own state
    obs.extend(_owned_randomness(prog))
    # whatever travels with a chain between processes must survive pickling
    from .common import picklable_state_obligations
    shipped = [ci_ for ci_ in prog.classes.values() if ci_.module.relpath.startswith("inference/mcmc/")
               and ci_.name not in ("ParallelTempering", "ChainPool")]
    obs.extend(picklable_state_obligations(prog, "state-picklable", shipped))

    meta = {
        "explanation": "Trip-count algebra: executions of the step callee are summed symbolically over range() loops and "
                       "comprehensions with path splits on counter assignments, normalised with a%b = a-b*(a//b), and must "
                       "equal the requested count; path enumeration shows one length increment and one append per step; "
                       "interval reasoning (max(1,.) >= 1, int(.) >= 0 only) shows the timed loops take at least one step per "
                       "iteration and re-read the clock; pool mapping and method resolution are checked structurally.",
        "assumptions": ["range(E) iterates max(E,0) times; multiprocessing.Pool.map preserves order"],
        "info": info,
    }
    return obs, FLOORS, meta


GLOBAL_RNG_OK = {"default_rng", "Generator", "SeedSequence", "BitGenerator", "PCG64", "RandomState"}


def _owned_randomness(prog):
    """A chain advanced in a pool worker (it is pickled there and back) or saved and reloaded ends where the same chain advanced in
    sequence would only if every random draw of a step comes from a generator the chain itself holds.  A call that resolves to a
    module-level function of numpy.random (the hidden process-wide generator) inside anything reachable from a step / advance
    entry breaks that: the global state does not travel with the object."""
    out = []
    mcmc_classes = [ci for ci in prog.classes.values() if ci.module.relpath.startswith("inference/mcmc/")]
    by_method = {}
    for ci in mcmc_classes:
        for m, fn in ci.methods.items():
            by_method.setdefault(m.split(".")[0], []).append((ci, fn))
    for cname in mcmc.SAMPLERS:
        ci = prog.cls(cname)
        seen, todo = {}, []
        for entry in ("advance", "run_for", "take_step"):
            c, fn = prog.find_method(ci, entry)
            if fn is not None:
                todo.append((c, fn))
        while todo:
            c, fn = todo.pop()
            if id(fn) in seen:
                continue
            seen[id(fn)] = (c, fn)
            for n in ast.walk(fn):
                if isinstance(n, ast.Call) and isinstance(n.func, ast.Attribute):
                    recv, m = n.func.value, n.func.attr
                    if isinstance(recv, ast.Name) and recv.id == "self":
                        cc, f2 = prog.find_method(ci, m)
                        if f2 is None and m.startswith("__"):
                            cc, f2 = prog.find_method(c, m)
                        if f2 is not None:
                            todo.append((cc, f2))
                        else:
                            for tc, tf in prog.slot_targets(ci, m)[0]:
                                todo.append((tc, tf))
                    else:
                        # a call on another object of the package (a Parameter, the bounds, the mass, the step-size selector):
                        # every method of that name in the mcmc package, and the occupants of a slot of that name
                        for c2, f2 in by_method.get(m, []):
                            if c2.name not in mcmc.SAMPLERS:
                                todo.append((c2, f2))
                        for c2 in mcmc_classes:
                            if c2.name not in mcmc.SAMPLERS:
                                for tc, tf in prog.slot_targets(c2, m)[0]:
                                    todo.append((tc, tf))
        hits = []
        for c, fn in seen.values():
            mi = c.module
            for n in ast.walk(fn):
                if not isinstance(n, ast.Call):
                    continue
                q = None
                if isinstance(n.func, ast.Name):
                    q = mi.imports.get(n.func.id)
                elif isinstance(n.func, ast.Attribute):
                    base = n.func.value
                    parts = [n.func.attr]
                    while isinstance(base, ast.Attribute):
                        parts.append(base.attr)
                        base = base.value
                    if isinstance(base, ast.Name) and base.id in mi.imports:
                        q = ".".join([mi.imports[base.id]] + parts[::-1])
                if q and q.startswith("numpy.random.") and q.split(".")[-1] not in GLOBAL_RNG_OK and q.count(".") == 2:
                    hits.append((c.module.relpath, n.lineno, f"{c.name}.{fn.name}", ast.unparse(n)[:100], q))
                # the standard library's module-level generator (random.uniform, random.random ..), os.urandom, secrets: process-wide too
                elif q and ((q.startswith("random.") and q.count(".") == 1 and q.split(".")[-1] not in ("Random", "SystemRandom", "seed", "getstate", "setstate"))
                            or q in ("os.urandom",) or q.startswith("secrets.")):
                    hits.append((c.module.relpath, n.lineno, f"{c.name}.{fn.name}", ast.unparse(n)[:100], q))
        msg = ""
        if hits:
            rel_, line, where, text, q = hits[0]
            msg = (f"`{text}` in {where} ({rel_}:{line}) resolves to {q}, the process-wide generator: the draw is not part of the chain's "
                   f"state, so a chain advanced in a pool worker (or saved and reloaded) does not end where the same chain advanced in "
                   f"sequence does")
        out.append(struct_ob("randomness-owned", f"{ci.module.name}.{cname}", not hits, msg, ci.module.relpath,
                             hits[0][1] if hits else ci.node.lineno, slots={"functions_reached": len(seen), "global_draws": [list(h) for h in hits]}))
    return out


def _trip(prog, c, fn, weight, param, what, want=None):
    ci = c
    ex = Expander(prog, c.module, c)
    ex.opaque_self_attrs = {"n_walkers", "sample", "sample_probs", "walker_positions", "walker_probs"}
    env = {a.arg: R.sym(a.arg) for a in fn.args.args[1:]}
    try:
        alts = trip.count_calls(ex, fn.body, env, weight)
    except Unsupported as e:
        raise AnalysisError(f"trip count of {qual(c, fn)}: {e}")
    want = want if want is not None else R.sym(param)
    bad = []
    forms = []
    # the same through contextlib.suppress(..): the exception is swallowed by the context manager
    for w_ in ast.walk(fn):
        if isinstance(w_, ast.With) and any(isinstance(it_.context_expr, ast.Call) and U(it_.context_expr.func).split(".")[-1] == "suppress" for it_ in w_.items):
            for cl_ in [x for b_ in w_.body for x in ast.walk(b_) if isinstance(x, ast.Call)]:
                try:
                    w_c = weight(cl_, ex, dict(env))
                except Exception:
                    w_c = None
                if w_c is not None:
                    return Ob_trip(c, fn, False, f"`{U(cl_)[:60]}` (line {cl_.lineno}) runs under `suppress(..)`: a step that fails is skipped silently, "
                                                 f"and fewer samples are added than requested", forms, what)
    # a counted call inside a `try` whose handler does not re-raise: a failed call is counted but adds nothing
    for tr_ in ast.walk(fn):
        if isinstance(tr_, ast.Try) and any(not any(isinstance(x, ast.Raise) for x in ast.walk(h_)) for h_ in tr_.handlers):
            for cl_ in [x for b_ in tr_.body for x in ast.walk(b_) if isinstance(x, ast.Call)]:
                try:
                    w_c = weight(cl_, ex, dict(env))
                except Exception:
                    w_c = None
                if w_c is not None:
                    return Ob_trip(c, fn, False, f"`{U(cl_)[:60]}` (line {cl_.lineno}) runs inside a try whose handler swallows the exception: a "
                                                 f"step that fails is counted as taken, and fewer samples are added than requested", forms, what)
    def zero_request(guards):
        """the guards of the path say that the request is 0 (requests are whole numbers >= 0)"""
        if param is None:
            return False
        for pol, t in guards:
            tt = U(t)
            if pol == "true" and tt in (f"{param} < 1", f"{param} <= 0", f"{param} == 0", f"not {param}", f"1 > {param}", f"0 >= {param}", f"0 == {param}"):
                return True
            if pol == "false" and tt in (f"{param} > 0", f"{param} >= 1", f"{param} != 0", f"{param}", f"0 < {param}", f"1 <= {param}"):
                return True
        return False
    for a in alts:
        tot = trip.apply_div_relations(a.total, a.guards, ex, a.env)
        w_ = want
        if zero_request(a.guards):
            z_ = {("sym", param): R.const(0)}
            tot, w_ = anf.subst(tot, z_), anf.subst(want, z_)
        forms.append(str(tot))
        if not tot.eq(w_):
            # a counter known to be zero on this path (`if remaining != 0:` not taken): the totals may differ by a multiple of it
            zs = [z for z in a.env.get("__zero__", []) if isinstance(z, R)]
            if any(not z.is_zero() and anf.proportional(trip.apply_div_relations(tot - w_, a.guards, ex, a.env), trip.apply_div_relations(z, a.guards, ex, a.env)) is not None
                   for z in zs):
                continue
            bad.append((a, tot))
    msg = ""
    if bad:
        a, tot = bad[0]
        g = [("" if pol == "true" else "not ") + U(t) for pol, t in a.guards]
        msg = f"{what} on the path {g or '[straight]'} is  {tot}  but must be  {want}"
    # the request may be any count, 0 included: a group size the request is divided by must be positive whatever the request
    if not bad and param is not None:
        rzd = Resolver(fn)
        for n in ast.walk(fn):
            dv = None
            if isinstance(n, ast.BinOp) and isinstance(n.op, (ast.FloorDiv, ast.Mod, ast.Div)):
                dv = n.right
            elif isinstance(n, ast.Call) and U(n.func) == "divmod" and len(n.args) == 2:
                dv = n.args[1]
            if dv is None:
                continue
            t_ = rzd.term(dv, rzd.stmt_of(n))
            if any(isinstance(x, ast.Name) and x.id == param for x in ast.walk(t_)) and not _lower_bound_ge1(t_):
                return Ob_trip(c, fn, False, f"`{U(n)[:60]}` divides by `{U(t_)[:60]}`, which is 0 for the admissible request {param} = 0 "
                                             f"(a request for no samples raises instead of adding none)", forms, what)
    return Ob_trip(c, fn, not bad, msg, forms, what)


def Ob_trip(c, fn, ok, msg, forms, what):
    return struct_ob("trip-count", qual(c, fn), ok, msg, c.module.relpath, fn.lineno,
                     slots={"what": what, "path_totals": forms})


def _lower_bound_ge1(expr):
    """Interval domain: literal >= 1; max(.., c>=1, ..); otherwise unknown (int(x) is only >= 0... or less)."""
    if isinstance(expr, ast.Constant) and isinstance(expr.value, (int, float)):
        return expr.value >= 1
    if isinstance(expr, ast.Call) and U(expr.func) == "max":
        return any(_lower_bound_ge1(a) for a in expr.args)
    if isinstance(expr, ast.BoolOp) and isinstance(expr.op, ast.Or) and len(expr.values) == 2 and _lower_bound_ge1(expr.values[1]):
        # `int(q) or k`: q truncated to 0 gives k >= 1; otherwise the integer itself, >= 1 for a non-negative quotient (steps taken per
        # second of run time - a count over a positive duration)
        a = expr.values[0]
        return isinstance(a, ast.Call) and U(a.func) == "int" and len(a.args) == 1 and isinstance(a.args[0], ast.BinOp) \
            and isinstance(a.args[0].op, (ast.Div, ast.FloorDiv))
    if isinstance(expr, ast.IfExp):
        return _lower_bound_ge1(expr.body) and _lower_bound_ge1(expr.orelse)
    return False


def _progress(c, fn, step_callee):
    """Inside the `while <clock> < end` loop: the number of steps per iteration is >= 1 and the clock is re-read."""
    rel = c.module.relpath
    whiles = [n for n in fn.body if isinstance(n, ast.While)]
    if len(whiles) != 1:
        raise AnalysisError(f"anchor vanished: timed while-loop in {qual(c, fn)}")
    w = whiles[0]
    # the counted loop
    loops = [n for n in w.body if isinstance(n, ast.For) and any(
        isinstance(x, ast.Call) and U(x.func) == step_callee for x in ast.walk(n))]
    problems = []
    if len(loops) != 1 or not (isinstance(loops[0].iter, ast.Call) and U(loops[0].iter.func) == "range"
                               and len(loops[0].iter.args) == 1):
        problems.append("no single `for _ in range(N)` stepping loop inside the timed loop")
    else:
        cnt = loops[0].iter.args[0]
        if isinstance(cnt, ast.Name):
            defs = [n for n in ast.walk(fn) if isinstance(n, ast.Assign)
                    and any(isinstance(t, ast.Name) and t.id == cnt.id for t in n.targets)]
            if not defs:
                problems.append(f"step count `{cnt.id}` is never assigned")
            for d in defs:
                if not _lower_bound_ge1(d.value):
                    problems.append(f"`{U(d)}` (line {d.lineno}) has no lower bound >= 1: the timed loop can spin "
                                    f"without taking a step")
        elif not _lower_bound_ge1(cnt):
            problems.append(f"step count `{U(cnt)}` has no lower bound >= 1")
    # clock refresh: the while test reads time() directly, or a variable assigned from time() inside the loop
    test_names = {n.id for n in ast.walk(w.test) if isinstance(n, ast.Name)}
    direct = any(isinstance(n, ast.Call) and U(n.func) == "time" for n in ast.walk(w.test))
    refreshed = any(isinstance(s, ast.Assign) and isinstance(s.value, ast.Call) and U(s.value.func) == "time"
                    and any(isinstance(t, ast.Name) and t.id in test_names for t in s.targets) for s in w.body)
    if not (direct or refreshed):
        problems.append("the loop condition's clock variable is not refreshed from time() inside the loop")
    # the budget is used up when the clock reaches the deadline: the continuation test is a strict inequality (with an empty
    # budget, or a clock reading exactly on the deadline, no further batch of steps is taken)
    t_ = w.test
    neg = False
    while isinstance(t_, ast.UnaryOp) and isinstance(t_.op, ast.Not):
        t_, neg = t_.operand, not neg
    strict = isinstance(t_, ast.Compare) and len(t_.ops) == 1 and (
        (not neg and isinstance(t_.ops[0], (ast.Lt, ast.Gt))) or (neg and isinstance(t_.ops[0], (ast.LtE, ast.GtE))))
    if not strict:
        problems.append(f"the continuation test `{U(w.test)}` still holds when the clock reads exactly the deadline: a run whose budget is "
                        f"used up (or empty) takes another full batch of steps")
    # the run lasts until the deadline: the clock test is the only way out of the timed loop
    exits = [n for n in ast.walk(w) if isinstance(n, (ast.Break, ast.Return))
             and not any(isinstance(l, (ast.For, ast.While)) and l is not w and any(x is n for x in ast.walk(l)) and isinstance(n, ast.Break)
                         for l in ast.walk(w))]
    if exits:
        problems.append(f"the timed loop is left through `{U(exits[0])}` at line {exits[0].lineno}, not only by the clock test: the run can "
                        f"stop with part of the requested time unused")
    # the deadline is the start of the run plus the requested time in seconds: 60 per minute, 3600 per hour, 86400 per day
    units = {"seconds": 1, "minutes": 60, "hours": 3600, "days": 86400}
    tp = [a.arg for a in fn.args.args if a.arg in units]
    if tp and isinstance(t_, ast.Compare) and len(t_.ops) == 1:
        rz_ = Resolver(fn)
        sides = [t_.left, t_.comparators[0]]
        dl = [x for x in sides if not any(isinstance(y, ast.Call) and U(y.func) == "time" for y in ast.walk(x))
              and not any(isinstance(y, ast.Name) and y.id in test_names and any(
                  isinstance(s_, ast.Assign) and isinstance(s_.value, ast.Call) and U(s_.value.func) == "time"
                  and any(isinstance(tt, ast.Name) and tt.id == y.id for tt in s_.targets) for s_ in w.body) for y in ast.walk(x))]
        if len(dl) != 1:
            raise AnalysisError(f"run_for: the deadline side of `{U(t_)[:60]}` in {qual(c, fn)} is not identified - not decided")
        term = rz_.term(dl[0], w)
        try:
            from ..term import abstract as _abs, anf_of as _anf
            dv = _anf(_abs(term, [("time()", "t_start")])[0])
            for p_ in tp:
                d_ = anf.diff(dv, ("sym", p_))
                if not d_.eq(R.const(units[p_])):
                    problems.append(f"the deadline `{U(term)[:80]}` grows by {d_} seconds per unit of `{p_}`, not by {units[p_]}")
            want_dl = R.sym("t_start")
            for p_ in tp:
                want_dl = want_dl + R.const(units[p_]) * R.sym(p_)
            if not problems and not dv.eq(want_dl):
                problems.append(f"the deadline is `{dv}`, not the start of the run plus the requested time ({want_dl}): the run stops "
                                f"{dv - want_dl} seconds away from where the budget ends")
        except Unsupported as e:
            raise AnalysisError(f"run_for: deadline `{U(term)[:80]}` outside the algebra ({e})")
    return struct_ob("run_for.progress", qual(c, fn), not problems, "; ".join(problems), rel, w.lineno,
                     detail="lower-bound" if any("lower bound" in p for p in problems) else "",
                     slots={"loop_test": U(w.test)})
